#!/venv/bin/python
"""MANIFEST.setup_cmd: regenerate lean/IOptGen from /repo and build the whole Lean project (offline)."""
import os, sys, time
sys.path.insert(0, os.path.dirname(os.path.abspath(__file__)))
from common import *
import translate

t0 = time.time()
ch = translate.regenerate()
print(f"[setup] translator: regenerated {len(ch)} files in {time.time()-t0:.0f}s", flush=True)
ok, out, dt = lake_build([], timeout=7200)
print(out[-3000:])
print(f"[setup] lake build {'ok' if ok else 'FAILED'} in {dt:.0f}s")
sys.exit(0 if ok else 1)
