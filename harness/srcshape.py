"""Source-shape record: which functions of /repo differ (as normalised ASTs) from the source the hand-written model
was written and validated against (golden/srcshape.json).

This is NOT a proof obligation and never a violation by itself: a changed function only makes the check of the
properties anchored in that file search deeper (thorough oracle budget, larger correspondence sample), and is listed
in the evidence.  Docstrings, comments and formatting do not count.

  srcshape.py --record      rewrite golden/srcshape.json from /repo (done when the model is re-validated)
"""
import ast, hashlib, json, os, sys, warnings
warnings.filterwarnings("ignore", category=SyntaxWarning)

HERE = os.path.dirname(os.path.abspath(__file__))
VERIF = os.path.dirname(HERE)
GOLD = os.path.join(VERIF, "golden", "srcshape.json")
SKIP_SUFFIX = ("_generation.py",)     # pure data tables: regenerated into IOptGen on every run instead


def _strip_doc(node):
    for n in ast.walk(node):
        if isinstance(n, (ast.FunctionDef, ast.AsyncFunctionDef, ast.ClassDef, ast.Module)):
            if n.body and isinstance(n.body[0], ast.Expr) and isinstance(n.body[0].value, ast.Constant) \
                    and isinstance(n.body[0].value.value, str):
                n.body = n.body[1:] or [ast.Pass()]
    return node


def _h(node):
    return hashlib.sha1(ast.dump(node, annotate_fields=False, include_attributes=False).encode()).hexdigest()[:16]


def file_shape(path):
    try:
        tree = _strip_doc(ast.parse(open(path, encoding="utf-8").read()))
    except SyntaxError as e:
        return {"<syntax-error>": str(e)[:80]}
    out = {}

    def visit(body, prefix):
        rest = []
        for s in body:
            if isinstance(s, (ast.FunctionDef, ast.AsyncFunctionDef)):
                out[prefix + s.name] = _h(s)
            elif isinstance(s, ast.ClassDef):
                visit(s.body, prefix + s.name + ".")
            elif isinstance(s, (ast.Import, ast.ImportFrom)):
                continue
            else:
                rest.append(s)
        if rest:
            out[prefix + "<body>"] = _h(ast.Module(body=rest, type_ignores=[]))
    visit(tree.body, "")
    return out


def repo_shape(repo):
    out = {}
    root = os.path.join(repo, "iOpt")
    for dp, dn, fn in os.walk(root):
        dn[:] = sorted(d for d in dn if d != "__pycache__")
        for f in sorted(fn):
            if f.endswith(".py") and not f.endswith(SKIP_SUFFIX):
                p = os.path.join(dp, f)
                out[os.path.relpath(p, repo)] = file_shape(p)
    return out


def anchors():
    res = {}
    for line in open(os.path.join(VERIF, "properties.jsonl")):
        p = json.loads(line)
        res[p["id"]] = p.get("anchors", {}).get("files", [])
    return res


# files whose behaviour a property depends on although the anchor list does not name them
EXTRA = {
    "C01": ["iOpt/solver.py", "iOpt/method/optim_task.py"], "C02": ["iOpt/evolvent/evolvent.py", "iOpt/method/optim_task.py", "iOpt/solver.py"],
    "C03": ["iOpt/method/search_data.py", "iOpt/solver.py"], "C04": ["iOpt/method/optim_task.py", "iOpt/solver.py"],
    "C05": ["iOpt/method/method.py", "iOpt/method/optim_task.py"], "C06": ["iOpt/evolvent/evolvent.py", "iOpt/solver.py"],
    "C11": ["iOpt/method/search_data.py"], "C12": ["iOpt/method/method.py", "iOpt/method/process.py"],
    "C13": ["iOpt/method/method.py"], "C16": ["iOpt/solver.py", "iOpt/method/optim_task.py"],
    "C17": [], "C20": ["iOpt/method/method.py", "iOpt/method/process.py"],
}


def changed(repo, pid=None):
    """list of 'file::function' whose normalised AST differs from the record (restricted to the files of `pid`)"""
    if not os.path.exists(GOLD):
        return ["<no record>"]
    gold = json.load(open(GOLD))
    now = repo_shape(repo)
    files = None
    if pid is not None:
        files = set(anchors().get(pid, [])) | set(EXTRA.get(pid, []))
    out = []
    for f in sorted(set(gold) | set(now)):
        if files is not None and f not in files:
            continue
        g, n = gold.get(f, {}), now.get(f, {})
        for k in sorted(set(g) | set(n)):
            if g.get(k) != n.get(k):
                out.append(f"{f}::{k}")
    return out


if __name__ == "__main__":
    repo = os.environ.get("IOPT_REPO", "/repo")
    if "--record" in sys.argv:
        json.dump(repo_shape(repo), open(GOLD, "w"), indent=0, sort_keys=True)
        print("recorded", GOLD)
    else:
        print(json.dumps(changed(repo, sys.argv[1] if len(sys.argv) > 1 else None), indent=1))
