"""Correspondence stream `pw.*` for property C15 (benchmark evaluation is a pure function of the point).

Model: lean/IOptModel/ProbWorld.lean (namespace ProbWorld, driver hook `stepCmd`).
Implementation side: the REAL problem classes of iOpt, constructed and evaluated in-process; every numpy
array / list / FunctionValue that an instance or the caller owns is registered in an identity registry
(numbered by first appearance = allocation order of the model heap), so that

* any aliasing between tables of different instances shows up as a repeated number in `pw.construct`,
* any write outside the supplied holder shows up in the `wrote=` field of `pw.calc` and in `pw.snapshot`,
* a `Calculate` that returns another object than the supplied holder shows up as `same=0`.

The content of the tables an instance builds at construction travels to the model in the `pw.construct`
line (after `|`); the implementation ignores that part, so both sides read the same script.
"""
import os, subprocess
from common import *
ensure_repo_on_path()
import numpy as np

M64 = (1 << 64) - 1
FAMILIES = ["hill", "shekel", "shekel4", "grishagin", "gkls", "rastrigin", "xsquared"]
LAYOUT = {
    "grishagin": ["lower", "upper", "optPoint", "optValue", "scalars", "icnf", "af", "bf", "cf", "df"],
    "gkls": ["lower", "upper", "optValue", "scalars", "domLeft", "domRight", "rndNum", "randCond",
             "localMin", "wRho", "peak", "rho", "f", "gmIndex"],
}
DEFAULT_LAYOUT = ["lower", "upper", "optPoint", "optValue", "scalars"]


def layout(fam):
    return LAYOUT.get(fam, DEFAULT_LAYOUT)


def fam_dim(fam, args):
    return {"hill": 1, "shekel": 1, "shekel4": 4, "grishagin": 2}.get(fam) or args[0]


# ---------------------------------------------------------------------------------------------
# model side
# ---------------------------------------------------------------------------------------------
def model_run(lines):
    """pipe through the driver; PW_DRIVER selects a private build while developing"""
    exe = os.environ.get("PW_DRIVER")
    if not exe:
        return run_model(lines)
    r = subprocess.run([exe], input="\n".join(lines) + "\n", stdout=subprocess.PIPE, stderr=subprocess.PIPE, text=True)
    if r.returncode != 0:
        raise Infra("driver crashed: " + r.stderr[-2000:])
    out = r.stdout.split("\n")
    if out and out[-1] == "":
        out.pop()
    if len(out) != len(lines):
        raise Infra(f"driver produced {len(out)} lines for {len(lines)} commands")
    return out


# ---------------------------------------------------------------------------------------------
# digest (same function as ProbWorld.digest)
# ---------------------------------------------------------------------------------------------
_C = np.uint64(0x9E3779B97F4A7C15)
_K1 = np.uint64(0x100000001B3)
_K2 = np.uint64(0x2545F4914F6CDD1D)


def as_doubles(obj):
    """content of a registered object as a flat float64 array (ints are converted like the model's tables)"""
    a = np.array(obj, dtype=np.double).ravel()
    return np.ascontiguousarray(a)


def digest(vals):
    a = as_doubles(vals)
    bits = a.view(np.uint64).copy()
    bits[np.isnan(a)] = np.uint64(0x7ff8000000000000)
    n = len(a)
    with np.errstate(over="ignore"):
        i = np.arange(n, dtype=np.uint64)
        m = (i * _K1 + _K2) * np.uint64(2) + np.uint64(1)
        s = int(((bits ^ _C) * m).sum(dtype=np.uint64)) if n else 0
    return "%016x" % ((0xCBF29CE484222325 + n + s) & M64)


# ---------------------------------------------------------------------------------------------
# implementation side
# ---------------------------------------------------------------------------------------------
def module_tables():
    """the module-level tables in the order of ProbWorld.ModTab.all"""
    import iOpt.problems.Hill.hill_generation as hg
    import iOpt.problems.Shekel.shekel_generation as sg
    import iOpt.problems.Shekel4.shekel4_generation as s4
    import iOpt.problems.grishagin_function.grishagin_generation as gg
    return [(hg, "aHill"), (hg, "bHill"), (hg, "minHill"), (hg, "maxHill"), (hg, "lConstantHill"),
            (sg, "kShekel"), (sg, "aShekel"), (sg, "cShekel"), (sg, "minShekel"), (sg, "maxHill"), (sg, "lConstantHill"),
            (s4, "a"), (s4, "c"), (s4, "maxI"), (gg, "rand_minimums"), (gg, "matcon")]


def construct_real(fam, args):
    if fam == "hill":
        from iOpt.problems.hill import Hill; return Hill(*args)
    if fam == "shekel":
        from iOpt.problems.shekel import Shekel; return Shekel(*args)
    if fam == "shekel4":
        from iOpt.problems.shekel4 import Shekel4; return Shekel4(*args)
    if fam == "grishagin":
        from iOpt.problems.grishagin import Grishagin; return Grishagin(*args)
    if fam == "gkls":
        from iOpt.problems.GKLS import GKLS; return GKLS(*args)
    if fam == "rastrigin":
        from iOpt.problems.rastrigin import Rastrigin; return Rastrigin(*args)
    if fam == "xsquared":
        from iOpt.problems.xsquared import XSquared; return XSquared(*args)
    raise ValueError(fam)


def valid_args(fam, args):
    if fam in ("hill", "shekel"):
        return len(args) == 1 and args[0] < 1000
    if fam == "shekel4":
        return len(args) == 1 and 1 <= args[0] <= 3
    if fam == "grishagin":
        return len(args) == 1 and 1 <= args[0] <= 100
    if fam == "gkls":
        return len(args) == 2 and 2 <= args[0] <= 5 and 1 <= args[1] <= 100
    if fam in ("rastrigin", "xsquared"):
        return len(args) == 1 and args[0] >= 1
    return False


_NUM = (bool, int, float, np.integer, np.floating)


class Scalars:
    """synthetic cell: every numeric attribute of the instance's objects (plus the attribute COUNT of each
    object, plus alias flags), so that storing anything into any attribute changes this cell"""

    def __init__(self, fam, p):
        self.fam, self.p = fam, p

    def objects(self):
        p = self.p
        objs = [p]
        f = getattr(p, "function", None)
        if f is not None:
            objs.append(f)
            for nm in ("GKLS_minima", "GKLS_glob", "mRndGenerator"):
                if hasattr(f, nm):
                    objs.append(getattr(f, nm))
        return objs

    def values(self):
        out = []
        for o in self.objects():
            d = vars(o)
            out.append(float(len(d)))
            for k in sorted(d):
                v = d[k]
                if isinstance(v, _NUM):
                    out.append(float(v))
        f = getattr(self.p, "function", None)
        if f is not None and hasattr(f, "mRndGenerator"):
            g = f.mRndGenerator
            out.append(1.0 if g.rnd_num is f.rnd_num else 0.0)
            out.append(1.0 if g.ran_u is f.rand_condition else 0.0)
        ko = self.p.knownOptimum
        out.append(float(len(ko)))
        out.append(float(len(ko[0].functionValues)))
        return out


def instance_tables(fam, p, scal):
    """the private objects of an instance, in layout order (re-read from the live instance every time)"""
    ko = p.knownOptimum[0]
    t = {"lower": p.lowerBoundOfFloatVariables, "upper": p.upperBoundOfFloatVariables,
         "optPoint": ko.point.floatVariables, "optValue": ko.functionValues[0], "scalars": scal}
    if fam == "grishagin":
        g = p.function
        t.update(icnf=g.icnf, af=g.af, bf=g.bf, cf=g.cf, df=g.df)
    if fam == "gkls":
        f = p.function
        m = f.GKLS_minima
        t.update(domLeft=f.GKLS_domain_left, domRight=f.GKLS_domain_right, rndNum=f.rnd_num, randCond=f.rand_condition,
                 localMin=m.local_min, wRho=m.w_rho, peak=m.peak, rho=m.rho, f=m.f, gmIndex=f.GKLS_glob.gm_index)
    return [t[nm] for nm in layout(fam)]


class Slot:
    def __init__(self, obj, tag):
        self.obj, self.tag = obj, tag

    def content(self):
        o = self.obj
        if isinstance(o, Scalars):
            return o.values()
        if hasattr(o, "value") and not isinstance(o, np.ndarray):     # FunctionValue
            return [float(o.value)] if isinstance(o.value, _NUM) else [float("nan")]
        return as_doubles(o)

    def raw(self):
        """cheap exact fingerprint of the current content (for before/after comparison)"""
        o = self.obj
        if isinstance(o, np.ndarray):
            return o.tobytes()
        if isinstance(o, Scalars):
            return tuple(o.values())
        if hasattr(o, "value"):
            v = o.value
            return (float(v), "") if isinstance(v, _NUM) else (repr(v), type(v).__name__)
        return repr(o)

    def holder_ok(self):
        from iOpt.trial import FunctionType
        o = self.obj
        return (set(vars(o)) == {"type", "functionID", "value"} and o.type == FunctionType.OBJECTIV and o.functionID == ""
                and isinstance(o.value, _NUM))


def _bounds(a):
    if a.size == 0:
        return None
    lo, hi = np.lib.array_utils.byte_bounds(a) if hasattr(np.lib, "array_utils") else np.byte_bounds(a)
    return lo, hi


class ImplWorld:
    """interpreter of the pw.* commands on the real classes"""

    def __init__(self):
        self.mods = module_tables()
        self.reset()

    # -- registry ---------------------------------------------------------------------------
    def reset(self):
        self.slots = []          # Slot per identity number (strong refs keep ids stable)
        self.by_id = {}
        self.ranges = []         # (lo, hi, number) of registered numpy buffers
        self.insts = []          # (fam, args, problem, Scalars)
        for mod, attr in self.mods:
            self.number(getattr(mod, attr), "M")

    def number(self, obj, tag):
        k = self.by_id.get(id(obj))
        if k is not None and self.slots[k].obj is obj:
            return k
        if isinstance(obj, np.ndarray):
            b = _bounds(obj)
            if b is not None:
                for lo, hi, n in self.ranges:
                    if b[0] < hi and lo < b[1] and np.shares_memory(obj, self.slots[n].obj):
                        return n         # a view of / the same buffer as a registered array
        k = len(self.slots)
        self.slots.append(Slot(obj, tag))
        self.by_id[id(obj)] = k
        if isinstance(obj, np.ndarray):
            b = _bounds(obj)
            if b is not None:
                self.ranges.append((b[0], b[1], k))
        return k

    def raws(self):
        return [s.raw() for s in self.slots]

    def changed_since(self, before):
        """numbers of the slots whose content differs from the fingerprint list `before` (new slots included)"""
        after = self.raws()
        return {k for k in range(len(after)) if k >= len(before) or before[k] != after[k]}

    # -- commands ---------------------------------------------------------------------------
    def step(self, line):
        """returns (output, line for the model)"""
        t = line.split()
        c = t[0]
        if c == "pw.module":
            i = int(t[1])
            mod, attr = self.mods[i]
            vals = as_doubles(getattr(mod, attr))
            return f"ok {len(vals)} {digest(vals)}", f"pw.module {i} {fs2h(vals)}"
        if c == "pw.reset":
            self.reset()
            return f"ok cells={len(self.slots)}", line
        if c == "pw.construct":
            if "|" in t:
                t = t[:t.index("|")]
            fam, args = t[1], [int(v) for v in t[2:]]
            if fam not in FAMILIES or not valid_args(fam, args):
                return "error", line
            before = self.raws()
            p = construct_real(fam, args)
            changed = sorted(self.changed_since(before))      # existing cells a constructor wrote: none expected
            k = len(self.insts)
            scal = Scalars(fam, p)
            self.insts.append((fam, args, p, scal))
            tabs = instance_tables(fam, p, scal)
            nums = [self.number(o, f"I{k}") for o in tabs]
            content = " | ".join(fs2h(self.slots[n].content()) for n in nums)
            ml = f"pw.construct {fam} {' '.join(map(str, args))} | {content}"
            return f"inst={k} cells={','.join(map(str, nums))} changed={','.join(map(str, changed))}", ml
        if c == "pw.point":
            arr = np.array([h2f(v) for v in t[2:]], dtype=np.double)
            if len(arr) != int(t[1]):
                return "bad-op", line
            return f"ref={self.number(arr, 'P')}", line
        if c == "pw.setpoint":
            r = int(t[1])
            vals = [h2f(v) for v in t[2:]]
            if r >= len(self.slots) or self.slots[r].tag != "P" or len(self.slots[r].obj) != len(vals):
                return "error", line
            self.slots[r].obj[:] = vals
            return "ok", line
        if c == "pw.holder":
            from iOpt.trial import FunctionValue
            return f"ref={self.number(FunctionValue(), 'H')}", line
        if c == "pw.calc":
            i, p, h = int(t[1]), int(t[2]), int(t[3])
            if i >= len(self.insts) or p >= len(self.slots) or h >= len(self.slots):
                return "error", line
            fam, args, prob, _ = self.insts[i]
            ps, hs = self.slots[p], self.slots[h]
            if hs.tag != "H" or ps.tag == "H" or isinstance(ps.obj, Scalars) or hasattr(ps.obj, "value") and not isinstance(ps.obj, np.ndarray):
                return "error", line
            if len(as_doubles(ps.obj)) != fam_dim(fam, args):
                return "error", line
            from iOpt.trial import Point
            before = self.raws()
            try:
                ret = prob.Calculate(Point(ps.obj, []), hs.obj)
            except Exception as e:
                return f"pyerror {type(e).__name__}", line
            rn = self.number(ret, "H")
            wrote = self.changed_since(before) | {h}
            rv = getattr(ret, "value", None)
            val = f2h(float(rv)) if isinstance(rv, _NUM) else "type:" + type(rv).__name__
            return (f"ret={rn} same={1 if ret is hs.obj else 0} value={val} wrote={','.join(map(str, sorted(wrote)))}", line)
        if c == "pw.snapshot":
            # re-read every instance's objects: replaced arrays get new numbers
            parts = []
            for k, (fam, args, prob, scal) in enumerate(self.insts):
                nums = [self.number(o, f"I{k}") for o in instance_tables(fam, prob, scal)]
                parts.append(f"i{k}={fam}({','.join(map(str, args))})[{','.join(map(str, nums))}]")
            cells = []
            for r, s in enumerate(self.slots):
                vals = s.content()
                if s.tag in ("P", "H"):
                    body = ",".join(f2h(v) for v in vals)
                    if s.tag == "H" and not s.holder_ok():
                        body += "!attrs"
                    cells.append(f"{r}:{s.tag}:{body}")
                else:
                    cells.append(f"{r}:{s.tag}:{len(vals)}:{digest(vals)}")
            return f"cells={len(self.slots)} insts={len(self.insts)} | " + " ".join(cells) + " | " + " ".join(parts), line
        raise Infra("unknown command " + c)


# ---------------------------------------------------------------------------------------------
# history generator (runs in lock-step with the implementation so that it can aim at interesting
# points: known optima, GKLS ball centres and boundaries, box corners)
# ---------------------------------------------------------------------------------------------
def gen_args(r, fam, tier, near=None):
    full = tier == "thorough"
    if fam in ("hill", "shekel"):
        return [r.choice([0, 999, r.randrange(1000), r.randrange(1000)])]
    if fam == "shekel4":
        return [r.randint(1, 3)]
    if fam == "grishagin":
        # (fn-1) % 10 = j costs j * 196 generator calls twice: keep quick histories cheap
        if full and r.random() < 0.15:
            return [r.randint(1, 100)]
        return [10 * r.randrange(10) + r.choice([1, 1, 2])]
    if fam == "gkls":
        return [r.choice([2, 2, 3, 3, 4, 5]), r.randint(1, 100)]
    return [r.choice([1, 2, 3, 5, 8])]


class HistoryGen:
    def __init__(self, r, tier, world, max_ops):
        self.r, self.tier, self.w, self.max_ops = r, tier, world, max_ops
        self.lines, self.model_lines, self.outs = [], [], []
        self.points = []     # (ref, dim) caller arrays
        self.holders = []    # refs
        self.used = []       # (inst, pointref) evaluated before
        self.heavy = 0

    def emit(self, line):
        out, ml = self.w.step(line)
        self.lines.append(line); self.model_lines.append(ml); self.outs.append(out)
        return out

    def box(self, k):
        fam, args, p, _ = self.w.insts[k]
        lo = [float(v) for v in p.lowerBoundOfFloatVariables]
        hi = [float(v) for v in p.upperBoundOfFloatVariables]
        return lo, hi

    def point_for(self, k):
        """content of a new point aimed at instance k"""
        r = self.r
        fam, args, p, _ = self.w.insts[k]
        lo, hi = self.box(k)
        n = len(lo)
        style = r.random()
        if style < 0.12:
            return [float(v) for v in p.knownOptimum[0].point.floatVariables]
        if style < 0.2:
            return [r.choice([l, h]) for l, h in zip(lo, hi)]
        if fam == "gkls" and style < 0.5:
            m = p.function.GKLS_minima
            i = r.randrange(10)
            c = [float(v) for v in m.local_min[i]]
            d = [r.gauss(0, 1) for _ in range(n)]
            nd = sum(v * v for v in d) ** 0.5 or 1.0
            fac = r.choice([0.0, 1.0, 1 - 1e-9, 1 + 1e-9, 0.5, 1e-11 / max(float(m.rho[i]), 1e-30)])
            q = [ci + fac * float(m.rho[i]) * di / nd for ci, di in zip(c, d)]
            if r.random() < 0.8:
                q = [min(max(v, l), h) for v, l, h in zip(q, lo, hi)]
            return q
        if style < 0.55:      # slightly outside the box
            return [r.uniform(l, h) + r.choice([0, 0, (h - l) * 0.01, -(h - l) * 0.01]) for l, h in zip(lo, hi)]
        return [r.uniform(l, h) for l, h in zip(lo, hi)]

    def new_instance(self):
        r, w = self.r, self.w
        fam = None
        if w.insts and r.random() < 0.45:
            # a sibling of an existing instance: same (family, args), or same family other member
            f0, a0, _, _ = r.choice(w.insts)
            fam = f0
            if r.random() < 0.4:
                args = list(a0)
            elif f0 == "gkls" and r.random() < 0.6:
                args = [a0[0], r.randint(1, 100)]
            else:
                args = gen_args(r, fam, self.tier)
        else:
            fam = r.choice(["hill", "shekel", "shekel4", "grishagin", "gkls", "gkls", "gkls", "rastrigin", "xsquared", "hill", "shekel"])
            args = gen_args(r, fam, self.tier)
        if fam in ("gkls", "grishagin"):
            if self.heavy >= (3 if self.tier == "quick" else 5):
                fam, args = "hill", gen_args(r, "hill", self.tier)
            else:
                self.heavy += 1
        self.emit(f"pw.construct {fam} {' '.join(map(str, args))}")

    def new_point(self, k=None):
        if not self.w.insts:
            return
        k = self.r.randrange(len(self.w.insts)) if k is None else k
        v = self.point_for(k)
        out = self.emit(f"pw.point {len(v)} " + fs2h(v))
        self.points.append((int(out.split("=")[1]), len(v)))

    def new_holder(self):
        out = self.emit("pw.holder")
        self.holders.append(int(out.split("=")[1]))

    def calc(self):
        r, w = self.r, self.w
        if not w.insts:
            return
        if self.used and r.random() < 0.35:
            k, pref = r.choice(self.used)          # revisit an earlier (instance, point)
        else:
            k = r.randrange(len(w.insts))
            fam, args, p, _ = w.insts[k]
            d = fam_dim(fam, args)
            cands = [ref for ref, n in self.points if n == d]
            style = r.random()
            if style < 0.12:
                # one of the instance's own arrays (known optimum point, bounds) passed as the point
                nums = [w.number(o, f"I{k}") for o in instance_tables(fam, p, w.insts[k][3])]
                names = layout(fam)
                pref = nums[names.index(r.choice([nm for nm in ("optPoint", "lower", "upper", "domLeft") if nm in names]))]
            elif style < 0.27 and [u for u in self.used if u[0] == k]:
                # a NEW array whose content is a tiny perturbation of a point evaluated before on this instance
                # (a result cache keyed on "close" points would answer with the old value)
                _, p0 = r.choice([u for u in self.used if u[0] == k])
                v = [float(x) * (1 + r.choice([-1, 1]) * 10.0 ** r.randint(-9, -5)) + r.choice([0.0, 1e-7, -1e-9])
                     for x in as_doubles(w.slots[p0].obj)]
                out = self.emit(f"pw.point {len(v)} " + fs2h(v))
                pref = int(out.split("=")[1])
                self.points.append((pref, len(v)))
            elif not cands or style < 0.4:
                self.new_point(k)
                pref = self.points[-1][0]
            else:
                pref = r.choice(cands)
        if not self.holders or (len(self.holders) < 4 and r.random() < 0.15):
            self.new_holder()
        h = r.choice(self.holders)
        self.emit(f"pw.calc {k} {pref} {h}")
        self.used.append((k, pref))

    def setpoint(self):
        if not self.points or not self.w.insts:
            return
        ref, n = self.r.choice(self.points)
        ks = [k for k, (fam, args, _, _) in enumerate(self.w.insts) if fam_dim(fam, args) == n]
        if not ks:
            return
        self.emit(f"pw.setpoint {ref} " + fs2h(self.point_for(self.r.choice(ks))))

    def invalid(self):
        r, w = self.r, self.w
        n = len(w.slots)
        choice = r.randrange(5)
        if choice == 0:
            self.emit(f"pw.calc {len(w.insts) + r.randint(0, 2)} {n + 1} {n + 2}")
        elif choice == 1 and w.insts and self.holders:
            self.emit(f"pw.calc {r.randrange(len(w.insts))} {r.choice(self.holders)} {r.choice(self.holders)}")   # holder as point
        elif choice == 2 and w.insts and self.points:
            self.emit(f"pw.calc {r.randrange(len(w.insts))} {r.choice(self.points)[0]} {r.choice(self.points)[0]}")  # array as holder
        elif choice == 3:
            self.emit(f"pw.setpoint {r.randrange(16)} {f2h(1.0)}")          # a module table is not the caller's
        else:
            self.emit(f"pw.construct gkls {r.choice([1, 6])} {r.choice([0, 5, 101])}")

    def run(self):
        r = self.r
        self.emit("pw.reset")
        n_ops = r.randint(8, self.max_ops)
        self.new_instance()
        first_calc = True
        while len(self.lines) < n_ops:
            x = r.random()
            if x < 0.16:
                self.new_instance()
            elif x < 0.24:
                self.new_point()
            elif x < 0.30:
                self.setpoint()
            elif x < 0.33:
                self.new_holder()
            elif x < 0.90:
                self.calc()
                if first_calc:
                    first_calc = False
                    self.emit("pw.snapshot")
            elif x < 0.97:
                self.emit("pw.snapshot")
            else:
                self.invalid()
        self.emit("pw.snapshot")
        return self


def family_sweep(r, world, tier):
    """one history that constructs every family (thorough: many members), evaluates, constructs siblings of the
    same and of other members, and re-evaluates the earlier points"""
    g = HistoryGen(r, tier, world, 10 ** 9)
    g.emit("pw.reset")
    full = tier == "thorough"
    members = []
    for fam in FAMILIES:
        cnt = {"hill": 6, "shekel": 6, "shekel4": 3, "grishagin": 6, "gkls": 8, "rastrigin": 3, "xsquared": 3}[fam] if full else 1
        for j in range(cnt):
            args = [j + 1] if fam == "shekel4" else gen_args(r, fam, tier)
            if fam == "gkls" and full:
                args = [2 + j % 4, r.randint(1, 100)]
            members.append((fam, args))
    g.new_holder(); g.new_holder()
    evals = []
    for fam, args in members:
        g.emit(f"pw.construct {fam} {' '.join(map(str, args))}")
        k = len(world.insts) - 1
        for _ in range(3):
            g.new_point(k)
            evals.append((k, g.points[-1][0]))
            g.emit(f"pw.calc {k} {g.points[-1][0]} {r.choice(g.holders)}")
    g.emit("pw.snapshot")
    # siblings: same (family,args) and a different member, then revisit everything in shuffled order
    for fam, args in members:
        g.emit(f"pw.construct {fam} {' '.join(map(str, args))}")
        k2 = len(world.insts) - 1
        k1 = members.index((fam, args))
        _, p1 = [e for e in evals if e[0] == k1][0]
        g.emit(f"pw.calc {k2} {p1} {g.holders[0]}")
        g.emit(f"pw.calc {k1} {p1} {g.holders[1]}")
        if fam == "gkls":
            g.emit(f"pw.construct gkls {args[0]} {args[1] % 100 + 1}")
            g.emit(f"pw.calc {k1} {p1} {g.holders[1]}")
        if fam == "grishagin" and full:
            g.emit(f"pw.construct grishagin {args[0] % 100 + 1}")
            g.emit(f"pw.calc {k1} {p1} {g.holders[1]}")
    r.shuffle(evals)
    for k, p in evals:
        g.emit(f"pw.calc {k} {p} {r.choice(g.holders)}")
    g.emit("pw.snapshot")
    return g


def short(line, n=160):
    return line if len(line) <= n else line[:n] + f"...[{len(line)} chars]"


def corr(r, tier):
    world = ImplWorld()
    pre = [f"pw.module {i}" for i in range(len(world.mods))]
    pre_out, pre_model = [], []
    for l in pre:
        o, ml = world.step(l)
        pre_out.append(o); pre_model.append(ml)
    n_hist, max_ops = (150, 60) if tier == "quick" else (900, 120)
    hists = [family_sweep(r, world, tier)]
    for _ in range(n_hist):
        hists.append(HistoryGen(r, tier, world, max_ops).run())
    allm, spans = list(pre_model), []
    for g in hists:
        spans.append((len(allm), len(g.lines))); allm += g.model_lines
    mo = model_run(allm)
    bad, total = [], len(pre)
    stats = {"calc": 0, "construct": 0, "snapshot": 0, "revisits": 0, "families": {}, "errors": 0}
    for i, l in enumerate(pre):
        if mo[i] != pre_out[i]:
            bad.append({"script": [short(x) for x in pre[:i + 1]], "command": short(l), "model_output": short(mo[i], 400),
                        "implementation_output": short(pre_out[i], 400)})
    for (st, ln), g in zip(spans, hists):
        total += ln
        seen = set()
        for i in range(ln):
            c = g.lines[i].split()
            if c[0] == "pw.calc":
                stats["calc"] += 1
                key = tuple(c[1:3])
                stats["revisits"] += key in seen
                seen.add(key)
            elif c[0] == "pw.construct":
                stats["construct"] += 1
                stats["families"][c[1]] = stats["families"].get(c[1], 0) + 1
            elif c[0] == "pw.snapshot":
                stats["snapshot"] += 1
            if g.outs[i] == "error":
                stats["errors"] += 1
            if mo[st + i] != g.outs[i]:
                a, b = mo[st + i].split(" "), g.outs[i].split(" ")
                diff = next((f"token {j}: model={short(x, 80)} impl={short(y, 80)}" for j, (x, y) in enumerate(zip(a, b)) if x != y),
                            f"length {len(a)} vs {len(b)}")
                bad.append({"script": [short(x) for x in g.lines[:i + 1]], "command": short(g.lines[i]),
                            "model_output": short(mo[st + i], 600), "implementation_output": short(g.outs[i], 600),
                            "first_difference": diff})
                break
    return {"evaluations": total, "scripts": len(hists), "mismatches": bad,
            "samples": [[short(x, 100) for x in hists[1].lines[:12]], [short(x, 200) for x in hists[1].outs[:12]]],
            "stats": stats}


if __name__ == "__main__":
    import sys, time, json
    tier = sys.argv[1] if len(sys.argv) > 1 else "quick"
    t0 = time.time()
    res = corr(rng("probworld"), tier)
    print(json.dumps({k: v for k, v in res.items() if k not in ("mismatches", "samples")}, indent=1))
    print("mismatches:", len(res["mismatches"]), "wall", round(time.time() - t0, 1))
    for m in res["mismatches"][:3]:
        print(json.dumps({k: (v[-6:] if k == "script" else v) for k, v in m.items()}, indent=1))
