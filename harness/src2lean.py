"""Source-to-Lean translator for the arithmetic / decision core of iOpt (DESIGN §1.3 (a), "regenerated from source").

A small symbolic executor over the Python AST of selected functions of /repo (read with `inspect.getsource` from
the imported module objects, i.e. from what the code IS NOW).  Each function is executed symbolically on named
inputs; the value of each designated output (a local variable, `return`, or an assigned attribute such as
`curr_point.globalR`, `self.M[index]`, `self.recalc`) becomes one Lean definition in `IOptGen/MethodSrc.lean`,
written over the same numeric classes as the hand-written model, fully parenthesised in the association order of
the source.  `IOptProofs/SrcTie.lean` proves the hand-written model functions equal to these definitions; a
source change that alters a formula, a comparison or a branch alters the generated definition and the tie theorem
no longer checks (a broken obligation, which triggers the failing-input search).

Supported subset: assignments, augmented assignments, `if/elif/else`, `return`, `raise` (recorded as `none`),
`print` (ignored); expressions: + - * /, unary minus, comparisons, `and/or/not`, `pow`, `abs`, `min`, numeric
literals from a fixed table, getters of the search items (`GetX/GetZ/GetIndex/GetLeft`, `.delta`, `.globalR`) and
the scalars named in the per-function configuration.  Anything else raises `Untranslatable`, which the caller
turns into a generated file whose single definition is an error marker (so the tie theorems break).
"""
import ast
import copy, inspect, textwrap


class Untranslatable(Exception):
    pass


# ---- symbolic values --------------------------------------------------------------------------------------
class V:
    """a Lean term with a type tag: R (numeric α), N (Nat), I (Int: trial index), B (Prop, decidable), O (item object)"""
    def __init__(self, ty, s):
        self.ty, self.s = ty, s

    def __repr__(self):
        return f"{self.ty}:{self.s}"


LITS_R = {0.5: "(half : α)", 1.0: "(1 : α)", 2.0: "(2 : α)", 4.0: "(4 : α)", 0.0: "(0 : α)"}
GETTERS = {"GetX": ("R", "x"), "GetZ": ("R", "z"), "GetIndex": ("I", "idx")}
ATTRS = {"delta": ("R", "delta"), "globalR": ("R", "globalR")}


class Exec:
    def __init__(self, cfg):
        self.cfg = cfg
        self.scalars = cfg.get("scalars", {})       # unparse-string or ('sub', attr) -> V
        self.assume = cfg.get("assume", {})         # unparse-string of a condition -> bool
        self.dropped = cfg.get("dropped_body", {})   # assumed condition -> source text of the branch that is dropped with it

    # ---- expressions ----
    def num(self, v):
        if v.ty == "R":
            return v
        raise Untranslatable(f"numeric value expected, got {v}")

    def lit(self, c, want=None):
        if isinstance(c, bool):
            return V("F", "true" if c else "false")
        if isinstance(c, int):
            if want == "I":
                return V("I", f"({c} : Int)")
            if want == "N":
                return V("N", f"({c} : Nat)")
            if float(c) in LITS_R:
                return V("R", LITS_R[float(c)])
            if c < 0 and float(-c) in LITS_R:
                return V("R", f"(-{LITS_R[float(-c)]})")
            if self.cfg.get("natcast") and c >= 0:
                return V("R", f"(({c} : Nat) : α)")       # Python int -> float conversion in mixed arithmetic
            raise Untranslatable(f"integer literal {c} has no counterpart in the model's numeric class")
        if isinstance(c, float) and "lits" in self.cfg and not (self.cfg.get("lits_unknown_only") and c in LITS_R):
            self.cfg["lits"].append(c)
            return V("R", f"(lit {len(self.cfg['lits']) - 1})")
        if isinstance(c, float):
            if c in LITS_R:
                return V("R", LITS_R[c])
            if self.cfg.get("natcast") and c.is_integer() and 0 <= c < 2 ** 53:
                return V("R", f"(({int(c)} : Nat) : α)")      # `10.0` and `10` denote the same double
            if -c in LITS_R:
                return V("R", f"(-{LITS_R[-c]})")
            raise Untranslatable(f"float literal {c!r} has no counterpart in the model's numeric class")
        raise Untranslatable(f"literal {c!r}")

    def ev(self, e, env, want=None):
        src = ast.unparse(e)
        if src in env and env[src].ty != "A":
            return env[src]
        if src in self.scalars:
            return self.scalars[src]
        if any(getattr(v_, "ty", None) == "A" for v_ in env.values()):
            src2 = self.expand_alias(e, env)
            if src2 != src:
                if src2 in env and env[src2].ty != "A":
                    return env[src2]
                if src2 in self.scalars:
                    return self.scalars[src2]
                e = ast.parse(src2, mode="eval").body
                src = src2
        if src in self.cfg.get("opaque", ()):
            return V("X", "_")
        if isinstance(e, ast.Constant):
            return self.lit(e.value, want)
        if isinstance(e, ast.Name):
            raise Untranslatable(f"unbound name {e.id}")
        if isinstance(e, ast.Subscript) and isinstance(e.value, ast.Attribute) and ast.unparse(e.value) in self.cfg.get("indexed", {}):
            self.ev(e.slice, env, "I")       # the index expression must itself be translatable
            return self.cfg["indexed"][ast.unparse(e.value)]
        if isinstance(e, ast.UnaryOp):
            if isinstance(e.op, ast.USub):
                if isinstance(e.operand, ast.Constant) and "lits" not in self.cfg:
                    return self.lit(-e.operand.value, want)
                a = self.num(self.ev(e.operand, env))
                return V("R", f"(-{a.s})")
            if isinstance(e.op, ast.Not):
                a = self.ev(e.operand, env)
                return V("B", f"(¬ {a.s})")
        if isinstance(e, ast.BinOp):
            op = {ast.Add: "+", ast.Sub: "-", ast.Mult: "*", ast.Div: "/"}.get(type(e.op))
            if op is None:
                raise Untranslatable(f"operator in {src}")
            a = b = None
            if self.cfg.get("natcast") and op == "*":
                # `2 * i` with the loop index: integer arithmetic, converted to float as a whole when it meets a float
                l_int = isinstance(e.left, ast.Constant) and isinstance(e.left.value, int) and not isinstance(e.left.value, bool)
                if l_int and e.left.value >= 0:
                    b = self.ev(e.right, env)
                    if b.ty == "N":
                        return V("N", f"({e.left.value} * {b.s})")
            a = self.ev(e.left, env)
            if b is None:
                b = self.ev(e.right, env)
            if self.cfg.get("natcast"):
                if a.ty == "N" and b.ty == "R":
                    a = V("R", f"(({a.s} : Nat) : α)")
                elif a.ty == "R" and b.ty == "N":
                    b = V("R", f"(({b.s} : Nat) : α)")
            if a.ty == "N" and b.ty == "N" and op == "+":
                return V("N", f"({a.s} + {b.s})")
            if a.ty == "N" and isinstance(e.right, ast.Constant) and op == "+":
                return V("N", f"({a.s} + {e.right.value})")
            return V("R", f"({self.num(a).s} {op} {self.num(b).s})")
        if isinstance(e, ast.Compare) and src in self.assume:
            return V("F", "true" if self.assume[src] else "false")
        if isinstance(e, ast.Compare) and len(e.ops) == 1:
            op = e.ops[0]
            l, r = e.left, e.comparators[0]
            if isinstance(op, (ast.Is, ast.IsNot)):
                raise Untranslatable(f"identity test {src} is not in the assumption table")
            a = self.ev(l, env)
            b = self.ev(r, env, want=a.ty if a.ty in "IN" else None)
            if a.ty in "IN" and b.ty == "R":
                a = self.ev(l, env, want=None)
            sym = {ast.Lt: "<", ast.LtE: "≤", ast.Gt: ">", ast.GtE: "≥", ast.Eq: "=", ast.NotEq: "≠"}.get(type(op))
            if sym is None or a.ty != b.ty or a.ty not in "RIN":
                raise Untranslatable(f"comparison {src} ({a.ty} vs {b.ty})")
            return V("B", f"({a.s} {sym} {b.s})")
        if isinstance(e, ast.BoolOp):
            vs = [self.ev(x, env) for x in e.values]
            is_or = isinstance(e.op, ast.Or)
            if any(v.ty == "F" and v.s == ("true" if is_or else "false") for v in vs):
                return V("F", "true" if is_or else "false")          # absorbing constant
            vs = [v for v in vs if not (v.ty == "F" and v.s in ("true", "false"))] or [V("F", "false" if is_or else "true")]
            if len(vs) == 1:
                return vs[0]
            vs = [V("B", f"({v.s} = true)") if v.ty == "F" else v for v in vs]
            if any(v.ty != "B" for v in vs):
                raise Untranslatable(f"boolean operands in {src}")
            sym = " ∨ " if isinstance(e.op, ast.Or) else " ∧ "
            return V("B", "(" + sym.join(v.s for v in vs) + ")")
        if isinstance(e, ast.Call):
            inl = self.inline_expr(e)
            if isinstance(inl, tuple):
                # a helper with several `return`s: run its body and read the returned value off every path
                t_ = self.run(inl[1], dict(env))
                tys = set()

                def leaves(t__):
                    if t__[0] == "done":
                        if "return" not in t__[1]:
                            raise Untranslatable(f"helper in `{src}` does not return a value on some path")
                        tys.add(t__[1]["return"].ty)
                    elif t__[0] == "if":
                        leaves(t__[2]); leaves(t__[3])
                    else:
                        raise Untranslatable(f"helper in `{src}` raises")
                leaves(t_)
                if len(tys) != 1:
                    raise Untranslatable(f"helper in `{src}` returns values of different kinds")
                return V(tys.pop(), tree_value(t_, "return", None, False))
            if inl is not None:
                return self.ev(inl, env, want)
        if isinstance(e, ast.Call):
            f = e.func
            if isinstance(f, ast.Name):
                if f.id == "pow" and len(e.args) == 2:
                    a = self.num(self.ev(e.args[0], env))
                    ex = e.args[1]
                    if isinstance(ex, ast.BinOp) and isinstance(ex.op, ast.Div) and isinstance(ex.left, ast.Constant) \
                            and ex.left.value == 1.0 and isinstance(ex.left.value, float):
                        n = self.ev(ex.right, env)
                        if n.ty == "N":
                            return V("R", f"(Fns.root {a.s} {n.s})")
                    n = self.ev(ex, env)
                    if n.ty == "N":
                        return V("R", f"(Fns.powN {a.s} {n.s})")
                    if n.ty == "R" and self.cfg.get("mathfns"):
                        return V("R", f"(MathFns.pow {a.s} {n.s})")
                    raise Untranslatable(f"exponent of {src}")
                if f.id == "bool" and len(e.args) == 1:
                    b_ = self.ev(e.args[0], env)
                    if b_.ty == "F":
                        return b_
                    if b_.ty == "B":
                        return V("F", f"(if {b_.s} then true else false)")
                if f.id == "abs" and len(e.args) == 1:
                    return V("R", f"(Fns.abs {self.num(self.ev(e.args[0], env)).s})")
                if f.id == "min" and len(e.args) == 2:
                    a, b = self.ev(e.args[0], env), self.ev(e.args[1], env)
                    if a.ty == b.ty == "R":      # Python: min(a, b) = b if b < a else a
                        return V("R", f"(if {b.s} < {a.s} then {b.s} else {a.s})")
                    if a.ty == "R" and b.ty == "OR":   # second argument may be +inf (none)
                        return V("R", f"(minOpt {a.s} {b.s})")
                    raise Untranslatable(f"min of {a} and {b}")
            fsrc = ast.unparse(f)
            if fsrc in ("np.double", "float") and len(e.args) == 1:
                return self.num(self.ev(e.args[0], env))
            if fsrc == "math.pi" and self.cfg.get("mathfns"):
                return V("R", "MathFns.pi")
            if fsrc in ("math.exp", "math.sin", "math.cos", "math.sqrt", "np.sqrt") and len(e.args) == 1 and self.cfg.get("mathfns"):
                return V("R", f"(MathFns.{fsrc.split('.')[1]} {self.num(self.ev(e.args[0], env)).s})")
            if isinstance(f, ast.Attribute):
                o = self.ev(f.value, env)
                if o.ty == "O":
                    if f.attr == "GetLeft" and not e.args:
                        return self.obj_left(o)
                    if f.attr in GETTERS and not e.args:
                        ty, fld = GETTERS[f.attr]
                        return V(ty, f"{o.s}.{fld}")
        if isinstance(e, ast.IfExp):
            c = self.ev(e.test, env)
            if c.ty == "F":
                c = V("B", f"({c.s} = true)")
            a, b = self.ev(e.body, env, want), self.ev(e.orelse, env, want)
            if c.ty == "B" and a.ty == b.ty:
                return V(a.ty, f"(if {c.s} then {a.s} else {b.s})")
            raise Untranslatable(f"conditional expression `{src}`")
        if isinstance(e, ast.Attribute) and src == "math.pi" and self.cfg.get("mathfns"):
            return V("R", "MathFns.pi")
        if isinstance(e, ast.Attribute):
            o = self.ev(e.value, env)
            if o.ty == "O" and e.attr in ATTRS:
                ty, fld = ATTRS[e.attr]
                return V(ty, f"{o.s}.{fld}")
        raise Untranslatable(f"expression `{src}`")

    # ---- private helper methods of the class under translation are inlined (a maintainer's "extract method" must not break the tie) ----
    INLINE_CLS = [None]

    def _helper(self, call):
        f = call.func
        cls = self.cfg.get("cls") or Exec.INLINE_CLS[0]
        if cls is None or not (isinstance(f, ast.Attribute) and isinstance(f.value, ast.Name) and f.value.id == "self"):
            return None
        fn = cls.__dict__.get(f.attr)
        if fn is None and f.attr.startswith("__") and not f.attr.endswith("__"):
            fn = cls.__dict__.get("_" + cls.__name__ + f.attr)
        if isinstance(fn, staticmethod):
            fn = fn.__func__
        if fn is None or not callable(fn) or call.keywords:
            return None
        depth = self.cfg.setdefault("_inline_depth", [0])
        if depth[0] > 6:
            raise Untranslatable(f"helper calls nested too deeply at `{ast.unparse(call)}`")
        fa = func_ast(fn)
        params = [a.arg for a in fa.args.args]
        if params and params[0] == "self":
            params = params[1:]
        if len(params) != len(call.args):
            return None
        sub = dict(zip(params, call.args))

        class S(ast.NodeTransformer):
            def visit_Name(self, node):
                if node.id in sub and isinstance(node.ctx, ast.Load):
                    return copy.deepcopy(sub[node.id])
                return node
        body = [S().visit(copy.deepcopy(b)) for b in _nodoc(fa.body)]
        assigned = {t_.id for b in body for n_ in ast.walk(b) if isinstance(n_, (ast.Assign, ast.AugAssign, ast.AnnAssign))
                    for t_ in ([n_.target] if not isinstance(n_, ast.Assign) else n_.targets) if isinstance(t_, ast.Name)}
        if assigned & set(params):
            raise Untranslatable(f"helper `{f.attr}` rebinds a parameter")
        return body

    def inline_expr(self, call):
        """the expression `self.helper(args)` when the helper's body is a single `return <expr>` (parameters substituted)"""
        body = self._helper(call)
        if body is None:
            return None
        if len(body) == 1 and isinstance(body[0], ast.Return) and body[0].value is not None:
            return ast.fix_missing_locations(body[0].value)
        return ("run", [ast.fix_missing_locations(b) for b in body])

    def inline_stmts(self, call):
        """the statement `self.helper(args)`: the helper's statements (parameters substituted; a trailing bare return dropped)"""
        body = self._helper(call)
        if body is None:
            return None
        if body and isinstance(body[-1], ast.Return) and (body[-1].value is None or ast.unparse(body[-1].value) == "None"):
            body = body[:-1]
        if any(isinstance(n_, ast.Return) for b in body for n_ in ast.walk(b)):
            return None
        return [ast.fix_missing_locations(b) for b in body]

    def expand_alias(self, e, env):
        """source text of `e` with every alias name (local bound to an array / row expression) replaced by what it stands for"""
        class A(ast.NodeTransformer):
            def visit_Name(self_, node):
                v_ = env.get(node.id)
                if v_ is not None and getattr(v_, "ty", None) == "A":
                    return ast.parse(v_.s, mode="eval").body
                return node
        return ast.unparse(A().visit(copy.deepcopy(e)))

    def obj_left(self, o):
        m = self.cfg.get("left_of", {})
        if o.s in m:
            return V("O", m[o.s])
        raise Untranslatable(f"left neighbour of {o.s} is not an input of this function")

    # ---- statements: returns a tree  ('raise', msg) | ('done', env) | ('if', cond, t1, t2) ----
    def run(self, stmts, env):
        if not stmts:
            return ("done", env)
        s, rest = stmts[0], stmts[1:]
        if isinstance(s, ast.Expr):
            if isinstance(s.value, ast.Constant):        # docstring
                return self.run(rest, env)
            if isinstance(s.value, ast.Call) and ast.unparse(s.value.func) == "print":
                return self.run(rest, env)
            key = ast.unparse(s.value)
            if key in self.cfg.get("ignore_calls", ()):
                return self.run(rest, env)
            if isinstance(s.value, ast.Call) and ast.unparse(s.value.func).split(".")[0] in ("logger", "logging", "log", "_logger", "LOGGER"):
                return self.run(rest, env)               # logging has no effect on the values
            if isinstance(s.value, ast.Call):
                inl = self.inline_stmts(s.value)
                if inl is not None:
                    return self.run(inl + rest, env)
            raise Untranslatable(f"statement `{key}`")
        if isinstance(s, ast.Raise):
            return ("raise", ast.unparse(s))
        if isinstance(s, ast.Return):
            env = dict(env)
            if s.value is not None and not (isinstance(s.value, ast.Constant) and s.value.value is None):
                env["return"] = self.ev(s.value, env)
            return ("done", env)
        if isinstance(s, ast.AnnAssign) and s.value is None:      # bare annotation `x: T`
            return self.run(rest, env)
        if isinstance(s, (ast.Assign, ast.AnnAssign)):
            tgt = s.targets[0] if isinstance(s, ast.Assign) else s.target
            if isinstance(s, ast.Assign) and len(s.targets) != 1:
                raise Untranslatable("chained assignment")
            if isinstance(s.value, ast.IfExp):
                # `t = a if c else b` is the statement `if c: t = a` / `else: t = b`
                mk = lambda v_: ast.fix_missing_locations(ast.Assign(targets=[tgt], value=v_, lineno=0, col_offset=0))
                branch = ast.If(test=s.value.test, body=[mk(s.value.body)], orelse=[mk(s.value.orelse)])
                return self.run([ast.fix_missing_locations(branch)] + rest, env)
            env = dict(env)
            key = self.target_key(tgt, env)
            try:
                env[key] = self.ev(s.value, env, want=self.cfg.get("types", {}).get(key))
            except Untranslatable:
                # a local NAME bound to an array / row / object expression without calls (`row = table[self.fn]`, `y = self.yValues`):
                # kept as an alias, expanded textually where it is indexed
                if isinstance(tgt, ast.Name) and not any(isinstance(n_, ast.Call) for n_ in ast.walk(s.value)):
                    env[key] = V("A", self.expand_alias(s.value, env))
                else:
                    raise
            return self.run(rest, env)
        if isinstance(s, ast.AugAssign):
            env = dict(env)
            key = self.target_key(s.target, env)
            cur = self.ev(s.target, env)
            new = ast.BinOp(left=s.target, op=s.op, right=s.value)
            env[key] = self.ev(ast.fix_missing_locations(new), env)
            return self.run(rest, env)
        if isinstance(s, ast.If):
            csrc = ast.unparse(s.test)
            if csrc in self.assume:
                if csrc in self.dropped:
                    # a branch that cannot be taken over an ordered field is dropped from the translation - but only in the recorded
                    # shape: what it DOES in floating point is part of the code the properties are claimed for
                    gone = s.orelse if self.assume[csrc] else s.body
                    txt = "; ".join(ast.unparse(g_) for g_ in gone)
                    if txt != self.dropped[csrc]:
                        raise Untranslatable(f"the branch guarded by `{csrc}` is `{txt}`, expected `{self.dropped[csrc]}`")
                return self.run((s.body if self.assume[csrc] else s.orelse) + rest, env)
            if isinstance(s.test, ast.Call):
                inl = self.inline_expr(s.test)
                if isinstance(inl, tuple):
                    # a predicate helper with several `return True / False`: continue with the right branch under each of ITS paths
                    def graft(t__):
                        if t__[0] == "if":
                            return ("if", t__[1], graft(t__[2]), graft(t__[3]))
                        if t__[0] == "done" and "return" in t__[1] and t__[1]["return"].ty == "F" and t__[1]["return"].s in ("true", "false"):
                            return self.run((s.body if t__[1]["return"].s == "true" else s.orelse) + rest, env)
                        raise Untranslatable(f"predicate helper `{csrc}` does not return a constant on some path")
                    return graft(self.run(inl[1], dict(env)))
            c = self.ev(s.test, env)
            if c.ty == "F":
                c = V("B", f"({c.s} = true)")
            if c.ty != "B":
                raise Untranslatable(f"condition `{csrc}`")
            return ("if", c.s, self.run(s.body + rest, env), self.run(s.orelse + rest, env))
        raise Untranslatable(f"statement `{ast.unparse(s)[:60]}`")

    def target_key(self, tgt, env):
        if isinstance(tgt, ast.Name):
            return tgt.id
        if any(getattr(v_, "ty", None) == "A" for v_ in env.values()):
            tgt = ast.parse(self.expand_alias(tgt, env), mode="eval").body
        if isinstance(tgt, ast.Subscript) and ast.unparse(tgt.value) in self.cfg.get("indexed", {}):
            return ast.unparse(tgt.value) + "[*]"
        if isinstance(tgt, ast.Subscript):
            return ast.unparse(tgt)
        if isinstance(tgt, ast.Attribute):
            o = None
            try:
                o = self.ev(tgt.value, env)
            except Untranslatable:
                pass
            if o is not None and o.ty == "O":
                return f"{o.s}.{tgt.attr}"
            return ast.unparse(tgt)
        raise Untranslatable(f"assignment target `{ast.unparse(tgt)}`")


def tree_value(t, key, default, opt):
    """Lean term for the final value of `key`; `opt`: wrap in Option (none = raise)"""
    if t[0] == "raise":
        if not opt:
            raise Untranslatable("a raising path reaches a non-optional output")
        return "none"
    if t[0] == "done":
        v = t[1].get(key)
        s = v.s if v is not None else default
        if s is None:
            raise Untranslatable(f"output {key} is not assigned on some path")
        return f"(some {s})" if opt else s
    a, b = tree_value(t[2], key, default, opt), tree_value(t[3], key, default, opt)
    if a == b:
        return a
    # normal form: `if c1 then A else (if c2 then A else B)` is written `if c1 ∨ c2 then A else B` (an `elif` with the same outcome and
    # a merged `or` condition translate alike)
    if t[3][0] == "if":
        a2, b2 = tree_value(t[3][2], key, default, opt), tree_value(t[3][3], key, default, opt)
        if a2 == a and a2 != b2:
            return f"(if ({t[1]} ∨ {t[3][1]}) then {a} else {b2})"
    return f"(if {t[1]} then {a} else {b})"


def func_ast(fn):
    src = textwrap.dedent(inspect.getsource(fn))
    mod = ast.parse(src)
    return mod.body[0]


PT = """/-- what the arithmetic of `Method` reads from a `SearchDataItem` -/
structure Pt (α : Type) where
  x : α
  z : α
  /-- `GetIndex()`: 0 for an evaluated trial, -2 for the end points -/
  idx : Int
  delta : α
"""


def generate(method_cls):
    """returns the text of IOptGen/MethodSrc.lean"""
    Exec.INLINE_CLS[0] = method_cls
    R = lambda s: V("R", s)
    out = []
    errors = []

    def emit(name, sig, ret, body, doc):
        out.append(f"/-- {doc} -/\ndef {name} {sig} : {ret} :=\n  {body}\n")

    def attempt(name, sig, ret, doc, thunk):
        try:
            emit(name, sig, ret, thunk(), doc)
        except Untranslatable as e:
            errors.append(f"{name}: {e}")
            out.append(f"/-- UNTRANSLATABLE: {str(e).replace('-/', '- /')} -/\ndef {name} : Untranslatable := ⟨⟩\n")

    # --- CalculateDelta
    def t_delta():
        ex = Exec({"scalars": {}})
        t = ex.run(func_ast(method_cls.CalculateDelta).body, {"lx": R("lx"), "rx": R("rx"), "dimension": V("N", "dimension")})
        return tree_value(t, "return", None, False)
    attempt("calculateDelta", "(lx rx : α) (dimension : Nat)", "α", "`Method.CalculateDelta`", t_delta)

    # --- CalculateGlobalR (left_point is not None)
    def t_globalR():
        ex = Exec({"scalars": {"self.parameters.r": R("r")},
                   "indexed": {"self.M": R("M"), "self.Z": R("Z")},
                   # `globalR != globalR` is the NaN guard of the repair F11: never true over an ordered field (the theorems'
                   # setting); the Float driver and the implementation are compared on overflow-free runs
                   "assume": {"curr_point is None": False, "left_point is None": False, "globalR != globalR": False},
                   "dropped_body": {"globalR != globalR": "globalR = -np.inf"}})
        t = ex.run(func_ast(method_cls.CalculateGlobalR).body, {"curr_point": V("O", "cur"), "left_point": V("O", "left")})
        return tree_value(t, "cur.globalR", None, False)
    attempt("calculateGlobalR", "(left cur : Pt α) (r M Z : α)", "α",
            "`Method.CalculateGlobalR(curr_point, left_point)` for `left_point is not None`: the value stored in `curr_point.globalR`", t_globalR)

    # --- CalculateM: new M and recalc flag
    def cfgM():
        return Exec({"indexed": {"self.M": R("M")}, "scalars": {"self.recalc": V("F", "recalc")},
                     "assume": {"curr_point is None": False, "left_point is None": False}})

    def t_M(key, default):
        def f():
            t = cfgM().run(func_ast(method_cls.CalculateM).body, {"curr_point": V("O", "cur"), "left_point": V("O", "left")})
            return tree_value(t, key, default, False)
        return f
    attempt("calculateM_M", "(left cur : Pt α) (M : α)", "α", "`Method.CalculateM`: `self.M[index]` afterwards", t_M("self.M[*]", "M"))
    attempt("calculateM_recalc", "(left cur : Pt α) (M : α) (recalc : Bool)", "Bool", "`Method.CalculateM`: `self.recalc` afterwards",
            t_M("self.recalc", "recalc"))

    # --- CalculateNextPointCoordinate: the returned x, none = raise
    def t_next():
        ex = Exec({"scalars": {"self.parameters.r": R("r"), "self.task.problem.numberOfFloatVariables": V("N", "n")},
                   "indexed": {"self.M": R("M")}, "left_of": {"cur": "left"},
                   "assume": {"left is None": False}})
        t = ex.run(func_ast(method_cls.CalculateNextPointCoordinate).body, {"point": V("O", "cur")})
        return tree_value(t, "return", None, True)
    attempt("calculateNextPointCoordinate", "(left cur : Pt α) (r M : α) (n : Nat)", "Option α",
            "`Method.CalculateNextPointCoordinate(point)` with `left = point.GetLeft()` not None; `none` = the function raises", t_next)

    # --- CheckStopCondition
    def t_stop():
        ex = Exec({"scalars": {"self.min_delta": R("minDelta"), "self.parameters.eps": R("eps"),
                               "self.iterationsCount": V("N", "iterationsCount"), "self.parameters.itersLimit": V("N", "itersLimit")}})
        t = ex.run(func_ast(method_cls.CheckStopCondition).body, {})
        return tree_value(t, "self.stop", None, False)
    attempt("checkStopCondition", "(minDelta eps : α) (iterationsCount itersLimit : Nat)", "Bool",
            "`Method.CheckStopCondition` for a finite `min_delta` (the value it stores in `self.stop` and returns)", t_stop)

    # --- UpdateOptimum: does the new point become the best one (best is not None, both evaluated => same index)
    def t_upd():
        ex = Exec({"scalars": {"self.best": V("O", "best"), "self.recalc": V("F", "recalc")}, "indexed": {"self.Z": R("Z")},
                   "assume": {"self.best is None": False}, "types": {}})
        body = func_ast(method_cls.UpdateOptimum).body
        # `self.best is None or ...`: the first disjunct is assumed false
        class T(ast.NodeTransformer):
            def visit_BoolOp(self, node):
                self.generic_visit(node)
                if isinstance(node.op, ast.Or):
                    vals = [v for v in node.values if ast.unparse(v) != "self.best is None"]
                    if len(vals) == 1:
                        return vals[0]
                    node.values = vals
                return node
        body = [T().visit(s) for s in body]
        ex.cfg["ignore_calls"] = ()
        # the last statement stores self.best into the solution: model it as an output
        body2 = []
        for s in body:
            if isinstance(s, ast.Assign) and ast.unparse(s.targets[0]) == "self.searchData.solution.bestTrials[0]":
                continue
            body2.append(s)
        t = ex.run(body2, {"point": V("O", "point")})
        z = tree_value(t, "self.Z[*]", "Z", False)
        # which object is best afterwards: encode as a Prop "the new point is taken"
        def taken(t):
            if t[0] == "done":
                v = t[1].get("self.best")
                return "true" if (v is not None and v.s == "point") else "false"
            if t[0] == "raise":
                raise Untranslatable("UpdateOptimum raises")
            a, b = taken(t[2]), taken(t[3])
            return a if a == b else f"(if {t[1]} then {a} else {b})"
        return z, taken(t), tree_value(t, "self.recalc", "recalc", False)
    parts = {}

    def part(i):
        def f():
            if "v" not in parts:
                parts["v"] = t_upd()
            return parts["v"][i]
        return f
    attempt("updateOptimum_Z", "(best point : Pt α) (Z : α)", "α", "`Method.UpdateOptimum` (`self.best` not None): `self.Z[index]` afterwards", part(0))
    attempt("updateOptimum_taken", "(best point : Pt α)", "Bool", "`Method.UpdateOptimum`: the new point becomes `self.best`", part(1))
    attempt("updateOptimum_recalc", "(best point : Pt α) (recalc : Bool)", "Bool", "`Method.UpdateOptimum`: `self.recalc` afterwards", part(2))

    # --- CalculateIterationPoint: the min_delta update
    def t_mindelta():
        fa = func_ast(method_cls.CalculateIterationPoint)
        for s in fa.body:
            if isinstance(s, ast.Assign) and ast.unparse(s.targets[0]) == "self.min_delta":
                ex = Exec({"scalars": {"self.min_delta": V("OR", "minDelta")}})
                v = ex.ev(s.value, {"old": V("O", "old")})
                return v.s
        raise Untranslatable("no assignment to self.min_delta in CalculateIterationPoint")
    attempt("iterationPoint_minDelta", "(old : Pt α) (minDelta : Option α)", "α",
            "`Method.CalculateIterationPoint`: the new `min_delta` (`none` = `inf`)", t_mindelta)

    head = ("-- GENERATED by harness/src2lean.py from the SOURCE TEXT of iOpt/method/method.py under /repo; do not edit.\n"
            "import IOptModel.Arith\n"
            "/-!\nSymbolic translation of the arithmetic and decision core of `Method` (see harness/src2lean.py).\n"
            "Tie theorems: `IOptProofs/SrcTie.lean`.\n-/\n"
            "namespace Gen.Src\n"
            "/-- marker type of a function the translator could not follow -/\nstructure Untranslatable where\n\n"
            "section\nvariable {α : Type} [Add α] [Sub α] [Mul α] [Div α] [Neg α] [LT α] [LE α]\n"
            "  [DecidableLT α] [DecidableLE α] [OfNat α 0] [OfNat α 1] [OfNat α 2] [OfNat α 4] [Fns α]\n\n"
            "/-- the literal `0.5` -/\ndef half : α := 1 / 2\n\n"
            "/-- Python `min(a, b)` where `b` may be `inf` -/\n"
            "def minOpt (a : α) : Option α → α\n  | none => a\n  | some b => if b < a then b else a\n\n" + PT + "\n")
    tail = "end\nend Gen.Src\n"
    return head + "\n".join(out) + tail, errors


S3_HEAD = ("-- GENERATED by harness/src2lean.py from the SOURCE TEXT of iOpt/problems/stronginC3.py under /repo; do not edit.\n"
           "import IOptModel.Arith\n"
           "/-!\nSymbolic translation of `StronginC3.Calculate` (objective and the three constraints).  Float literals of the\n"
           "source are the arguments `lit k` (k-th literal of the function in source order); their IEEE bit patterns are in\n"
           "`*Lits`.  This file IS the model of StronginC3: the driver executes it at `Float`, the theorems instantiate it over `ℝ`.\n-/\n"
           "namespace Gen.S3\n"
           "section\nvariable {α : Type} [Add α] [Sub α] [Mul α] [Div α] [Neg α] [LT α] [LE α]\n"
           "  [DecidableLT α] [DecidableLE α] [OfNat α 0] [OfNat α 1] [OfNat α 2] [OfNat α 4] [MathFns α]\n\n")


def generate_s3(cls):
    """text of IOptGen/StronginC3Src.lean; on an untranslatable source the functions are constant 0 and `translated = false`"""
    Exec.INLINE_CLS[0] = cls
    import struct
    fa = func_ast(cls.Calculate)
    OBJ = "functionValue.type == FunctionType.OBJECTIV"
    cases = [("objective", {OBJ: True}),
             ("constraint0", {OBJ: False, "functionValue.functionID == 0": True}),
             ("constraint1", {OBJ: False, "functionValue.functionID == 0": False, "functionValue.functionID == 1": True}),
             ("constraint2", {OBJ: False, "functionValue.functionID == 0": False, "functionValue.functionID == 1": False,
                              "functionValue.functionID == 2": True})]
    out, errors, ok = [], [], True
    for name, assume in cases:
        lits = []
        try:
            ex = Exec({"scalars": {"point.floatVariables[0]": V("R", "x1"), "point.floatVariables[1]": V("R", "x2")},
                       "assume": assume, "lits": lits, "mathfns": True})
            t = ex.run(fa.body, {"functionValue": V("X", "fv"), "point": V("X", "pt")})
            body = tree_value(t, "functionValue.value", None, False)
            bits = [struct.unpack("<Q", struct.pack("<d", v))[0] for v in lits]
            out.append(f"/-- `StronginC3.Calculate`, case {name}: bit patterns of its float literals {lits} -/\n"
                       f"def {name}Lits : List Nat := {bits}\n\n"
                       f"/-- `StronginC3.Calculate`, case {name} -/\ndef {name} (lit : Nat → α) (x1 x2 : α) : α :=\n  {body}\n")
        except Untranslatable as e:
            ok = False
            errors.append(f"{name}: {e}")
            out.append(f"/-- UNTRANSLATABLE: {str(e).replace('-/', '- /')} -/\ndef {name}Lits : List Nat := []\n\n"
                       f"def {name} (lit : Nat → α) (x1 x2 : α) : α := 0\n")
    out.append(f"/-- the translator could follow all four cases of the source -/\ndef translated : Bool := {'true' if ok else 'false'}\n")
    return S3_HEAD + "\n".join(out) + "end\nend Gen.S3\n", errors


EV_HEAD = ("-- GENERATED by harness/src2lean.py from the SOURCE TEXT of iOpt/evolvent/evolvent.py under /repo; do not edit.\n"
           "import IOptModel.Arith\n"
           "/-!\nSymbolic translation of the floating-point formulas of `Evolvent`: the affine maps cube <-> box (per coordinate),\n"
           "the one-dimensional special cases and the end rule of `__GetYonX`.  Tie theorems: `IOptProofs/SrcTieEv.lean`.\n-/\n"
           "namespace Gen.EvSrc\n"
           "/-- marker type of a function the translator could not follow -/\nstructure Untranslatable where\n\n"
           "section\nvariable {α : Type} [Add α] [Sub α] [Mul α] [Div α] [Neg α] [LT α] [LE α]\n"
           "  [DecidableLT α] [DecidableLE α] [OfNat α 0] [OfNat α 1] [OfNat α 2] [OfNat α 4]\n\n"
           "/-- the literal `0.5` -/\ndef half : α := 1 / 2\n\n")


def generate_evolvent(cls):
    Exec.INLINE_CLS[0] = cls
    R = lambda s_: V("R", s_)
    out, errors = [], []

    def attempt(name, sig, ret, doc, thunk):
        try:
            out.append(f"/-- {doc} -/\ndef {name} {sig} : {ret} :=\n  {thunk()}\n")
        except Untranslatable as e:
            errors.append(f"{name}: {e}")
            out.append(f"/-- UNTRANSLATABLE: {str(e).replace('-/', '- /')} -/\ndef {name} : Untranslatable := ⟨⟩\n")

    def loop_body(fn_name):
        fa = func_ast(cls.__dict__[fn_name])
        pre, lp, post = _split_loop(fa.body, fn_name)
        if post:
            raise Untranslatable(f"{fn_name}: statements after the loop")
        if ast.unparse(lp.iter) not in ("range(0, self.numberOfFloatVariables)", "range(self.numberOfFloatVariables)"):
            raise Untranslatable(f"{fn_name}: loop header `{ast.unparse(lp.iter)}`")
        i = lp.target.id
        ex = Exec({"scalars": {f"self.yValues[{i}]": R("y"), f"self.upperBoundOfFloatVariables[{i}]": R("upper"),
                               f"self.lowerBoundOfFloatVariables[{i}]": R("lower")}})
        env0 = _env_of(ex.run(pre, {}), fn_name)          # locals bound to the arrays before the loop (aliases)
        if any(v_.ty != "A" for v_ in env0.values()):
            raise Untranslatable(f"{fn_name}: statements before the loop")
        t = ex.run(lp.body, env0)
        return tree_value(t, f"self.yValues[{i}]", None, False)
    attempt("transformP2D_coord", "(y lower upper : α)", "α", "`Evolvent.__TransformP2D`: the new `yValues[i]`",
            lambda: loop_body("_Evolvent__TransformP2D"))
    attempt("transformD2P_coord", "(y lower upper : α)", "α", "`Evolvent.__TransformD2P`: the new `yValues[i]`",
            lambda: loop_body("_Evolvent__TransformD2P"))

    def dim1(fn_name, scal, key):
        def f():
            fa = func_ast(cls.__dict__[fn_name])
            first = [s_ for s_ in fa.body if isinstance(s_, ast.If)][:1]
            if not first or ast.unparse(first[0].test) != "self.numberOfFloatVariables == 1":
                raise Untranslatable(f"{fn_name}: the one-dimensional special case is not the first branch")
            ex = Exec({"scalars": dict(scal, **{"self.yValues": V("X", "yv")}), "assume": {"self.numberOfFloatVariables == 1": True}})
            t = ex.run(first, {})
            return tree_value(t, key, None, False)
        return f
    attempt("getYonX_dim1", "(x : α)", "α", "`Evolvent.__GetYonX` for N = 1: `yValues[0]`",
            dim1("_Evolvent__GetYonX", {"_x": R("x")}, "self.yValues[0]"))
    attempt("getXonY_dim1", "(y0 : α)", "α", "`Evolvent.__GetXonY` for N = 1: the returned x",
            dim1("_Evolvent__GetXonY", {"self.yValues[0]": R("y0")}, "return"))

    def end_rule():
        fa = func_ast(cls.__dict__["_Evolvent__GetYonX"])
        loops = [s_ for s_ in fa.body if isinstance(s_, ast.For)]
        if len(loops) != 1:
            raise Untranslatable("__GetYonX: expected one level loop")
        ifs = [s_ for s_ in loops[0].body if isinstance(s_, ast.If)]
        if not ifs or not ifs[0].body or "nexpExtended - 1" not in ast.unparse(ifs[0].body[0]):
            raise Untranslatable("__GetYonX: the end rule is not the first branch of the level loop")
        ex = Exec({"scalars": {"_x": R("x")}})
        c = ex.ev(ifs[0].test, {})
        if c.ty != "B":
            raise Untranslatable("end rule condition")
        return f"decide {c.s}"
    attempt("endRule", "(x : α)", "Bool", "`Evolvent.__GetYonX`: the condition under which every level takes the LAST digit", end_rule)
    return EV_HEAD + "\n".join(out) + "end\nend Gen.EvSrc\n", errors


# ================================================================================================================
# benchmark problems: the loop bodies and closing formulas of the `Calculate` methods
# ================================================================================================================
PROB_HEAD = ("-- GENERATED by harness/src2lean.py from the SOURCE TEXT of iOpt/problems/*.py under /repo; do not edit.\n"
             "import IOptModel.Arith\n"
             "/-!\nSymbolic translation of the `Calculate` methods of the benchmark families: for every accumulation loop the initial value\n"
             "and the loop body (new accumulator as a function of the old one and of the array entries the iteration reads), the loop\n"
             "headers as found in the source, and the closing formulas.  Tie theorems: `IOptProofs/SrcTieProb.lean`.\n-/\n"
             "namespace Gen.PSrc\n"
             "/-- marker type of a function the translator could not follow -/\nstructure Untranslatable where\n\n"
             "section\nvariable {α : Type} [Add α] [Sub α] [Mul α] [Div α] [Neg α] [LT α] [LE α]\n"
             "  [DecidableLT α] [DecidableLE α] [OfNat α 0] [OfNat α 1] [OfNat α 2] [OfNat α 4] [NatCast α] [MathFns α]\n\n")


def _nodoc(stmts):
    return [s_ for s_ in stmts if not (isinstance(s_, ast.Expr) and isinstance(s_.value, ast.Constant))]


def _split_loop(stmts, what):
    """(statements before, the single `for` node, statements after)"""
    stmts = _nodoc(stmts)
    idx = [k for k, s_ in enumerate(stmts) if isinstance(s_, ast.For)]
    if len(idx) != 1:
        raise Untranslatable(f"{what}: expected exactly one for-loop at this level, found {len(idx)}")
    lp = stmts[idx[0]]
    if not isinstance(lp.target, ast.Name) or lp.orelse:
        raise Untranslatable(f"{what}: loop target / else clause")
    return stmts[:idx[0]], lp, stmts[idx[0] + 1:]


def _env_of(t, what):
    if t[0] != "done":
        raise Untranslatable(f"{what}: branching or raising where straight-line code was expected")
    return t[1]


def _header(lp, expected, what):
    got = ast.unparse(lp.iter)
    if got != expected:
        raise Untranslatable(f"{what}: loop header `{got}` (the model iterates `{expected}`)")
    return lp.target.id


def _closing(ex, post, acc, what):
    """the statements after the loop must be `functionValue.value = <acc>; return functionValue`"""
    env = _env_of(ex.run(post, {acc: V("R", "ACC"), "functionValue": V("X", "fv")}), what)
    if getattr(env.get("functionValue.value"), "s", None) != "ACC" or getattr(env.get("return"), "s", None) != "fv":
        raise Untranslatable(f"{what}: the value stored / returned after the loop is not the accumulator in the supplied holder")


def generate_problems(mods):
    """mods: dict name -> class (Rastrigin, XSquared, Hill, Shekel, Shekel4, GrishaginFunction, GKLSFunction)"""
    Exec.INLINE_CLS[0] = None
    R = lambda s_: V("R", s_)
    out, errors = [], []

    def emit_all(names_sigs, thunk):
        """thunk returns {name: body}; on failure every name becomes an Untranslatable marker"""
        try:
            bodies = thunk()
            for name, sig, doc in names_sigs:
                out.append(f"/-- {doc} -/\ndef {name} {sig} :=\n  {bodies[name]}\n")
        except Untranslatable as e:
            errors.append(f"{names_sigs[0][0]}: {e}")
            for name, sig, doc in names_sigs:
                out.append(f"/-- UNTRANSLATABLE: {str(e).replace('-/', '- /')} -/\ndef {name} : Untranslatable := ⟨⟩\n")

    # ---- one accumulator, one loop: Rastrigin, XSquared, Hill, Shekel ----
    def simple(cls, header, scal_of_i, acc_expected, prefix):
        def f():
            fa = func_ast(cls.Calculate)
            pre, lp, post = _split_loop(fa.body, prefix)
            i = _header(lp, header, prefix)
            ex = Exec({"natcast": True, "mathfns": True, "scalars": scal_of_i(i)})
            env0 = _env_of(ex.run(pre, {}), prefix)
            assigned = {t_.id for n_ in ast.walk(lp) if isinstance(n_, (ast.Assign, ast.AugAssign, ast.AnnAssign))
                        for t_ in (n_.targets if isinstance(n_, ast.Assign) else [n_.target]) if isinstance(t_, ast.Name)}
            accs = [k for k, v in env0.items() if v.ty == "R" and k in assigned]
            if len(accs) != 1:
                raise Untranslatable(f"{prefix}: accumulators of the loop {accs}")
            acc = accs[0]
            env1 = _env_of(ex.run(lp.body, dict(env0, **{acc: R("acc"), i: V("N", "i")})), prefix)
            extra = [k for k in env1 if k not in env0 and k != i and not k.isidentifier()]
            if extra:
                raise Untranslatable(f"{prefix}: the loop body assigns {extra}")
            _closing(ex, post, acc, prefix)
            return {prefix + "Init": env0[acc].s, prefix + "Step": env1[acc].s}
        return f
    emit_all([("rastriginInit", ": α", "`Rastrigin.Calculate`: the accumulator before the loop `for i in range(self.dimension)`"),
              ("rastriginStep", "(acc xi : α) : α", "`Rastrigin.Calculate`: the loop body, `xi = point.floatVariables[i]`")],
             simple(mods["Rastrigin"], "range(self.dimension)", lambda i: {f"point.floatVariables[{i}]": R("xi")}, "sum", "rastrigin"))
    emit_all([("xsquaredInit", ": α", "`XSquared.Calculate`: the accumulator before the loop `for i in range(self.dimension)`"),
              ("xsquaredStep", "(acc xi : α) : α", "`XSquared.Calculate`: the loop body")],
             simple(mods["XSquared"], "range(self.dimension)", lambda i: {f"point.floatVariables[{i}]": R("xi")}, "sum", "xsquared"))
    emit_all([("hillInit", ": α", "`Hill.Calculate`: the accumulator before the loop `for i in range(hillGen.NUM_HILL_COEFF)`"),
              ("hillStep", "(acc ai bi x : α) (i : Nat) : α",
               "`Hill.Calculate`: the loop body, `ai = hillGen.aHill[self.fn][i]`, `bi = hillGen.bHill[self.fn][i]`, `x = point.floatVariables[0]`")],
             simple(mods["Hill"], "range(hillGen.NUM_HILL_COEFF)",
                    lambda i: {f"hillGen.aHill[self.fn][{i}]": R("ai"), f"hillGen.bHill[self.fn][{i}]": R("bi"),
                               "point.floatVariables[0]": R("x")}, "res", "hill"))
    emit_all([("shekelInit", ": α", "`Shekel.Calculate`: the accumulator before the loop `for i in range(shekelGen.NUM_SHEKEL_COEFF)`"),
              ("shekelStep", "(acc ki ai ci x : α) : α",
               "`Shekel.Calculate`: the loop body, `ki/ai/ci = shekelGen.kShekel/aShekel/cShekel[self.fn][i]`, `x = point.floatVariables[0]`")],
             simple(mods["Shekel"], "range(shekelGen.NUM_SHEKEL_COEFF)",
                    lambda i: {f"shekelGen.kShekel[self.fn][{i}]": R("ki"), f"shekelGen.aShekel[self.fn][{i}]": R("ai"),
                               f"shekelGen.cShekel[self.fn][{i}]": R("ci"), "point.floatVariables[0]": R("x")}, "res", "shekel"))

    # ---- Shekel4: a loop over the rows with an inner loop over the coordinates ----
    def shekel4():
        fa = func_ast(mods["Shekel4"].Calculate)
        pre, lp, post = _split_loop(fa.body, "shekel4")
        i = _header(lp, "range(shekelGen.maxI[self.fn - 1])", "shekel4")
        ipre, ilp, ipost = _split_loop(lp.body, "shekel4 inner")
        j = _header(ilp, "range(self.dimension)", "shekel4 inner")
        ex = Exec({"natcast": True, "mathfns": True,
                   "scalars": {f"point.floatVariables[{j}]": R("xj"), f"shekelGen.a[{i}][{j}]": R("aij"), f"shekelGen.c[{i}]": R("ci")}})
        env0 = _env_of(ex.run(pre, {}), "shekel4")
        if [k for k, v in env0.items() if v.ty == "R"] != ["res"]:
            raise Untranslatable("shekel4: accumulators before the outer loop")
        e1 = _env_of(ex.run(ipre, {"res": R("acc")}), "shekel4")
        if [k for k in e1 if k != "res"] != ["den"]:
            raise Untranslatable("shekel4: statements before the inner loop")
        e2 = _env_of(ex.run(ilp.body, {"den": R("den")}), "shekel4 inner")
        if list(e2) != ["den"]:
            raise Untranslatable("shekel4: the inner loop assigns " + str(list(e2)))
        e3 = _env_of(ex.run(ipost, {"res": R("acc"), "den": R("den")}), "shekel4")
        if [k for k in e3 if e3[k].s != {"res": "acc", "den": "den"}.get(k)] != ["res"]:
            raise Untranslatable("shekel4: statements after the inner loop")
        _closing(ex, post, "res", "shekel4")
        return {"shekel4Init": env0["res"].s, "shekel4DenInit": e1["den"].s, "shekel4DenStep": e2["den"].s, "shekel4Step": e3["res"].s}
    emit_all([("shekel4Init", ": α", "`Shekel4.Calculate`: `res` before the loop `for i in range(shekelGen.maxI[self.fn - 1])`"),
              ("shekel4DenInit", ": α", "`Shekel4.Calculate`: `den` before the inner loop `for j in range(self.dimension)`"),
              ("shekel4DenStep", "(den xj aij : α) : α", "`Shekel4.Calculate`: the inner loop body, `xj = point.floatVariables[j]`, `aij = shekelGen.a[i][j]`"),
              ("shekel4Step", "(acc den ci : α) : α", "`Shekel4.Calculate`: the statement after the inner loop, `ci = shekelGen.c[i]`")], shekel4)

    # ---- Grishagin ----
    def grish():
        fa = func_ast(mods["GrishaginFunction"].Calculate)
        stmts = _nodoc(fa.body)
        loops = [k for k, s_ in enumerate(stmts) if isinstance(s_, ast.For)]
        if len(loops) != 2:
            raise Untranslatable("grishagin: expected the recurrence loop and the double accumulation loop")
        pre, rec, mid, accl, post = stmts[:loops[0]], stmts[loops[0]], stmts[loops[0] + 1:loops[1]], stmts[loops[1]], stmts[loops[1] + 1:]
        opaque = {ast.unparse(s_.value) for s_ in pre if isinstance(s_, ast.Assign) and isinstance(s_.value, ast.Call)
                  and ast.unparse(s_.value.func) == "np.ndarray"}
        ex = Exec({"natcast": True, "mathfns": True, "opaque": opaque, "scalars": {"x[0]": R("x0"), "x[1]": R("x1")}})
        e0 = _env_of(ex.run(pre, {}), "grishagin")
        need = ["snx[0]", "csx[0]", "sny[0]", "csy[0]", "sx1", "cx1", "sy1", "cy1"]
        if any(k not in e0 or e0[k].ty != "R" for k in need):
            raise Untranslatable("grishagin: the first sines/cosines are not assigned as expected")
        if e0["sny[0]"].s != e0["snx[0]"].s.replace("x0", "x1") or e0["csy[0]"].s != e0["csx[0]"].s.replace("x0", "x1") \
                or e0["sx1"].s != e0["snx[0]"].s or e0["cx1"].s != e0["csx[0]"].s or e0["sy1"].s != e0["sny[0]"].s or e0["cy1"].s != e0["csy[0]"].s:
            raise Untranslatable("grishagin: the two coordinates are not treated alike")
        i = _header(rec, "range(0, 6)", "grishagin recurrence")
        exr = Exec({"natcast": True, "mathfns": True,
                    "scalars": {f"snx[{i}]": R("s"), f"csx[{i}]": R("c"), f"sny[{i}]": R("S_"), f"csy[{i}]": R("C_")}})
        er = _env_of(exr.run(rec.body, {"cx1": R("c1"), "sx1": R("s1"), "cy1": R("C1_"), "sy1": R("S1_")}), "grishagin recurrence")
        yx = lambda t_: t_.replace("S1_", "s1").replace("C1_", "c1").replace("S_", "s").replace("C_", "c")
        kx = [f"snx[{i} + 1]", f"csx[{i} + 1]", f"sny[{i} + 1]", f"csy[{i} + 1]"]
        if sorted(k for k in er if k not in ("cx1", "sx1", "cy1", "sy1")) != sorted(kx):
            raise Untranslatable("grishagin: the recurrence loop assigns " + str(list(er)))
        if er[kx[0]].s != yx(er[kx[2]].s) or er[kx[1]].s != yx(er[kx[3]].s) or "_" in er[kx[0]].s + er[kx[1]].s:
            raise Untranslatable("grishagin: the recurrences of the two coordinates differ")
        em_all = _env_of(ex.run(mid, {}), "grishagin")
        al = {k_: v_ for k_, v_ in em_all.items() if v_.ty == "A"}          # locals bound to the coefficient matrices
        al.update({k_: v_ for k_, v_ in e0.items() if v_.ty == "A"})
        em = {k_: v_ for k_, v_ in em_all.items() if v_.ty != "A"}
        if len(em) != 2 or any(v_.ty != "R" for v_ in em.values()):
            raise Untranslatable("grishagin: statements between the loops")
        D1, D2 = list(em)           # the two accumulators, in the order in which the source initialises them
        io = _header(accl, "range(0, 7)", "grishagin accumulation")
        body = _nodoc(accl.body)
        if len(body) != 1 or not isinstance(body[0], ast.For):
            raise Untranslatable("grishagin: the accumulation is not a double loop")
        jo = _header(body[0], "range(0, 7)", "grishagin accumulation (inner)")
        exa = Exec({"natcast": True, "mathfns": True,
                    "scalars": {f"self.af[{io}][{jo}]": R("a"), f"self.bf[{io}][{jo}]": R("b"), f"self.cf[{io}][{jo}]": R("c"),
                                f"self.df[{io}][{jo}]": R("d"), f"snx[{io}]": R("sxi"), f"csx[{io}]": R("cxi"),
                                f"sny[{jo}]": R("syj"), f"csy[{jo}]": R("cyj")}})
        ea = _env_of(exa.run(body[0].body, dict(al, **{D1: R("d1"), D2: R("d2")})), "grishagin accumulation")
        if sorted(k_ for k_ in ea if k_ not in al) != sorted([D1, D2]):
            raise Untranslatable("grishagin: the accumulation loop assigns " + str(list(ea)))
        ef = _env_of(ex.run(post, {D1: R("d1"), D2: R("d2")}), "grishagin")
        if "return" not in ef:
            raise Untranslatable("grishagin: no returned value")
        return {"grishSin1": e0["snx[0]"].s.replace("x0", "t"), "grishCos1": e0["csx[0]"].s.replace("x0", "t"),
                "grishRecS": er[kx[0]].s, "grishRecC": er[kx[1]].s, "grishD1Init": em[D1].s, "grishD2Init": em[D2].s,
                "grishAcc1": ea[D1].s, "grishAcc2": ea[D2].s, "grishFinal": ef["return"].s}
    emit_all([("grishSin1", "(t : α) : α", "`GrishaginFunction.Calculate`: `snx[0]` / `sny[0]` as a function of the coordinate"),
              ("grishCos1", "(t : α) : α", "`GrishaginFunction.Calculate`: `csx[0]` / `csy[0]`"),
              ("grishRecS", "(s c s1 c1 : α) : α", "the recurrence `snx[i + 1]` (and `sny[i + 1]`), loop `for i in range(0, 6)`"),
              ("grishRecC", "(s c s1 c1 : α) : α", "the recurrence `csx[i + 1]` (and `csy[i + 1]`)"),
              ("grishD1Init", ": α", "`d1` before the double loop"), ("grishD2Init", ": α", "`d2` before the double loop"),
              ("grishAcc1", "(d1 a b sxi syj cxi cyj : α) : α", "body of the double loop `for i in range(0, 7): for j in range(0, 7)`: the new `d1`"),
              ("grishAcc2", "(d2 c d sxi syj cxi cyj : α) : α", "body of the double loop: the new `d2`"),
              ("grishFinal", "(d1 d2 : α) : α", "the returned value")], grish)


    # ---- GKLS (D-type): GKLS_norm and the pieces of CalculateDFunction ----
    G = mods["GKLSFunction"]

    def gnorm():
        fa = func_ast(G.GKLS_norm)
        pre, lp, post = _split_loop(fa.body, "GKLS_norm")
        i = _header(lp, "range(self.GKLS_dim)", "GKLS_norm")
        ex = Exec({"natcast": True, "mathfns": True, "scalars": {f"x1[{i}]": R("a"), f"x2[{i}]": R("b")}})
        e0 = _env_of(ex.run(pre, {}), "GKLS_norm")
        if "norm" not in e0 or e0["norm"].ty != "R":
            raise Untranslatable("GKLS_norm: accumulator")
        e1 = _env_of(ex.run(lp.body, {"norm": R("acc"), i: V("N", "i")}), "GKLS_norm")
        if [k for k in e1 if k != i] != ["norm"]:
            raise Untranslatable("GKLS_norm: the loop assigns " + str(list(e1)))
        e2 = _env_of(ex.run(post, {"norm": R("acc")}), "GKLS_norm")
        if "return" not in e2:
            raise Untranslatable("GKLS_norm: no returned value")
        return {"gklsNormInit": e0["norm"].s, "gklsNormStep": e1["norm"].s, "gklsNormFinal": e2["return"].s}
    emit_all([("gklsNormInit", ": α", "`GKLS_norm`: the accumulator before the loop `for i in range(self.GKLS_dim)`"),
              ("gklsNormStep", "(acc a b : α) : α", "`GKLS_norm`: the loop body, `a = x1[i]`, `b = x2[i]`"),
              ("gklsNormFinal", "(acc : α) : α", "`GKLS_norm`: the returned value")], gnorm)

    gk_lits = []

    def gd():
        import struct
        fa = func_ast(G.CalculateDFunction)
        st = _nodoc(fa.body)
        k_for = [k for k, s_ in enumerate(st) if isinstance(s_, ast.For)]
        k_wh = [k for k, s_ in enumerate(st) if isinstance(s_, ast.While)]
        if len(k_for) != 2 or len(k_wh) != 1 or not (k_for[0] < k_wh[0] < k_for[1]):
            raise Untranslatable("CalculateDFunction: expected domain loop, while search, scalar-product loop")
        LM, RHO, F = "self.GKLS_minima.local_min", "self.GKLS_minima.rho", "self.GKLS_minima.f"
        PREC, MAXV = "GKLSFunction.GKLS_PRECISION", "GKLSFunction.GKLS_MAX_VALUE"
        # (1) the domain test
        dl = st[k_for[0]]
        i = _header(dl, "range(self.GKLS_dim)", "CalculateDFunction domain test")
        body = _nodoc(dl.body)
        if len(body) != 1 or not isinstance(body[0], ast.If) or body[0].orelse or len(body[0].body) != 1 \
                or ast.unparse(body[0].body[0]) != f"return {MAXV}":
            raise Untranslatable("CalculateDFunction: the domain test is not `if ...: return GKLS_MAX_VALUE`")
        ex = Exec({"scalars": {f"x[{i}]": R("xi"), f"self.GKLS_domain_left[{i}]": R("left"), f"self.GKLS_domain_right[{i}]": R("right"),
                               PREC: R("prec")}})
        outside = ex.ev(body[0].test, {})
        # (2) the search for the ball
        if ast.unparse(st[k_wh[0] - 1]) != "index = 1":
            raise Untranslatable("CalculateDFunction: the search does not start at index 1")
        wh = st[k_wh[0]]
        if [ast.unparse(s_) for s_ in _nodoc(wh.body)] != ["index = index + 1"] or not isinstance(wh.test, ast.BoolOp) \
                or not isinstance(wh.test.op, ast.And) or len(wh.test.values) != 2 \
                or ast.unparse(wh.test.values[0]) != "index < self.GKLS_num_minima":
            raise Untranslatable("CalculateDFunction: shape of the while search")
        ex2 = Exec({"scalars": {f"self.GKLS_norm({LM}[index], x)": R("nrm"), f"{RHO}[index]": R("rho")}})
        miss = ex2.ev(wh.test.values[1], {})
        # (3) no ball: the paraboloid
        ifp = st[k_wh[0] + 1]
        if not isinstance(ifp, ast.If) or ast.unparse(ifp.test) != "index == self.GKLS_num_minima" or ifp.orelse:
            raise Untranslatable("CalculateDFunction: the paraboloid branch")
        ex3 = Exec({"scalars": {f"self.GKLS_norm({LM}[0], x)": R("nrm"), f"{F}[0]": R("f0")}})
        ep = _env_of(ex3.run(ifp.body, {}), "paraboloid")
        # (4) x coincides with the minimiser
        ifc = st[k_wh[0] + 2]
        if not isinstance(ifc, ast.If) or ifc.orelse or len(ifc.body) != 1 or ast.unparse(ifc.body[0]) != f"return {F}[index]":
            raise Untranslatable("CalculateDFunction: the coincidence branch")
        ex4 = Exec({"scalars": {f"self.GKLS_norm(x, {LM}[index])": R("nrm"), PREC: R("prec")}})
        coincide = ex4.ev(ifc.test, {})
        # (5) the cubic
        rest = st[k_wh[0] + 3:]
        pre, lp, post = _split_loop(rest, "CalculateDFunction cubic part")
        j = _header(lp, "range(self.GKLS_dim)", "CalculateDFunction scalar product")
        ex5 = Exec({"lits": gk_lits, "lits_unknown_only": True,
                    "scalars": {f"self.GKLS_norm({LM}[0], {LM}[index])": R("norm0"), f"self.GKLS_norm({LM}[index], x)": R("nrm"),
                                f"{F}[0]": R("f0"), f"{F}[index]": R("fi"), f"{RHO}[index]": R("rho0"),
                                f"x[{j}]": R("xi"), f"{LM}[index][{j}]": R("mi"), f"{LM}[0][{j}]": R("ti")}})
        e5 = _env_of(ex5.run(pre, {}), "cubic part")
        if e5.get("norm") is None or e5["norm"].s != "nrm" or e5.get("rho") is None or e5["rho"].s != "rho0" or "a" not in e5 or "scal" not in e5:
            raise Untranslatable("CalculateDFunction: the statements before the scalar product")
        e6 = _env_of(ex5.run(lp.body, {"scal": R("acc"), j: V("N", "i")}), "scalar product")
        if [k for k in e6 if k != j] != ["scal"]:
            raise Untranslatable("CalculateDFunction: the scalar-product loop assigns " + str(list(e6)))
        e7 = _env_of(ex5.run(post, {"scal": R("scal"), "norm": R("nrm"), "rho": R("rho"), "a": R("a")}), "cubic")
        if "return" not in e7:
            raise Untranslatable("CalculateDFunction: no returned value")
        bits = [struct.unpack("<Q", struct.pack("<d", v))[0] for v in gk_lits]
        return {"gklsOutside": f"decide {outside.s}", "gklsBallMiss": f"decide {miss.s}", "gklsParaboloid": ep["return"].s,
                "gklsCoincide": f"decide {coincide.s}", "gklsA": e5["a"].s, "gklsScalInit": e5["scal"].s, "gklsScalStep": e6["scal"].s,
                "gklsCubicLits": str(bits), "gklsCubic": e7["return"].s}
    emit_all([("gklsOutside", "(xi left right prec : α) : Bool", "`CalculateDFunction`: the domain test of one coordinate (`return GKLS_MAX_VALUE` when true)"),
              ("gklsBallMiss", "(nrm rho : α) : Bool", "`CalculateDFunction`: second conjunct of the `while` search (the ball `index` does not contain x); "
               "`nrm = GKLS_norm(local_min[index], x)`"),
              ("gklsParaboloid", "(nrm f0 : α) : α", "`CalculateDFunction`: value outside every ball, `nrm = GKLS_norm(local_min[0], x)`"),
              ("gklsCoincide", "(nrm prec : α) : Bool", "`CalculateDFunction`: x coincides with the minimiser, `nrm = GKLS_norm(x, local_min[index])`"),
              ("gklsA", "(norm0 f0 fi : α) : α", "`CalculateDFunction`: `a`, with `norm0 = GKLS_norm(local_min[0], local_min[index])`"),
              ("gklsScalInit", ": α", "`CalculateDFunction`: `scal` before the loop"),
              ("gklsScalStep", "(acc xi ti mi : α) : α", "`CalculateDFunction`: scalar-product loop body, `ti = local_min[0][i]`, `mi = local_min[index][i]`"),
              ("gklsCubicLits", ": List Nat", "bit patterns of the float literals of the cubic that are not 0, 0.5, 1, 2, 4 (here: 3.0)"),
              ("gklsCubic", "(lit : Nat → α) (rho scal nrm a fi : α) : α", "`CalculateDFunction`: the cubic interpolation value, `nrm = GKLS_norm(local_min[index], x)`")], gd)

    ok = not errors
    out.append(f"/-- the translator could follow every function above -/\ndef translated : Bool := {'true' if ok else 'false'}\n")
    return PROB_HEAD + "\n".join(out) + "end\nend Gen.PSrc\n", errors


def generate_method_ctl(method_cls):
    """statement trees (same `Stmt` as ProcessSrc) of the procedures of `Method` that sequence the search: FirstIteration,
    CalculateIterationPoint, RecalcAllCharacteristics, CalculateFunctionals, UpdateOptimum, RenewSearchData, FinalizeIteration,
    CheckStopCondition"""
    out = ["-- GENERATED by harness/src2lean.py from the SOURCE TEXT of iOpt/method/method.py under /repo; do not edit.\n"
           "import IOptGen.ProcessSrc\n"
           "/-!\nThe procedures of `Method` that sequence one iteration, as statement trees (`Gen.ProcSrc.Stmt`): which calls are made, in which\n"
           "order, with which argument expressions (normalised source text).  The arithmetic inside the called formulas is translated\n"
           "separately (`IOptGen/MethodSrc.lean`).\n-/\nnamespace Gen.MethodCtl\nopen Gen.ProcSrc\n"]
    for name, attr in (("firstIteration", "FirstIteration"), ("calculateIterationPoint", "CalculateIterationPoint"),
                       ("recalcAllCharacteristics", "RecalcAllCharacteristics"), ("calculateFunctionals", "CalculateFunctionals"),
                       ("updateOptimum", "UpdateOptimum"), ("renewSearchData", "RenewSearchData"),
                       ("finalizeIteration", "FinalizeIteration"), ("checkStopCondition", "CheckStopCondition")):
        fa = _inline_private_helpers(method_cls, func_ast(getattr(method_cls, attr)),
                                     {"FirstIteration", "CalculateIterationPoint", "RecalcAllCharacteristics", "CalculateFunctionals", "UpdateOptimum",
                                      "RenewSearchData", "FinalizeIteration", "CheckStopCondition", "CalculateM", "CalculateGlobalR",
                                      "CalculateNextPointCoordinate", "CalculateDelta"})
        params = [a.arg for a in fa.args.args]
        out.append(f"/-- parameters of `Method.{attr}` -/\ndef {name}Params : List String := "
                   + "[" + ", ".join(_lean_str(x) for x in params) + "]\n")
        out.append(f"/-- body of `Method.{attr}` -/\ndef {name} : List Stmt :=\n  " + _stmts_to_lean(fa.body, 2) + "\n")
    return "\n".join(out) + "\nend Gen.MethodCtl\n", []


def generate_search_data_ctl(sd_mod):
    """statement trees (same `Stmt`) of the containers of iOpt/method/search_data.py: CharacteristicsQueue, SearchData and
    SearchDataDualQueue (every method)"""
    out = ["-- GENERATED by harness/src2lean.py from the SOURCE TEXT of iOpt/method/search_data.py under /repo; do not edit.\n"
           "import IOptGen.ProcessSrc\n"
           "/-!\nEvery method of `CharacteristicsQueue`, `SearchData` and `SearchDataDualQueue` as a statement tree (`Gen.ProcSrc.Stmt`).\n-/\n"
           "namespace Gen.SearchDataCtl\nopen Gen.ProcSrc\n"]
    names = []
    for cname in ("CharacteristicsQueue", "SearchData", "SearchDataDualQueue"):
        cls = getattr(sd_mod, cname)
        for attr, fn in cls.__dict__.items():
            if not callable(fn):
                continue
            try:
                fa = func_ast(fn)
            except (OSError, TypeError):
                continue
            if not isinstance(fa, ast.FunctionDef):
                continue
            if attr.startswith("_") and not (attr.startswith("__") and attr.endswith("__")) and not attr.startswith("_" + cname + "__"):
                continue        # a private helper: inlined where it is called
            fa = _inline_private_helpers(cls, fa, {a_ for a_ in cls.__dict__ if not a_.startswith("_") or a_.startswith("__")})
            nm = cname[0].lower() + cname[1:] + "_" + attr.strip("_")
            names.append(nm)
            params = [a.arg for a in fa.args.args]
            defaults = [ast.unparse(d) for d in fa.args.defaults]
            out.append(f"/-- parameters of `{cname}.{attr}` (defaults of the trailing ones: {defaults}) -/\ndef {nm}Params : List String := "
                       + "[" + ", ".join(_lean_str(x) for x in params) + "]\n")
            out.append(f"/-- default values of the trailing parameters of `{cname}.{attr}` (source text) -/\ndef {nm}Defaults : List String := "
                       + "[" + ", ".join(_lean_str(x) for x in defaults) + "]\n")
            out.append(f"/-- body of `{cname}.{attr}` -/\ndef {nm} : List Stmt :=\n  " + _stmts_to_lean(fa.body, 2) + "\n")
    out.append("/-- the methods translated above -/\ndef methods : List String := [" + ", ".join(_lean_str(n_) for n_ in names) + "]\n")
    return "\n".join(out) + "\nend Gen.SearchDataCtl\n", []


def generate_evolvent_loops(cls):
    """statement trees of the two level loops `__GetYonX`, `__GetXonY` (and of `__CalculateNode` / `__CalculateNumbr` for reference)"""
    out = ["-- GENERATED by harness/src2lean.py from the SOURCE TEXT of iOpt/evolvent/evolvent.py under /repo; do not edit.\n"
           "import IOptGen.ProcessSrc\n"
           "/-!\n`Evolvent.__GetYonX`, `__GetXonY`, `__CalculateNode`, `__CalculateNumbr` as statement trees (`Gen.ProcSrc.Stmt`).\n-/\n"
           "namespace Gen.EvolventLoops\nopen Gen.ProcSrc\n"]
    for name, attr in (("getYonX", "_Evolvent__GetYonX"), ("getXonY", "_Evolvent__GetXonY"),
                       ("calculateNode", "_Evolvent__CalculateNode"), ("calculateNumbr", "_Evolvent__CalculateNumbr")):
        fa = func_ast(cls.__dict__[attr])
        params = [a.arg for a in fa.args.args]
        out.append(f"/-- parameters of `Evolvent.{attr.replace('_Evolvent', '')}` -/\ndef {name}Params : List String := "
                   + "[" + ", ".join(_lean_str(x) for x in params) + "]\n")
        out.append(f"/-- body of `Evolvent.{attr.replace('_Evolvent', '')}` -/\ndef {name} : List Stmt :=\n  " + _stmts_to_lean(fa.body, 2) + "\n")
    return "\n".join(out) + "\nend Gen.EvolventLoops\n", []


def generate_evolvent_ctl(cls):
    """statement trees (same `Stmt`) of the public methods of `Evolvent` and of the two affine maps they call"""
    out = ["-- GENERATED by harness/src2lean.py from the SOURCE TEXT of iOpt/evolvent/evolvent.py under /repo; do not edit.\n"
           "import IOptGen.ProcessSrc\n"
           "/-!\n`Evolvent.__init__`, `SetBounds`, `GetImage`, `GetInverseImage`, `GetPreimages`, `__TransformP2D`, `__TransformD2P` as statement trees\n"
           "(`Gen.ProcSrc.Stmt`): what is stored, what is called in which order, what is returned.\n-/\nnamespace Gen.EvolventCtl\nopen Gen.ProcSrc\n"]
    for name, attr in (("init", "__init__"), ("setBounds", "SetBounds"), ("getImage", "GetImage"), ("getInverseImage", "GetInverseImage"),
                       ("getPreimages", "GetPreimages"), ("transformP2D", "_Evolvent__TransformP2D"), ("transformD2P", "_Evolvent__TransformD2P")):
        fa = _inline_private_helpers(cls, func_ast(cls.__dict__[attr]),
                                     {"__init__", "SetBounds", "GetImage", "GetInverseImage", "GetPreimages", "__TransformP2D", "__TransformD2P",
                                      "__GetYonX", "__GetXonY", "__CalculateNode", "__CalculateNumbr"})
        params = [a.arg for a in fa.args.args]
        out.append(f"/-- parameters of `Evolvent.{attr.replace('_Evolvent', '')}` -/\ndef {name}Params : List String := "
                   + "[" + ", ".join(_lean_str(x) for x in params) + "]\n")
        out.append(f"/-- body of `Evolvent.{attr.replace('_Evolvent', '')}` -/\ndef {name} : List Stmt :=\n  " + _stmts_to_lean(fa.body, 2) + "\n")
    return "\n".join(out) + "\nend Gen.EvolventCtl\n", []


def generate_wiring(mods):
    """statement trees of the glue classes: every method of `Solver`, the constructors of `Process`, `Method`, `OptimizationTask` (+ `Calculate`),
    `Solution`, `SolverParameters`, `Point`, `FunctionValue`, `Trial`, and every method of `SearchDataItem` -- with the defaults of their parameters"""
    out = ["-- GENERATED by harness/src2lean.py from the SOURCE TEXT of iOpt/solver.py, solution.py, solver_parametrs.py, trial.py, method/optim_task.py,\n"
           "-- method/process.py (__init__), method/method.py (__init__), method/search_data.py (SearchDataItem) under /repo; do not edit.\n"
           "import IOptGen.ProcessSrc\n"
           "/-!\nThe glue of the library as statement trees (`Gen.ProcSrc.Stmt`): which object is built from which, which component is handed to which\n"
           "constructor, what the facade `Solver` delegates to, which defaults the parameters have.\n-/\nnamespace Gen.Wiring\nopen Gen.ProcSrc\n"]
    names = []
    for cls, only in mods:
        cname = cls.__name__
        for attr, fn in cls.__dict__.items():
            if only is not None and attr not in only:
                continue
            if not callable(fn):
                continue
            try:
                fa = func_ast(fn)
            except (OSError, TypeError):
                continue
            if not isinstance(fa, ast.FunctionDef):
                continue
            if attr.startswith("_") and not (attr.startswith("__") and attr.endswith("__")):
                continue        # a private helper: inlined where it is called
            fa = _inline_private_helpers(cls, fa, {a_ for a_ in cls.__dict__ if not a_.startswith("_") or a_.startswith("__")})
            nm = cname[0].lower() + cname[1:] + "_" + attr.strip("_")
            names.append(nm)
            params = [a.arg for a in fa.args.args]
            defaults = [ast.unparse(d) for d in fa.args.defaults]
            out.append(f"/-- parameters of `{cname}.{attr}` -/\ndef {nm}Params : List String := "
                       + "[" + ", ".join(_lean_str(x) for x in params) + "]\n")
            out.append(f"/-- default values of the trailing parameters of `{cname}.{attr}` (source text) -/\ndef {nm}Defaults : List String := "
                       + "[" + ", ".join(_lean_str(x) for x in defaults) + "]\n")
            out.append(f"/-- body of `{cname}.{attr}` -/\ndef {nm} : List Stmt :=\n  " + _stmts_to_lean(_nodoc(fa.body), 2) + "\n")
    out.append("/-- the methods translated above -/\ndef methods : List String := [" + ", ".join(_lean_str(n_) for n_ in names) + "]\n")
    return "\n".join(out) + "\nend Gen.Wiring\n", []


def generate_console(listener_mod, console_mod):
    """the console reporting chain: statement trees of `ConsoleFullOutputListener` and `FunctionConsoleFullOutput`, and for every method of
    `ConsoleOutputer` the sequence of its `print` statements as (format string, positional arguments of `.format`, keyword arguments)"""
    out = ["-- GENERATED by harness/src2lean.py from the SOURCE TEXT of iOpt/method/listener.py and iOpt/output_system/console/console_output.py\n"
           "-- under /repo; do not edit.\n"
           "import IOptGen.ProcessSrc\n"
           "/-!\nThe console reporting chain: `ConsoleFullOutputListener` (which callback prints what), `FunctionConsoleFullOutput` (which fields of the\n"
           "solution / of the new trials are handed to the printer, in which argument position) as statement trees (`Gen.ProcSrc.Stmt`), and the\n"
           "`print` statements of every method of `ConsoleOutputer` in order: format string, positional `.format` arguments, keyword arguments.\n-/\n"
           "namespace Gen.Console\nopen Gen.ProcSrc\n\n"
           "/-- one `print(...)` statement: `fmt.format(args…, kw…)`; for a `print` of another shape `fmt = \"\"` and `args = [the printed expression]` -/\n"
           "structure PrintStmt where\n  fmt : String\n  args : List String\n  kwargs : List (String × String)\n  endArg : String := \"\"\n  deriving Repr, DecidableEq\n"]
    for cls in (listener_mod.ConsoleFullOutputListener, console_mod.FunctionConsoleFullOutput):
        cname = cls.__name__
        for attr, fn in cls.__dict__.items():
            if not callable(fn):
                continue
            try:
                fa = func_ast(fn)
            except (OSError, TypeError):
                continue
            if not isinstance(fa, ast.FunctionDef):
                continue
            fa = _inline_private_helpers(cls, fa, {a_ for a_ in cls.__dict__ if not a_.startswith("_") or a_.startswith("__")})
            nm = cname[0].lower() + cname[1:] + "_" + attr.strip("_")
            params = [a.arg for a in fa.args.args]
            defaults = [ast.unparse(d) for d in fa.args.defaults]
            out.append(f"/-- parameters of `{cname}.{attr}` (defaults of the trailing ones: {defaults}) -/\ndef {nm}Params : List String := "
                       + "[" + ", ".join(_lean_str(x) for x in params) + "]\n")
            out.append(f"/-- body of `{cname}.{attr}` -/\ndef {nm} : List Stmt :=\n  " + _stmts_to_lean(_nodoc(fa.body), 2) + "\n")
    cls = console_mod.ConsoleOutputer
    for attr, fn in cls.__dict__.items():
        if not callable(fn) or attr.startswith("__"):
            continue
        fa = func_ast(fn)
        params = [a.arg for a in fa.args.args]
        out.append(f"/-- parameters of `ConsoleOutputer.{attr}` -/\ndef {attr}Params : List String := "
                   + "[" + ", ".join(_lean_str(x) for x in params) + "]\n")
        # locals assigned before the prints (e.g. dim = len(point)), then the prints in order; anything else is listed under `other`
        assigns, prints, other = [], [], []
        for st in _nodoc(fa.body):
            if isinstance(st, ast.Assign) and len(st.targets) == 1 and isinstance(st.targets[0], ast.Name):
                assigns.append((st.targets[0].id, ast.unparse(st.value)))
            elif isinstance(st, ast.Expr) and isinstance(st.value, ast.Call) and isinstance(st.value.func, ast.Name) and st.value.func.id == "print":
                c = st.value
                end = next((ast.unparse(k.value) for k in c.keywords if k.arg == "end"), "")
                if len(c.args) == 1 and isinstance(c.args[0], ast.Call) and isinstance(c.args[0].func, ast.Attribute) \
                        and c.args[0].func.attr == "format" and isinstance(c.args[0].func.value, ast.Constant):
                    f_ = c.args[0]
                    prints.append((f_.func.value.value, [ast.unparse(a) for a in f_.args],
                                   [(k.arg, ast.unparse(k.value)) for k in f_.keywords], end))
                else:
                    prints.append(("", [ast.unparse(a) for a in c.args], [], end))
            elif isinstance(st, ast.Pass):
                continue
            else:
                other.append(ast.unparse(st))
        out.append(f"/-- locals of `ConsoleOutputer.{attr}` assigned at top level (name, source expression), in order -/\ndef {attr}Locals : List (String × String) := ["
                   + ", ".join(f"({_lean_str(a)}, {_lean_str(b)})" for a, b in assigns) + "]\n")
        out.append(f"/-- the `print` statements of `ConsoleOutputer.{attr}` in order -/\ndef {attr}Prints : List PrintStmt := [\n  "
                   + ",\n  ".join("{ fmt := %s, args := [%s], kwargs := [%s], endArg := %s }" % (
                       _lean_str(f), ", ".join(_lean_str(a) for a in args), ", ".join(f"({_lean_str(k)}, {_lean_str(v)})" for k, v in kws), _lean_str(e))
                       for f, args, kws, e in prints) + "]\n")
        out.append(f"/-- top-level statements of `ConsoleOutputer.{attr}` that are neither an assignment to a local nor a `print` (source text) -/\n"
                   f"def {attr}Other : List String := [" + ", ".join(_lean_str(o) for o in other) + "]\n")
    return "\n".join(out) + "\nend Gen.Console\n", []


def generate_problem_ctors():
    """statement trees of the constructors of the shipped problem classes (what metadata they declare)"""
    from iOpt.problems.rastrigin import Rastrigin
    from iOpt.problems.xsquared import XSquared
    from iOpt.problems.hill import Hill
    from iOpt.problems.shekel import Shekel
    from iOpt.problems.shekel4 import Shekel4
    from iOpt.problems.stronginC3 import StronginC3
    from iOpt.problems.grishagin import Grishagin
    from iOpt.problems.GKLS import GKLS
    from iOpt.problem import Problem
    out = ["-- GENERATED by harness/src2lean.py from the SOURCE TEXT of iOpt/problem.py and iOpt/problems/*.py under /repo; do not edit.\n"
           "import IOptGen.ProcessSrc\n"
           "/-!\nThe constructors of the shipped problem classes as statement trees (`Gen.ProcSrc.Stmt`): which metadata a problem declares\n"
           "(dimension, names, bounds, objective / constraint counts, known optimum) as a function of its constructor arguments.\n-/\n"
           "namespace Gen.ProblemCtors\nopen Gen.ProcSrc\n"]
    for cls in (Problem, Rastrigin, XSquared, Hill, Shekel, Shekel4, StronginC3, Grishagin, GKLS):
        fn = cls.__dict__.get("__init__")
        if fn is None:
            continue
        fa = func_ast(fn)
        nm = cls.__name__[0].lower() + cls.__name__[1:] + "_init"
        params = [a.arg for a in fa.args.args]
        defaults = [ast.unparse(d) for d in fa.args.defaults]
        out.append(f"/-- parameters of `{cls.__name__}.__init__` -/\ndef {nm}Params : List String := "
                   + "[" + ", ".join(_lean_str(x) for x in params) + "]\n")
        out.append(f"/-- default values of the trailing parameters of `{cls.__name__}.__init__` (source text) -/\ndef {nm}Defaults : List String := "
                   + "[" + ", ".join(_lean_str(x) for x in defaults) + "]\n")
        # (normal form: the zero-argument `super()` of Python 3 is written out as `super(<Class>, self)`)
        body = _stmts_to_lean(_nodoc(fa.body), 2).replace('"super().__init__"', f'"super({cls.__name__}, self).__init__"')
        out.append(f"/-- body of `{cls.__name__}.__init__` -/\ndef {nm} : List Stmt :=\n  " + body + "\n")
    return "\n".join(out) + "\nend Gen.ProblemCtors\n", []


def wiring_classes():
    from iOpt.solver import Solver
    from iOpt.method.process import Process
    from iOpt.method.method import Method
    from iOpt.method.optim_task import OptimizationTask
    from iOpt.solution import Solution
    from iOpt.solver_parametrs import SolverParameters
    from iOpt.trial import Point, FunctionValue, Trial
    from iOpt.method.search_data import SearchDataItem
    return [(Solver, None), (Process, {"__init__"}), (Method, {"__init__"}), (OptimizationTask, None), (Solution, None),
            (SolverParameters, None), (Point, None), (FunctionValue, None), (Trial, None), (SearchDataItem, None)]


def problem_classes():
    from iOpt.problems.rastrigin import Rastrigin
    from iOpt.problems.xsquared import XSquared
    from iOpt.problems.hill import Hill
    from iOpt.problems.shekel import Shekel
    from iOpt.problems.shekel4 import Shekel4
    from iOpt.problems.grishagin_function.grishagin_function import GrishaginFunction
    from iOpt.problems.GKLS_function.gkls_function import GKLSFunction
    return {"Rastrigin": Rastrigin, "XSquared": XSquared, "Hill": Hill, "Shekel": Shekel, "Shekel4": Shekel4,
            "GrishaginFunction": GrishaginFunction, "GKLSFunction": GKLSFunction}


# ================================================================================================================
# control skeleton of Process (DoGlobalIteration, Solve, DoLocalRefinement): a small statement tree, interpreted in Lean
# ================================================================================================================
PROC_HEAD = ("-- GENERATED by harness/src2lean.py from the SOURCE TEXT of iOpt/method/process.py under /repo; do not edit.\n"
             "/-!\nThe control skeleton of `Process.DoGlobalIteration`, `Process.Solve` and `Process.DoLocalRefinement` as a statement tree: loops,\n"
             "branches, `try/except`, and the calls in the order in which the source makes them (callee and argument expressions as\n"
             "normalised source text, `ast.unparse`).  `IOptProofs/ProcInterp.lean` gives this tree a semantics in terms of the model's\n"
             "primitive steps and proves that it IS `Proc.doGlobalIteration` / `Proc.solve`.\n-/\n"
             "namespace Gen.ProcSrc\n\n"
             "/-- statements of the fragment of Python that `process.py` uses -/\n"
             "inductive Stmt where\n"
             "  /-- `t1, t2 = callee(args)` / `callee(args)` (no targets) -/\n"
             "  | call (targets : List String) (callee : String) (args : List String)\n"
             "  /-- `target = expr` where `expr` is not a call -/\n"
             "  | assign (target : String) (value : String)\n"
             "  /-- `for var in range(count): body` -/\n"
             "  | forRange (var : String) (count : String) (body : List Stmt)\n"
             "  /-- `for var in coll: body` -/\n"
             "  | forEach (var : String) (coll : String) (body : List Stmt)\n"
             "  | ite (cond : String) (thn els : List Stmt)\n"
             "  | while (cond : String) (body : List Stmt)\n"
             "  /-- `try: body except exc: handler` (one handler) -/\n"
             "  | tryExcept (body : List Stmt) (exc : String) (handler : List Stmt)\n"
             "  | ret (value : String)\n"
             "  /-- anything outside the fragment (source text) -/\n"
             "  | other (src : String)\n"
             "deriving Repr, Inhabited\n\n")


def _lean_str(t):
    return '"' + t.replace("\\", "\\\\").replace('"', '\\"').replace("\n", "\\n") + '"'


def _stmts_to_lean(stmts, ind):
    items = [x for x in (_stmt_to_lean(s_, ind + 2) for s_ in stmts) if x is not None]
    if not items:
        return "[]"
    pad = " " * (ind + 2)
    return "[\n" + ",\n".join(pad + it for it in items) + "]"


def _stmt_to_lean(s_, ind):
    L = lambda xs: "[" + ", ".join(_lean_str(x) for x in xs) + "]"
    if isinstance(s_, ast.Expr) and isinstance(s_.value, ast.Constant):
        return None                                   # docstring / bare string literal
    if isinstance(s_, ast.Pass):
        return None
    if isinstance(s_, ast.AnnAssign) and s_.value is None:
        return None                                   # a bare annotation `x: T` declares nothing at run time
    if isinstance(s_, ast.Expr) and isinstance(s_.value, ast.Call):
        c = s_.value
        return f".call [] {_lean_str(ast.unparse(c.func))} {L([ast.unparse(a) for a in c.args] + [k.arg + '=' + ast.unparse(k.value) for k in c.keywords])}"
    if isinstance(s_, (ast.Assign, ast.AnnAssign)) and getattr(s_, "value", None) is not None:
        tgts = s_.targets if isinstance(s_, ast.Assign) else [s_.target]
        if len(tgts) == 1:
            t = tgts[0]
            names = [ast.unparse(e) for e in t.elts] if isinstance(t, ast.Tuple) else [ast.unparse(t)]
            if isinstance(s_.value, ast.Call):
                c = s_.value
                return f".call {L(names)} {_lean_str(ast.unparse(c.func))} {L([ast.unparse(a) for a in c.args] + [k.arg + '=' + ast.unparse(k.value) for k in c.keywords])}"
            if len(names) == 1:
                return f".assign {_lean_str(names[0])} {_lean_str(ast.unparse(s_.value))}"
    if isinstance(s_, ast.AugAssign):
        return f".assign {_lean_str(ast.unparse(s_.target))} {_lean_str(ast.unparse(ast.BinOp(left=s_.target, op=s_.op, right=s_.value)))}"
    if isinstance(s_, ast.For) and not s_.orelse:
        it = s_.iter
        if isinstance(it, ast.Call) and ast.unparse(it.func) == "range" and len(it.args) == 1:
            return f".forRange {_lean_str(ast.unparse(s_.target))} {_lean_str(ast.unparse(it.args[0]))} {_stmts_to_lean(s_.body, ind)}"
        return f".forEach {_lean_str(ast.unparse(s_.target))} {_lean_str(ast.unparse(it))} {_stmts_to_lean(s_.body, ind)}"
    if isinstance(s_, ast.If):
        return f".ite {_lean_str(ast.unparse(s_.test))} {_stmts_to_lean(s_.body, ind)} {_stmts_to_lean(s_.orelse, ind)}"
    if isinstance(s_, ast.While) and not s_.orelse:
        return f".while {_lean_str(ast.unparse(s_.test))} {_stmts_to_lean(s_.body, ind)}"
    if isinstance(s_, ast.Try) and len(s_.handlers) == 1 and not s_.orelse and not s_.finalbody:
        h = s_.handlers[0]
        return f".tryExcept {_stmts_to_lean(s_.body, ind)} {_lean_str(ast.unparse(h.type) if h.type is not None else '')} {_stmts_to_lean(h.body, ind)}"
    if isinstance(s_, ast.Return):
        return f".ret {_lean_str(ast.unparse(s_.value) if s_.value is not None else '')}"
    return f".other {_lean_str(ast.unparse(s_)[:200])}"



def _inline_private_helpers(cls, fa, exported, depth=0):
    """AST-level normal form for the statement-tree generators: a statement `self._helper(args)`, `t = self._helper(args)` or
    `return self._helper(args)` whose callee is a PRIVATE method of the same class (single leading underscore, or a name-mangled
    `__name`) that is not itself one of the exported procedures is replaced by the helper's own statements (parameters substituted,
    the helper's single trailing `return e` turned into the assignment / return it feeds).  A maintainer's "extract method" then yields
    the same tree as before.  Anything else (helper used inside an expression, several returns, rebinding a parameter) is left alone."""
    if depth > 4:
        return fa

    def lookup(name):
        fn = None
        for k_ in cls.__mro__:          # a helper may live in a base class
            fn = k_.__dict__.get(name)
            if fn is None and name.startswith("__") and not name.endswith("__"):
                fn = k_.__dict__.get("_" + k_.__name__ + name)
            if fn is not None:
                break
        if isinstance(fn, staticmethod):
            fn = fn.__func__
        return fn if callable(fn) else None

    def private(name):
        return name.startswith("_") and not (name.startswith("__") and name.endswith("__")) and name not in exported \
            and ("_" + cls.__name__ + name) not in exported

    def expand(call, kind, target):
        f = call.func
        if not (isinstance(f, ast.Attribute) and isinstance(f.value, ast.Name) and f.value.id == "self" and private(f.attr)) or call.keywords:
            return None
        fn = lookup(f.attr)
        if fn is None:
            return None
        try:
            ha = func_ast(fn)
        except (OSError, TypeError):
            return None
        ha = _inline_private_helpers(cls, ha, exported, depth + 1)
        params = [a.arg for a in ha.args.args]
        if params and params[0] == "self":
            params = params[1:]
        if len(params) != len(call.args) or not all(isinstance(a, (ast.Name, ast.Attribute, ast.Constant)) for a in call.args):
            return None
        sub = dict(zip(params, call.args))
        body = _nodoc(ha.body)
        assigned = {t_.id for b in body for n_ in ast.walk(b) if isinstance(n_, (ast.Assign, ast.AugAssign, ast.AnnAssign))
                    for t_ in ([n_.target] if not isinstance(n_, ast.Assign) else n_.targets) if isinstance(t_, ast.Name)}
        if assigned & set(params):
            return None

        class S(ast.NodeTransformer):
            def visit_Name(self, node):
                if node.id in sub and isinstance(node.ctx, ast.Load):
                    return copy.deepcopy(sub[node.id])
                return node
        body = [S().visit(copy.deepcopy(b)) for b in body]
        rets = [n_ for b in body for n_ in ast.walk(b) if isinstance(n_, ast.Return)]
        last_ret = body[-1] if body and isinstance(body[-1], ast.Return) else None
        if len(rets) > (1 if last_ret is not None else 0):
            return None
        if kind == "stmt":
            if last_ret is not None and last_ret.value is not None and ast.unparse(last_ret.value) != "None":
                return None
            return body[:-1] if last_ret is not None else body
        if last_ret is None or last_ret.value is None:
            return None
        if kind == "ret":
            return body[:-1] + [ast.Return(value=last_ret.value)]
        return body[:-1] + [ast.Assign(targets=[target], value=last_ret.value)]

    def helper_body(call):
        """the statements of the private helper called by `call`, parameters substituted; None when `call` is not such a call"""
        f = call.func
        if not (isinstance(f, ast.Attribute) and isinstance(f.value, ast.Name) and f.value.id == "self" and private(f.attr)) or call.keywords:
            return None
        fn = lookup(f.attr)
        if fn is None:
            return None
        try:
            ha = func_ast(fn)
        except (OSError, TypeError):
            return None
        params = [a.arg for a in ha.args.args]
        if params and params[0] == "self":
            params = params[1:]
        if len(params) != len(call.args) or not all(isinstance(a, (ast.Name, ast.Attribute, ast.Constant)) for a in call.args):
            return None
        sub = dict(zip(params, call.args))
        body = _nodoc(ha.body)
        if any(isinstance(n_, (ast.Assign, ast.AugAssign, ast.AnnAssign, ast.NamedExpr)) for b in body for n_ in ast.walk(b)):
            return None

        class S(ast.NodeTransformer):
            def visit_Name(self, node):
                if node.id in sub and isinstance(node.ctx, ast.Load):
                    return copy.deepcopy(sub[node.id])
                return node
        return [S().visit(copy.deepcopy(b)) for b in body]

    def always_returns(stmts):
        if not stmts:
            return False
        l_ = stmts[-1]
        if isinstance(l_, ast.Return):
            return True
        return isinstance(l_, ast.If) and always_returns(l_.body) and always_returns(l_.orelse)

    def graft(stmts, then, orelse):
        if not stmts:
            return None
        s0 = stmts[0]
        if isinstance(s0, ast.Return):
            v = s0.value
            if isinstance(v, ast.Constant) and v.value is True:
                return copy.deepcopy(then)
            if isinstance(v, ast.Constant) and v.value is False:
                return copy.deepcopy(orelse)
            if v is None or not then:
                return None
            return [ast.If(test=v, body=copy.deepcopy(then), orelse=copy.deepcopy(orelse))]
        if isinstance(s0, ast.If) and always_returns(s0.body) and (not s0.orelse or always_returns(s0.orelse)):
            b_ = graft(s0.body, then, orelse)
            e_ = graft(s0.orelse if s0.orelse else stmts[1:], then, orelse)
            if b_ is None or e_ is None or not b_:
                return None
            return [ast.If(test=s0.test, body=b_, orelse=e_)]
        return None

    def walk(stmts):
        out = []
        for s_ in stmts:
            rep = None
            if isinstance(s_, ast.Expr) and isinstance(s_.value, ast.Call):
                rep = expand(s_.value, "stmt", None)
            elif isinstance(s_, ast.Return) and isinstance(s_.value, ast.Call):
                rep = expand(s_.value, "ret", None)
            elif isinstance(s_, ast.Assign) and len(s_.targets) == 1 and isinstance(s_.value, ast.Call):
                rep = expand(s_.value, "assign", s_.targets[0])
            if rep is not None:
                out += [ast.fix_missing_locations(x) for x in rep]
                continue
            if isinstance(s_, ast.If) and isinstance(s_.test, ast.Call):
                # `if self._predicate(args): X else: Y` with a private predicate made of `if c: return True/False` ladders:
                # the ladder is grafted in, X at its True leaves and Y at its False leaves (Python evaluates exactly the same tests
                # in the same order)
                hb = helper_body(s_.test)
                g_ = graft(hb, s_.body, s_.orelse) if hb is not None else None
                if g_:
                    out += walk([ast.fix_missing_locations(x) for x in g_])
                    continue
            for fld in ("body", "orelse", "finalbody"):
                if hasattr(s_, fld) and isinstance(getattr(s_, fld), list):
                    setattr(s_, fld, walk(getattr(s_, fld)))
            if isinstance(s_, ast.Try):
                for h in s_.handlers:
                    h.body = walk(h.body)
            out.append(s_)
        return out
    fa = copy.deepcopy(fa)
    fa.body = walk(fa.body)
    return fa


def generate_process(proc_cls):
    out = []
    for name, attr in (("doGlobalIteration", "DoGlobalIteration"), ("solve", "Solve"), ("doLocalRefinement", "DoLocalRefinement"),
                       ("getResults", "GetResults"), ("problemCalculate", "problemCalculate")):
        fa = _inline_private_helpers(proc_cls, func_ast(getattr(proc_cls, attr)),
                                     {"DoGlobalIteration", "Solve", "DoLocalRefinement", "GetResults", "problemCalculate"})
        params = [a.arg for a in fa.args.args]
        defaults = [ast.unparse(d) for d in fa.args.defaults]
        out.append(f"/-- parameters of `Process.{attr}` -/\ndef {name}Params : List String := "
                   + "[" + ", ".join(_lean_str(x) for x in params) + "]\n")
        out.append(f"/-- default values of the trailing parameters of `Process.{attr}` (source text) -/\ndef {name}Defaults : List String := "
                   + "[" + ", ".join(_lean_str(x) for x in defaults) + "]\n")
        out.append(f"/-- body of `Process.{attr}` -/\ndef {name} : List Stmt :=\n  " + _stmts_to_lean(fa.body, 2) + "\n")
    return PROC_HEAD + "\n".join(out) + "\nend Gen.ProcSrc\n", []


def gen_method_src():
    from common import ensure_repo_on_path
    ensure_repo_on_path()
    import importlib
    import iOpt.method.method as mm
    text, errors = generate(mm.Method)
    return text


if __name__ == "__main__":
    import sys
    sys.path.insert(0, sys.argv[1] if len(sys.argv) > 1 else "/repo")
    import iOpt.method.method as mm
    text, errors = generate(mm.Method)
    if "--ev" in sys.argv:
        from iOpt.evolvent.evolvent import Evolvent
        text, errors = generate_evolvent(Evolvent)
    if "--s3" in sys.argv:
        from iOpt.problems.stronginC3 import StronginC3
        text, errors = generate_s3(StronginC3)
    if "--evloops" in sys.argv:
        from iOpt.evolvent.evolvent import Evolvent
        text, errors = generate_evolvent_loops(Evolvent)
    if "--evctl" in sys.argv:
        from iOpt.evolvent.evolvent import Evolvent
        text, errors = generate_evolvent_ctl(Evolvent)
    if "--sdctl" in sys.argv:
        import iOpt.method.search_data as sdm
        text, errors = generate_search_data_ctl(sdm)
    if "--mctl" in sys.argv:
        text, errors = generate_method_ctl(mm.Method)
    if "--proc" in sys.argv:
        from iOpt.method.process import Process
        text, errors = generate_process(Process)
    if "--pctors" in sys.argv:
        text, errors = generate_problem_ctors()
    if "--console" in sys.argv:
        import iOpt.method.listener as lm
        import iOpt.output_system.console.console_output as com
        text, errors = generate_console(lm, com)
    if "--wiring" in sys.argv:
        text, errors = generate_wiring(wiring_classes())
    if "--prob" in sys.argv:
        text, errors = generate_problems(problem_classes())
    print(text)
    print("-- errors:", errors, file=sys.stderr)
