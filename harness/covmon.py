"""Line coverage of the implementation under /repo during a check (Python 3.12 `sys.monitoring`, one LINE event per
line: the callback returns DISABLE, so the overhead is a few per cent).

Used to report, in every evidence file, which executable lines of the property's anchored source files the
correspondence streams and the oracle actually executed - the measure of what the differential tie has seen.
`start(repo)` begins recording, `report(files)` returns {file: {"lines": total, "hit": n, "missed": [line numbers]}}.
"""
import os, sys

_TOOL = 3          # a free tool id (0..5); coverage.py uses 1 by convention
_hit = {}
_root = [None]
_on = [False]


def _line(code, lineno):
    fn = code.co_filename
    if fn.startswith(_root[0]):
        _hit.setdefault(fn, set()).add(lineno)
    return sys.monitoring.DISABLE


def start(repo):
    if _on[0] or not hasattr(sys, "monitoring"):
        return False
    _root[0] = os.path.join(os.path.abspath(repo), "iOpt") + os.sep
    try:
        sys.monitoring.use_tool_id(_TOOL, "iopt-verif-cov")
    except ValueError:
        return False
    sys.monitoring.register_callback(_TOOL, sys.monitoring.events.LINE, _line)
    sys.monitoring.set_events(_TOOL, sys.monitoring.events.LINE)
    _on[0] = True
    return True


def stop():
    if _on[0]:
        sys.monitoring.set_events(_TOOL, 0)
        sys.monitoring.free_tool_id(_TOOL)
        _on[0] = False


def _executable_lines(path):
    """line numbers that carry code (from the compiled code objects), without docstring-only and def/class header lines"""
    try:
        src = open(path, encoding="utf-8").read()
        import warnings
        with warnings.catch_warnings():
            warnings.simplefilter("ignore")
            top = compile(src, path, "exec")
    except Exception:
        return set()
    lines = set()
    stack = [top]
    while stack:
        co = stack.pop()
        for _, _, ln in co.co_lines():
            if ln is not None and ln > 0:
                lines.add(ln)
        for c in co.co_consts:
            if hasattr(c, "co_lines"):
                stack.append(c)
    return lines


def report(repo, files):
    """files: paths relative to the repository root"""
    out = {}
    for rel in files:
        path = os.path.join(os.path.abspath(repo), rel)
        if not os.path.exists(path) or rel.endswith("_generation.py"):
            continue
        exe = _executable_lines(path)
        hit = _hit.get(path, set()) & exe
        # module-level lines (imports, def/class statements) execute at import time, possibly before monitoring started:
        # count only lines inside function bodies as "missed"
        body = _function_body_lines(path)
        missed = sorted((exe & body) - hit)
        out[rel] = {"function_lines": len(exe & body), "hit": len((exe & body) & hit), "missed": missed[:60],
                    "missed_count": len(missed)}
    return out


def _function_body_lines(path):
    import ast
    try:
        tree = ast.parse(open(path, encoding="utf-8").read())
    except Exception:
        return set()
    lines = set()
    for n in ast.walk(tree):
        if isinstance(n, (ast.FunctionDef, ast.AsyncFunctionDef)):
            body = n.body
            if body and isinstance(body[0], ast.Expr) and isinstance(getattr(body[0], "value", None), ast.Constant) \
                    and isinstance(body[0].value.value, str):
                body = body[1:]
            for st in body:
                for m in ast.walk(st):
                    if hasattr(m, "lineno"):
                        lines.add(m.lineno)
    return lines
