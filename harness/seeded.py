#!/venv/bin/python
"""Run registered checks against a seeded (property-breaking) change.

  seeded.py verify <dir>            dir holds patch.diff, demo.py, meta.json (as produced by a mutation agent):
                                    confirms in a scratch worktree that the patch applies, the test suite still passes,
                                    the demo fails with the patch and passes without it.
  seeded.py detect <seeded/<id>> [--tier quick] [--props C02,C06]
                                    applies the patch to a scratch worktree of /repo, runs the check(s) with IOPT_REPO
                                    pointing at it, reverts, and records which checks raised a VIOLATION.
Scratch worktrees are created under /tmp and removed afterwards."""
import json, os, subprocess, sys, shutil, tempfile, time

V = os.path.dirname(os.path.dirname(os.path.abspath(__file__)))
PY = "/venv/bin/python"


def sh(cmd, **kw):
    return subprocess.run(cmd, stdout=subprocess.PIPE, stderr=subprocess.STDOUT, text=True, **kw)


def worktree():
    d = tempfile.mkdtemp(prefix="iopt-seed-", dir="/tmp")
    os.rmdir(d)
    r = sh(["git", "-C", "/repo", "worktree", "add", "-q", "--detach", d, "HEAD"])
    if r.returncode != 0:
        raise SystemExit(r.stdout)
    return d


def drop(d):
    sh(["git", "-C", "/repo", "worktree", "remove", "--force", d])
    shutil.rmtree(d, ignore_errors=True)


def verify(sdir):
    meta = json.load(open(os.path.join(sdir, "meta.json")))
    d = worktree()
    out = {}
    try:
        env = dict(os.environ, PYTHONPATH=d, PYTHONDONTWRITEBYTECODE="1")
        r = sh([PY, os.path.join(sdir, "demo.py"), d], env=env, timeout=1800)
        out["demo_unchanged_exit"] = r.returncode
        r = sh(["git", "-C", d, "apply", os.path.abspath(os.path.join(sdir, "patch.diff"))])
        out["patch_applies"] = r.returncode == 0
        if r.returncode != 0:
            out["apply_error"] = r.stdout[-500:]
            return out
        r = sh([PY, os.path.join(sdir, "demo.py"), d], env=env, timeout=1800)
        out["demo_changed_exit"] = r.returncode
        out["demo_output"] = r.stdout[-600:]
        r = sh([PY, "-m", "pytest", "-q", "-p", "no:cacheprovider", "--timeout=900"], cwd=d, env=env, timeout=3600)
        out["tests"] = r.stdout.strip().split("\n")[-1]
        out["tests_pass"] = r.returncode == 0
    finally:
        drop(d)
    out["confirmed"] = bool(out.get("patch_applies") and out.get("tests_pass") and out.get("demo_changed_exit") == 1
                            and out.get("demo_unchanged_exit") == 0)
    return out


def scratch_verif():
    """a private copy of /verif (with the Lean build output) so that a detection run never touches the generated files,
    evidence or replays of /verif itself"""
    d = tempfile.mkdtemp(prefix="iopt-seed-verif-", dir="/tmp")
    r = sh(["rsync", "-a", "--exclude", ".git", "--exclude", "replays", "--exclude", "seeded", V + "/", d + "/"])
    if r.returncode != 0:
        raise SystemExit(r.stdout)
    return d


def detect(sdir, tier, props):
    meta = json.load(open(os.path.join(sdir, "meta.json")))
    props = props or [meta["property"]]
    d = worktree()
    V0 = V
    VS = scratch_verif()
    res = {}
    try:
        r = sh(["git", "-C", d, "apply", os.path.abspath(os.path.join(sdir, "patch.diff"))])
        if r.returncode != 0:
            raise SystemExit("patch does not apply: " + r.stdout)
        for p in props:
            t0 = time.time()
            env = dict(os.environ, IOPT_REPO=d, VERIF_TIER=tier, PYTHONDONTWRITEBYTECODE="1")
            r = sh([PY, os.path.join(VS, "harness/run_check.py"), "--property", p, "--tier", tier], cwd=VS, env=env, timeout=7200)
            lines = [l for l in r.stdout.split("\n") if l.startswith("VIOLATION") or l.startswith("[check]") or l.startswith("INFRA")]
            replay = None
            for l in lines:
                if l.startswith("VIOLATION") and "replay=" in l:
                    replay = l.split("replay=")[1].split()[0]
            detail = None
            if replay and os.path.exists(replay):
                try:
                    detail = json.load(open(replay))
                    detail = {"broken": detail.get("broken_obligations", detail.get("no_longer_checks")),
                              "first_violation": (detail.get("violations") or [None])[0],
                              "first_mismatch": (detail.get("mismatches") or [None])[0]}
                except Exception:
                    pass
            res[p] = {"exit": r.returncode, "lines": lines, "wall_s": round(time.time() - t0, 1), "detail": detail}
    finally:
        drop(d)
        shutil.rmtree(VS, ignore_errors=True)
    return res


def collect_neutral(wt, gid, props):
    """import out1..out3 of a refactoring worktree as neutral/<gid><a|b|c> (behaviour-preserving changes: the checks must NOT report a
    concrete failing input for them and must not crash)"""
    new = []
    for sub, suf in zip(("out1", "out2", "out3"), "abc"):
        src = os.path.join(wt, sub)
        if not all(os.path.exists(os.path.join(src, f)) for f in ("patch.diff", "meta.json")):
            continue
        dst = os.path.join(V, "neutral", gid + suf)
        os.makedirs(dst, exist_ok=True)
        for f in ("patch.diff", "meta.json", "check_equiv.py"):
            if os.path.exists(os.path.join(src, f)):
                shutil.copy(os.path.join(src, f), os.path.join(dst, f))
        m = json.load(open(os.path.join(dst, "meta.json")))
        m["properties"] = props
        m["property"] = props[0]
        json.dump(m, open(os.path.join(dst, "meta.json"), "w"), indent=1, ensure_ascii=False)
        new.append(dst)
    return new


def process_neutral(sdir):
    """tests still pass with the patch?  then every listed property's quick check against the patched tree"""
    rp = os.path.join(sdir, "result.json")
    if os.path.exists(rp):
        return os.path.basename(sdir), json.load(open(rp)).get("summary")
    meta = json.load(open(os.path.join(sdir, "meta.json")))
    d = worktree()
    out = {}
    try:
        r = sh(["git", "-C", d, "apply", os.path.abspath(os.path.join(sdir, "patch.diff"))])
        out["patch_applies"] = r.returncode == 0
        if r.returncode == 0:
            env = dict(os.environ, PYTHONPATH=d, PYTHONDONTWRITEBYTECODE="1")
            r = sh([PY, "-m", "pytest", "-q", "-p", "no:cacheprovider", "--timeout=900"], cwd=d, env=env, timeout=3600)
            out["tests_pass"] = r.returncode == 0
    finally:
        drop(d)
    if out.get("patch_applies") and out.get("tests_pass"):
        det = detect(sdir, "quick", meta["properties"])
        out["checks"] = det
        summ = {}
        for p_, r_ in det.items():
            if r_["exit"] == 0:
                summ[p_] = "pass"
            elif r_["exit"] == 1 and any("no-failing-input-found" in l for l in r_["lines"]):
                summ[p_] = "VIOLATION no-failing-input-found (tolerated: a proof obligation / the bit-exact correspondence broke)"
            elif r_["exit"] == 1:
                summ[p_] = "FALSE ALARM: VIOLATION with a concrete input"
            else:
                summ[p_] = "INFRASTRUCTURE FAILURE (exit %s)" % r_["exit"]
        out["summary"] = summ
    json.dump(out, open(rp, "w"), indent=1, default=str)
    return os.path.basename(sdir), out.get("summary", out)


def collect(wt, prop, suffixes):
    """import out/ and out2/ of a mutation worktree as seeded/<prop><suffix>; returns the new directories"""
    new = []
    for sub, suf in zip(("out", "out2"), suffixes):
        src = os.path.join(wt, sub)
        if not all(os.path.exists(os.path.join(src, f)) for f in ("patch.diff", "demo.py", "meta.json")):
            continue
        dst = os.path.join(V, "seeded", prop + suf)
        os.makedirs(dst, exist_ok=True)
        for f in ("patch.diff", "demo.py", "meta.json"):
            shutil.copy(os.path.join(src, f), os.path.join(dst, f))
        new.append(dst)
    return new


def process(sdir):
    out = {}
    vp = os.path.join(sdir, "verify.json")
    if not os.path.exists(vp):
        v = verify(sdir)
        json.dump(v, open(vp, "w"), indent=1)
    v = json.load(open(vp))
    dp = os.path.join(sdir, "detect.json")
    if v.get("confirmed") and not os.path.exists(dp):
        d = detect(sdir, "quick", None)
        json.dump(d, open(dp, "w"), indent=1, default=str)
    d = json.load(open(dp)) if os.path.exists(dp) else {}
    return os.path.basename(sdir), v.get("confirmed"), {p: (r["exit"], r["wall_s"], [l for l in r["lines"] if l.startswith("VIOL")][:1]) for p, r in d.items()}


if __name__ == "__main__":
    if sys.argv[1] == "all":
        from concurrent.futures import ThreadPoolExecutor
        jobs = int(sys.argv[2]) if len(sys.argv) > 2 else 3
        root = os.path.join(V, "seeded")
        dirs = [os.path.join(root, d) for d in sorted(os.listdir(root)) if os.path.exists(os.path.join(root, d, "meta.json"))
                and not (os.path.exists(os.path.join(root, d, "detect.json")) and os.path.exists(os.path.join(root, d, "verify.json")))]
        with ThreadPoolExecutor(jobs) as ex:
            for r in ex.map(process, dirs):
                print(time.strftime("%T"), r, flush=True)
        sys.exit(0)
    if sys.argv[1] == "collect-neutral":
        print(collect_neutral(sys.argv[2], sys.argv[3], sys.argv[4].split(",")))
        sys.exit(0)
    if sys.argv[1] == "neutral-all":
        from concurrent.futures import ThreadPoolExecutor
        root = os.path.join(V, "neutral")
        dirs = [os.path.join(root, d) for d in sorted(os.listdir(root)) if os.path.exists(os.path.join(root, d, "meta.json"))]
        with ThreadPoolExecutor(int(sys.argv[2]) if len(sys.argv) > 2 else 3) as ex:
            for r in ex.map(process_neutral, dirs):
                print(time.strftime("%T"), r, flush=True)
        sys.exit(0)
    if sys.argv[1] == "neutral-table":
        root = os.path.join(V, "neutral")
        tally = {"pass": 0, "tolerated": 0, "false alarm": 0, "infra": 0, "pending": 0}
        rows = []
        for d in sorted(os.listdir(root)):
            mp = os.path.join(root, d, "meta.json")
            if not os.path.exists(mp):
                continue
            m = json.load(open(mp))
            rp = os.path.join(root, d, "result.json")
            res = json.load(open(rp)) if os.path.exists(rp) else {}
            cells = []
            for p_ in m.get("properties", []):
                v = (res.get("summary") or {}).get(p_)
                if v is None:
                    tally["pending"] += 1; cells.append(f"{p_}: pending")
                elif v == "pass":
                    tally["pass"] += 1; cells.append(f"{p_}: pass")
                elif v.startswith("VIOLATION no-failing-input-found"):
                    tally["tolerated"] += 1
                    br = (((res.get("checks") or {}).get(p_) or {}).get("detail") or {}).get("broken") or []
                    why = str(br[0])[:90].replace("|", "/") if br else ""
                    cells.append(f"{p_}: VIOLATION … no-failing-input-found ({why})")
                elif v.startswith("FALSE ALARM"):
                    tally["false alarm"] += 1; cells.append(f"{p_}: **FALSE ALARM (concrete input)**")
                else:
                    tally["infra"] += 1; cells.append(f"{p_}: {v}")
            rows.append(f"| {d} | {str(m.get('summary', ''))[:330].replace('|', '/')} | {'; '.join(cells)} |")
        head = open(os.path.join(root, "README.md")).read().split("\nTally")[0]
        txt = head + "\nTally (property checks): " + ", ".join(f"{k}: {v}" for k, v in tally.items()) + "\n\n" \
            + "| id | files / refactoring (summary of its author) | quick checks of the properties it touches |\n|---|---|---|\n" + "\n".join(rows) + "\n"
        open(os.path.join(root, "README.md"), "w").write(txt)
        print(tally)
        sys.exit(0)
    if sys.argv[1] == "collect":
        print(collect(sys.argv[2], sys.argv[3], sys.argv[4].split(",")))
        sys.exit(0)
    cmd, sdir = sys.argv[1], sys.argv[2]
    tier = "quick"
    props = None
    a = sys.argv[3:]
    while a:
        if a[0] == "--tier":
            tier = a[1]; a = a[2:]
        elif a[0] == "--props":
            props = a[1].split(","); a = a[2:]
        else:
            a = a[1:]
    if cmd == "verify":
        out = verify(sdir)
        json.dump(out, open(os.path.join(sdir, "verify.json"), "w"), indent=1)
        print(json.dumps(out, indent=1))
    elif cmd == "table":
        rows = ["| id | property | the change (summary of its author) | needs | confirmed | quick check of the property |", "|---|---|---|---|---|---|"]
        tally = {"oracle input": 0, "no-failing-input-found": 0, "not detected": 0, "obsolete": 0, "infra": 0}
        for d in sorted(os.listdir(sdir)):
            mp = os.path.join(sdir, d, "meta.json")
            if not os.path.exists(mp):
                continue
            m = json.load(open(mp))
            v = json.load(open(os.path.join(sdir, d, "verify.json"))) if os.path.exists(os.path.join(sdir, d, "verify.json")) else {}
            det = json.load(open(os.path.join(sdir, d, "detect.json"))) if os.path.exists(os.path.join(sdir, d, "detect.json")) else {}
            ds = []
            if m.get("status", "").startswith(("obsolete", "demo obsolete")):
                ds.append(m["status"]); tally["obsolete"] += 1
            for p_, r_ in det.items():
                if r_["exit"] == 1:
                    nf = any("no-failing-input-found" in l for l in r_["lines"])
                    det_ = r_.get("detail") or {}
                    if nf:
                        what = "; ".join(str(b)[:110] for b in (det_.get("broken") or [])[:2])
                        ds.append(f"{p_}: VIOLATION … no-failing-input-found ({what})"); tally["no-failing-input-found"] += 1
                    else:
                        fv = det_.get("first_violation") or {}
                        cl = fv.get("clause") or fv.get("what") or fv.get("kind") or ""
                        ds.append(f"{p_}: VIOLATION with a failing input ({str(cl)[:70]})"); tally["oracle input"] += 1
                elif r_["exit"] == 0:
                    ds.append(f"{p_}: NOT detected"); tally["not detected"] += 1
                else:
                    ds.append(f"{p_}: infrastructure failure (exit {r_['exit']})"); tally["infra"] += 1
            esc = lambda t: str(t).replace("|", "\\|").replace("\n", " ")
            rows.append(f"| {d} | {m.get('property')} | {esc(m.get('summary'))[:230]} | {esc(m.get('needs'))[:200]} | {v.get('confirmed')} | {esc('; '.join(ds))} |")
        head = ("# Seeded changes and which checks catch them\n\nEach change was written by a fresh sub-agent that saw only the property text and a scratch "
                "worktree; `harness/seeded.py verify` confirmed it (patch applies, the 91 tests still pass, the demo fails with and passes without the "
                "change) and `harness/seeded.py detect` ran the registered QUICK check of its property against a scratch worktree with the patch applied "
                "(in a private copy of /verif; /repo is never touched).\n\nTally: " + ", ".join(f"{k}: {v_}" for k, v_ in tally.items()) + "\n\n")
        open(os.path.join(sdir, "README.md"), "w").write(head + "\n".join(rows) + "\n")
        print(head)
    else:
        out = detect(sdir, tier, props)
        old = {}
        dp = os.path.join(sdir, "detect.json")
        if os.path.exists(dp):
            old = json.load(open(dp))
        old.update(out)
        json.dump(old, open(dp, "w"), indent=1, default=str)
        print(json.dumps(out, indent=1, default=str)[:6000])
