"""Shared infrastructure of the checks: paths, seed, float<->hex, Lean build/audit, driver runs,
evidence and violation reporting."""
import os, sys, json, struct, subprocess, time, fcntl, re, random, hashlib

VERIF = os.path.dirname(os.path.dirname(os.path.abspath(__file__)))
REPO = os.environ.get("IOPT_REPO", "/repo")
LEAN = os.path.join(VERIF, "lean")
PY = "/venv/bin/python"
os.environ.setdefault("PYTHONDONTWRITEBYTECODE", "1")
sys.dont_write_bytecode = True

SEED = int(os.environ.get("VERIF_SEED", "20260928"))
TIER = os.environ.get("VERIF_TIER", "quick")


# wall-clock cap of a DEEP oracle run started from the quick tier (a proof obligation / the correspondence broke, or the source
# of the property's files differs from the validated record): the thorough case schedule is followed until this many seconds
# have passed.  None = no cap (the thorough tier itself).
ORACLE_CAP = [None]


def set_oracle_cap(seconds):
    ORACLE_CAP[0] = None if seconds is None else (time.time() + seconds, seconds)


def past_oracle_cap():
    return ORACLE_CAP[0] is not None and time.time() > ORACLE_CAP[0][0]


# ---- hang watchdog ------------------------------------------------------------------------------------------------
# Every call into the implementation made by a correspondence stream or an oracle is preceded by `beat(...)`.  A
# watchdog thread started by run_check reports "the implementation does not return" (a VIOLATION whose replay is the
# script / case being run) when nothing has beaten for HANG_S seconds: code under test that loops forever - possibly
# inside a `try/except BaseException` that swallows every alarm - cannot be interrupted from inside the process.
HEART = {"t": None, "what": None, "detail": None, "armed": False}
HANG_S = float(os.environ.get("VERIF_HANG_S", "150"))


def beat(what, detail=None, allow=None):
    """`allow`: seconds this one step may take (default HANG_S) - for steps that are known to be long and are guarded by their own
    timeout (a sub-process with `timeout=`)"""
    now = time.time()
    if HEART["armed"] and HEART["t"] is not None and now - HEART["t"] > HEART.get("maxgap", 0.0):
        HEART["maxgap"] = now - HEART["t"]
        HEART["maxgap_what"] = HEART["what"]
    HEART["t"] = now
    HEART["cpu"] = time.process_time()
    HEART["what"] = what
    HEART["allow"] = allow
    if detail is not None:
        HEART["detail"] = detail


def arm(on=True):
    if not on:
        beat("end")
    HEART["armed"] = on
    HEART["t"] = time.time()
    HEART["cpu"] = time.process_time()


def cap_density(lower, upper, m):
    """the largest density <= m at which the cells of the box are still well resolved by doubles: cell width >= 2^6 ulp of the largest
    bound in every coordinate.  (On a thin side far from the origin a finer grid is below the spacing of doubles: images of neighbouring
    cells coincide - a limit of floating point that C07 explicitly allows for, not a property of the code.)"""
    import math
    mm = m
    for l, h in zip(lower, upper):
        big = max(abs(float(l)), abs(float(h)))
        if big == 0:
            continue
        ulp = math.ulp(big)
        side = float(h) - float(l)
        while mm > 1 and side / 2.0 ** mm < 64 * ulp:
            mm -= 1
    return mm


class Infra(Exception):
    """infrastructure failure: exit code 2, never a violation"""


def f2h(x):
    x = float(x)
    if x != x:
        return "7ff8000000000000"
    return "%016x" % struct.unpack("<Q", struct.pack("<d", x))[0]


def h2f(h):
    return struct.unpack("<d", struct.pack("<Q", int(h, 16)))[0]


def fs2h(xs):
    return " ".join(f2h(x) for x in xs)


def ensure_repo_on_path():
    if REPO not in sys.path:
        sys.path.insert(0, REPO)
    import warnings
    warnings.filterwarnings("ignore", category=SyntaxWarning)


# ---------------------------------------------------------------------------------------------
# Lean side
# ---------------------------------------------------------------------------------------------
_LOCK = os.path.join(LEAN, ".build.lock")


def _run(cmd, cwd=None, timeout=None, env=None):
    r = subprocess.run(cmd, cwd=cwd, stdout=subprocess.PIPE, stderr=subprocess.STDOUT, text=True,
                       timeout=timeout, env=env)
    return r.returncode, r.stdout


def lake_build(targets=None, timeout=3000):
    """Incremental build under an exclusive lock. Returns (ok, output)."""
    targets = targets or []
    with open(_LOCK, "w") as lk:
        fcntl.flock(lk, fcntl.LOCK_EX)
        t0 = time.time()
        rc, out = _run(["lake", "build"] + targets, cwd=LEAN, timeout=timeout)
        return rc == 0, out, time.time() - t0


def driver_path():
    return os.path.join(LEAN, ".lake", "build", "bin", "driver")


def run_model(lines, timeout=1200):
    """Pipe a script through the compiled Lean driver; returns the list of output lines."""
    exe = driver_path()
    if not os.path.exists(exe):
        raise Infra("driver executable missing; lake build failed?")
    data = "\n".join(lines) + "\n"
    beat("model driver (Lean executable)", allow=timeout + 60)
    r = subprocess.run([exe], input=data, stdout=subprocess.PIPE, stderr=subprocess.PIPE, text=True, timeout=timeout)
    beat("model driver returned")
    if r.returncode != 0:
        raise Infra("driver crashed: " + r.stderr[-2000:])
    out = r.stdout.split("\n")
    if out and out[-1] == "":
        out.pop()
    if len(out) != len(lines):
        raise Infra(f"driver produced {len(out)} lines for {len(lines)} commands")
    return out


FORBIDDEN = re.compile(r"\b(sorry|admit|native_decide|bv_decide|implemented_by|unsafe)\b|^\s*axiom\s|maxHeartbeats\s+0\b")


def _strip_comments(src):
    # remove /- ... -/ (nested) and -- comments
    out, i, depth = [], 0, 0
    while i < len(src):
        if src.startswith("/-", i):
            depth += 1; i += 2; continue
        if depth and src.startswith("-/", i):
            depth -= 1; i += 2; continue
        if depth:
            if src[i] == "\n":
                out.append("\n")
            i += 1; continue
        if src.startswith("--", i):
            while i < len(src) and src[i] != "\n":
                i += 1
            continue
        out.append(src[i]); i += 1
    return "".join(out)


def grep_forbidden(native_allow=()):
    """Scan all Lean sources of the project for forbidden constructs outside comments."""
    hits = []
    for root, _, files in os.walk(LEAN):
        if ".lake" in root:
            continue
        for fn in files:
            if not fn.endswith(".lean"):
                continue
            path = os.path.join(root, fn)
            rel = os.path.relpath(path, LEAN)
            src = _strip_comments(open(path, encoding="utf-8").read())
            # string literals may mention the words (e.g. this audit list): drop them
            src = re.sub(r'"(?:[^"\\]|\\.)*"', '""', src)
            for ln, line in enumerate(src.split("\n"), 1):
                m = FORBIDDEN.search(line)
                if m:
                    if m.group(1) == "native_decide" and rel in native_allow:
                        continue
                    hits.append(f"{rel}:{ln}: {line.strip()[:120]}")
    return hits


STD_AXIOMS = {"propext", "Classical.choice", "Quot.sound"}


def audit_axioms(theorems, imports):
    """#print axioms for each theorem; returns {thm: [axioms]} or raises on elaboration failure
    (a theorem that no longer exists / no longer checks shows up as missing)."""
    if not theorems:
        return {}, ""
    src = "\n".join(f"import {m}" for m in imports) + "\n" + "\n".join(f"#print axioms {t}" for t in theorems) + "\n"
    tmp = os.path.join(LEAN, f".audit_{os.getpid()}.lean")
    open(tmp, "w").write(src)
    try:
        rc, out = _run(["lake", "env", "lean", tmp], cwd=LEAN, timeout=1800)
    finally:
        os.remove(tmp)
    res = {}
    cur = None
    text = out.replace("\n  ", " ").replace("\n ", " ")
    for m in re.finditer(r"'(\S+)' depends on axioms: \[([^\]]*)\]|'(\S+)' does not depend on any axioms", text):
        if m.group(1):
            res[m.group(1)] = [a.strip() for a in m.group(2).split(",") if a.strip()]
        else:
            res[m.group(3)] = []
    return res, out


# ---------------------------------------------------------------------------------------------
# evidence / reporting
# ---------------------------------------------------------------------------------------------
def write_evidence(pid, tier, level, coverage, assumptions, wall, violations=0):
    evdir = os.path.join(VERIF, "evidence")
    if os.path.realpath(REPO) != "/repo":
        # a run against another checkout (seeded change): never overwrite the evidence of /repo
        evdir = os.path.join(VERIF, "replays", "evidence_other_checkout")
    os.makedirs(evdir, exist_ok=True)
    ev = {"property_id": pid, "tier": tier, "seed": SEED, "level": level, "coverage": coverage,
          "assumptions": assumptions, "wall_s": round(wall, 2), "violations": violations}
    path = os.path.join(evdir, f"{pid}.json")
    tmp = path + ".tmp"
    json.dump(ev, open(tmp, "w"), indent=1, default=str)
    os.replace(tmp, path)
    return path


def write_replay(pid, name, payload):
    d = os.path.join(VERIF, "replays", pid)
    os.makedirs(d, exist_ok=True)
    path = os.path.join(d, name + ".json")
    json.dump(payload, open(path, "w"), indent=1, default=str)
    return path


def load_known():
    return json.load(open(os.path.join(VERIF, "known_findings.json")))["entries"]


def rng(tag=""):
    h = hashlib.sha256(f"{SEED}:{tag}".encode()).digest()
    return random.Random(int.from_bytes(h[:8], "big"))
