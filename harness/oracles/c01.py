"""C01 - certified eps-optimality of the result under the Lipschitz reliability condition.

Objectives with a closed-form global minimum and Lipschitz constant L on the unit-normalised box
(objectives.exact_min_and_L: piecewise-linear sums / maxima, cones, linear, constants, 1-D needles), also scaled
down so that the 'flat' clause K_N*L <= r is hit in every dimension.  Solve's loop is replicated on the real solver
    while not method.CheckStopCondition(): M_before = method.M[0]; solver.DoGlobalIteration()
then Solve() is called (it makes no further trial) and its returned best value is used.
The statement is tested literally whenever the accuracy stop was reached (Solve stopped with budget left, or
solutionAccuracy < eps; eps in (0,1)) and
the reliability condition holds with the final M (M recomputed from the trial history: the largest slope between points that
were neighbours when one of them was placed, floored at 1 - not the method's own estimate; r*M_final >= K_N*L; K_1 = 2, K_N = 2^(3-1/N) sqrt(N+3)):
  eps-optimal   best - min f < (r*M_final/2)*eps + L*2^-m*(sqrt(N+3)+sqrt(N)/2)   (grid term 0 for N = 1)
                (a failure needs gap > bound*(1+1e-9)+1e-12 to be reported)
  returned-is-best  the value returned by Solve equals the smallest logged value (so that the bound is about the result)
A failing run with r*M_before < K_N*L <= r*M_final (M_before = the estimate in force when the last interval was
chosen) is the documented known finding "final-trial-raised-M-across-reliability-threshold" and goes to "known";
every other failing run goes to "violations".  The witness of the known finding is always run first.
"""
import os
import sys
import math

_D = os.path.dirname(os.path.abspath(__file__))
for _p in (os.path.dirname(_D), _D):
    if _p not in sys.path:
        sys.path.insert(0, _p)
import o1_common as oc
import objectives

PROP = "C01"
KNOWN_KEY = "final-trial-raised-M-across-reliability-threshold"
WITNESS = {"n": 1, "m": 10, "lim": 1000, "eps": 0.01, "r": 2.5, "lower": [0.0], "upper": [1.0],
           "spec": {"kind": "needle", "spikes": [[0.00390625, 0.0033203125, 10.0], [0.875, 0.1125, 10.0]], "trend": 1.0},
           "refine": False}
RULE = ("exact-minimum families (pwlsum, pwlmax, cone, linear, const, needle for N=1) from objectives.gen_spec(exact_only), 45% "
        "of them rescaled so that K_N*L is spread around r (flat and nearly-reliable cases in every dimension), 8% perturbations "
        "of the known-finding witness (a thin deep spike under the last trial point, built adaptively), 15% of the generic cases as a RESUMED search (Solve with itersLimit in {1..30}, then the limit is raised in place and the search continued; in 40% of these the first phase ends with a local refinement, refineSolution=True), 12% of the generic cases with the first iterations made in 1..3 batches DoGlobalIteration(k), k in {2..30}, 8% flat ramps with narrow wells (2L <= r, all slopes seen far below 1), 15% 1-D sawtooth functions with 2L = r (least slack); random box, N=1..5, density, r in (1.05,6], eps "
        "per dimension so that the accuracy stop is reachable within itersLimit in {400,1000,2500}. explored = runs; a run is "
        "distinct by its parameter set and non-trivial if it stopped by accuracy AND satisfied the reliability condition (only "
        "then the statement claims anything); stats split them into flat (K_N*L<=r), reliable by M, unreliable, no accuracy stop.")

EPS_BY_DIM = {1: [0.2, 0.1, 0.05, 0.02, 0.01, 0.003, 1e-3, 1e-4],
              2: [0.5, 0.3, 0.2, 0.1, 0.05, 0.02, 0.01],
              3: [0.7, 0.5, 0.3, 0.2, 0.1, 0.05],
              4: [0.8, 0.6, 0.5, 0.3, 0.2, 0.1],
              5: [0.9, 0.7, 0.6, 0.5, 0.3, 0.2]}


def observed_M(run, n):
    """(M before the last trial, M after it) recomputed from the trial history alone: the largest |dz|/|dx|^(1/N) between
    points that were neighbours at the moment one of them was placed, never below 1 - the statement's M, independent of
    the estimate the method keeps for itself"""
    import bisect
    hist = run.history()[0]
    pts, M, Mb = [], 1.0, 1.0
    for x, z, _ in hist:
        Mb = M
        i = bisect.bisect(pts, (x, z))
        for j in (i - 1, i):
            if 0 <= j < len(pts):
                d = abs(x - pts[j][0]) ** (1.0 / n)
                if d > 0:
                    M = max(M, abs(z - pts[j][1]) / d)
        pts.insert(i, (x, z))
    return Mb, M


def check_case(case):
    """returns (violations, info); info["known"] holds the known-finding records"""
    vs = []
    info = {"known": []}
    n, m, r, eps = case["n"], case["m"], case["r"], case["eps"]
    ex = objectives.exact_min_and_L(case["spec"], n)
    if ex is None:
        info["class"] = "no-exact-minimum"
        return vs, info
    fmin, L = ex
    if case.get("resume"):
        # a resumed search: the solver is BUILT with a small budget, Solve stops on it, then itersLimit of the same parameters
        # object is raised and the search continued
        # (case["refine_first"]: the first phase ends with a local refinement of its optimum, refineSolution=True; the continuation
        # then goes on with the global search and must report whatever is smallest)
        run = oc.Run(dict(case, lim=case["resume"], eps=case.get("resume_eps", case["eps"]), refine=bool(case.get("refine_first"))),
                     cap=4 * max(case["lim"], 16) + 5000)
    else:
        run = oc.Run(case)
    Mb = None
    err = None
    try:
        if case.get("resume"):
            run.solve()
            run.solver.parameters.itersLimit = case["lim"]
            run.solver.parameters.eps = case["eps"]         # (also tightened in place when the first phase ran with a looser eps)
            if case.get("refine_first") == "once":
                run.solver.parameters.refineSolution = False     # the continuation is a pure global search
        for k_ in case.get("pre_batches") or ():
            # the user drives the first iterations in batches through DoGlobalIteration(k > 1) and lets Solve() finish
            if run.stopped():
                break
            Mb = float(run.solver.method.M[0])
            if not run.iterate(k_):
                break
        while not run.stopped():
            Mb = float(run.solver.method.M[0])
            if not run.iterate(1):
                break
        sol = run.solve()
    except BaseException as e:                 # noqa
        err = repr(e)
        sol = None
    if run.trouble(err):
        vs.append(oc.violation(PROP, case, "no-internal-error", run.trouble(err)))
        return vs, info
    info["float_collapse"] = bool(run.collapsed)
    g = run.glog()
    info["trials"] = len(g)
    Mb_obs, Mf_obs = observed_M(run, n)
    info["M_method"] = float(run.solver.method.M[0])
    # the statement's M is the largest slope SEEN (floored at 1), recomputed here from the history; the method's own estimate
    # is compared with it by the C02 oracle
    Mf = Mf_obs
    Mb = Mb_obs if Mb is not None else None
    acc = sol.solutionAccuracy
    _, best = oc.best_of(sol)
    if g and case.get("refine_first") and not run.collapsed:
        # with a refinement on the way the result may be smaller than every global trial (the refined value), never larger
        if not best <= min(e[2] for e in g):
            vs.append(oc.violation(PROP, case, "returned-is-best", {"returned": best, "min_logged_global": min(e[2] for e in g),
                                                                    "note": "a local refinement ended the first phase"}))
    elif g and best != min(e[2] for e in g):
        vs.append(oc.violation(PROP, case, "returned-is-best", {"returned": best, "min_logged": min(e[2] for e in g)}))
    K = oc.K_N(n)
    info.update(L=L, K=K, M_before=Mb, M_final=Mf, flat=K * L <= r)
    # "Solve stops because the requested accuracy was reached": it stopped although budget was left (or, budget exhausted,
    # the reported accuracy is below eps anyway)
    by_accuracy = (len(g) < case["lim"] and run.stopped()) or acc < eps
    if not by_accuracy or run.collapsed or not (0 < eps < 1) or len(g) < 2:
        info["class"] = "no-accuracy-stop"
        return vs, info
    if not (r * Mf >= K * L):
        info["class"] = "unreliable"
        return vs, info
    info["class"] = "flat" if K * L <= r else "reliable-by-M"
    grid = 0.0 if n == 1 else L * 2.0 ** (-m) * (math.sqrt(n + 3.0) + math.sqrt(n) / 2.0)
    bound = (r * Mf / 2.0) * eps + grid
    gap = best - fmin
    info.update(gap=gap, bound=bound, ratio=gap / bound if bound > 0 else None)
    if gap > bound * (1 + 1e-9) + 1e-12:
        obs = {"best": best, "true_min": fmin, "gap": gap, "bound": bound, "L": L, "K_N": K, "M_before_last_trial": Mb,
               "M_final": Mf, "r*M_before": None if Mb is None else r * Mb, "r*M_final": r * Mf, "K_N*L": K * L, "trials": len(g),
               "accuracy": float(acc)}
        if Mb is not None and r * Mb < K * L <= r * Mf:
            info["known"].append(dict(oc.violation(PROP, case, "eps-optimal", obs), key=KNOWN_KEY))
        else:
            vs.append(oc.violation(PROP, case, "eps-optimal", obs))
    return vs, info


def witness_neighbour(r):
    """relatives of the known-finding witness, built adaptively: run f(x) = x with the chosen (r, eps), put a thin spike
    under the LAST trial point only (no earlier trial sees it) and a wide dip inside the largest unexplored interval"""
    rr = round(r.uniform(2.1, 4.0), 2)
    eps = r.choice([0.03, 0.02, 0.01, 0.005, 0.002])
    base = oc.gen_case(r, n=1, spec={"kind": "needle", "spikes": [], "trend": 1.0}, box=([0.0], [1.0]), lim=1000, eps=eps,
                       rr=rr, m=10)
    probe = oc.Run(base)
    probe.solve()
    xs = [h[0] for h in probe.history()[0]]
    if len(xs) < 3:
        return base
    xT = xs[-1]
    d = min(abs(xT - o) for o in xs[:-1] + [0.0, 1.0])
    srt = sorted(xs + [0.0, 1.0])
    gaps = [(b - a, a, b) for a, b in zip(srt, srt[1:]) if xT not in (a, b)]
    g, a, b = max(gaps)
    spikes = [(xT, d * r.uniform(0.6, 0.95), round(r.uniform(3, 14), 2)),
              ((a + b) / 2, g / 2 * r.uniform(0.5, 0.95), round(r.uniform(3, 14), 2))]
    return dict(base, spec={"kind": "needle", "spikes": spikes, "trend": 1.0})


def sawtooth(r):
    """N = 1, slope +-L everywhere with 2L = r*M (M = 1): the reliability condition holds with equality and the teeth are
    about as wide as the intervals left when the search stops - the instances on which the bound is least slack"""
    rr = round(r.uniform(1.05, 1.9), 2)
    eps = r.choice([0.1, 0.05, 0.02, 0.01, 0.005])
    nt = max(2, int(1.0 / (eps * r.uniform(0.6, 4.0))))
    ts = sorted({0.0, 1.0} | {round((i + r.uniform(0.3, 0.7)) / nt, 6) for i in range(nt)})
    L = rr / 2.0 * r.choice([1.0, 1.0, 0.98])
    vals, sgn = [0.0], r.choice([-1, 1])
    for a, b in zip(ts, ts[1:]):
        vals.append(vals[-1] + sgn * L * (b - a))
        sgn = -sgn
    spec = {"kind": "pwlsum", "knots": [[(t, v) for t, v in zip(ts, vals)]]}
    return oc.gen_case(r, n=1, spec=spec, eps=eps, lim=2500, rr=rr)


def flat_well(r):
    """N = 1, an almost flat ramp with one or two narrow wells whose slopes keep 2L <= r: the bound is unconditional, every
    slope the search sees before it meets a well is far below 1 (only the floor M >= 1 keeps the search global)"""
    rr = round(r.uniform(2.05, 4.5), 2)
    eps = r.choice([0.03, 0.02, 0.01, 0.005])
    trend = r.choice([0.0, 0.002, 0.01, 0.05, -0.01])
    sp = []
    for _ in range(r.randint(1, 2)):
        c = round(r.uniform(0.05, 0.95), 4)
        w = round(r.uniform(0.01, 0.08), 4)
        h = round(r.uniform(0.4, 1.0) * (rr / 2.0 - abs(trend)), 4)
        if all(abs(c - c2) > w + w2 + 1e-3 for c2, w2, _ in sp):
            sp.append((c, w, h))
    spec = {"kind": "needle", "spikes": sp, "trend": trend}
    return oc.gen_case(r, n=1, spec=spec, box=([0.0], [1.0]) if r.random() < 0.5 else None, eps=eps, lim=2500, rr=rr)


def gen(r):
    n = r.choice((1, 1, 1, 2, 2, 3, 3, 4, 5))
    u = r.random()
    rr = round(r.uniform(1.05, 6.0), 2)
    if u < 0.08:
        return witness_neighbour(r)
    if 0.08 <= u < 0.16:
        return flat_well(r)
    if u > 0.85:
        return sawtooth(r)
    spec = objectives.gen_spec(r, n, exact_only=True)
    if r.random() < 0.06:
        spec = {"kind": "const", "c": round(r.uniform(-2, 2), 2)}
    if u < 0.68:
        L = objectives.exact_min_and_L(spec, n)[1]
        if L > 0:
            target = rr * r.choice([0.2, 0.5, 0.9, 1.0, 1.0, 1.5, 2.0, 3.0]) / oc.K_N(n)
            spec = oc.scale_spec(spec, target / L)
    case = oc.gen_case(r, n=n, spec=spec, eps=r.choice(EPS_BY_DIM[n]), lim=r.choice([400, 1000, 2500]), rr=rr)
    if r.random() < 0.12:
        case["pre_batches"] = [r.choice([2, 3, 5, 10, 30]) for _ in range(r.randint(1, 3))]
    elif r.random() < 0.15:
        case["resume"] = r.choice([1, 2, 3, 5, 8, 13, 30, 200])
        if r.random() < 0.5:
            case["resume_eps"] = min(0.9, case["eps"] * r.choice([3, 10, 30]))     # the first phase stops on a looser accuracy
        if r.random() < 0.4:
            case["refine_first"] = r.choice([True, "once"])
    return case


def run(tier, r):
    oc.reset_hangs()
    ncases = 1000 if tier == "quick" else 22000
    vs, known, stats, samples, keys = [], [], {}, [], set()
    nontrivial = explored = 0
    worst = 0.0
    cases = [dict(WITNESS)] + [None] * ncases
    for i, case in enumerate(cases):
        if oc.too_many_hangs(stats):
            break
        if case is None:
            case = gen(r)
        v, info = oc.safe(check_case, PROP)(case)
        explored += 1
        vs += v
        known += info.get("known", [])
        oc.bump(stats, "dim%d" % case["n"])
        oc.bump(stats, "kind_" + case["spec"]["kind"])
        oc.bump(stats, "class_" + info.get("class", "error"))
        oc.bump(stats, "float_collapse_stops", 1 if info.get("float_collapse") else 0)
        if info.get("class") in ("flat", "reliable-by-M"):
            oc.bump(stats, "claimed_dim%d" % case["n"])
            if info.get("M_before") is not None and info["M_before"] != info["M_final"]:
                oc.bump(stats, "claimed_runs_where_last_trial_raised_M")
            crossed = info.get("M_before") is not None and case["r"] * info["M_before"] < info["K"] * info["L"]
            if crossed:
                oc.bump(stats, "claimed_runs_in_known_finding_precondition")
            if info.get("ratio") is not None and not crossed:
                worst = max(worst, info["ratio"])
        oc.bump(stats, "trials_total", info.get("trials", 0))
        key = oc.case_key(case)
        if key not in keys:
            keys.add(key)
            if info.get("class") in ("flat", "reliable-by-M"):
                nontrivial += 1
        if i < 3:
            samples.append({"case": case, "info": {k: v for k, v in info.items() if k != "known"}})
    stats["worst_gap_over_bound_outside_known_precondition"] = worst
    stats["known_total"] = len(known)
    return oc.finish(PROP, RULE, explored, nontrivial, vs, stats, samples, known=known)


def replay(v):
    """re-run a recorded violation or known finding; reproduced iff the literal inequality fails again (same class)"""
    vs, info = check_case(v["case"])
    pool = info["known"] if v.get("key") == KNOWN_KEY else vs
    same = [x for x in pool if x["clause"] == v["clause"]]
    return {"reproduced": bool(same), "detail": oc.jsonable(same[:1] or (vs + info["known"])[:1] or "inequality holds on replay")}


if __name__ == "__main__":
    import json, time
    t = time.time()
    tier = sys.argv[1] if len(sys.argv) > 1 else "quick"
    res = run(tier, oc.common.rng("oracle:" + PROP))
    res["wall_s"] = round(time.time() - t, 1)
    res["known"] = res["known"][:2]
    print(json.dumps({k: res[k] for k in res if k not in ("samples", "rule")}, indent=1)[:7000])
