"""C08 - Evolvent is a continuous (Hoelder) space-filling curve.

Clauses tested literally on Evolvent.GetImage (N = 2..5):
 (a) adjacency: the cells of consecutive subintervals i, i+1 differ in exactly one coordinate by exactly one cell
     (integer cell indices, computed exactly), the images are bitwise equal in the other coordinates and differ by
     one cell width (up to the rounding of the affine map) in that coordinate. Exhaustive over ALL i for
     N*m <= 12 (quick) / 18 (thorough); random i for N*m <= 50 incl. i = k*2^(N*j) - 1 (high level boundaries),
     the first and the last pairs.
 (b) nesting: for the same box, the density-(m+1) cell of any x lies inside the density-m cell of x
     (cell_{m+1}(x) >> 1 == cell_m(x) per axis): all 2^N children of every subinterval in the exhaustive part,
     random x (incl. children of boundary subintervals) in the random part.
 (c) Hoelder inequality ||y(x')-y(x'')||_2 <= 2*sqrt(N+3)*|x'-x''|^(1/N)*max side for |x'-x''| >= 2^(-N m),
     compared exactly in rational arithmetic as (sum dy_i^2)^N <= (4(N+3))^N * dx^2 * S^(2N) on the doubles returned
     (right side relaxed by the factor (1+1e-9)^(2N)); pairs are drawn adversarially: dx in
     [2^-(N(M+1)), 2^-(N M)] around a boundary of level M <= m, dx = 2^-(N m) exactly, plus uniform pairs."""
import os
import sys

_H = os.path.dirname(os.path.dirname(os.path.abspath(__file__)))
if _H not in sys.path:
    sys.path.insert(0, _H)
from oracles import o2_common as oc  # noqa: E402
from oracles.o2_common import np, Fraction  # noqa: E402

RULE = ("exhaustive: every (N, m), N in 2..5, N*m <= 12 (quick) / 18 (thorough); exhaustive nesting while N*(m+1) <= 15 (quick) / 18 (thorough), random "
        "box: all consecutive pairs (i, i+1) and all 2^N children of every subinterval; random: (N, m) with N*m <= 50, "
        "random box, pairs i = uniform / k*2^(N*j)-1 / first / last, nesting at random x, Hoelder pairs as described "
        "in the module docstring. A case is one pair (adjacency), one (x, m, m+1) triple (nesting) or one pair "
        "(x', x'') (Hoelder); every case is non-trivial (two different subintervals / two densities / dx > 0); "
        "cases are distinct by (configuration, i) resp. (configuration, x', x'').")


def _adjacent(g, n, ya, yb, i, ctx, viol):
    ca, cb = g.cell(ya), g.cell(yb)
    diff = [a for a in range(n) if ca[a] != cb[a]]
    if len(diff) != 1 or abs(ca[diff[0]] - cb[diff[0]]) != 1:
        viol.append(dict(ctx, what="consecutive subintervals do not map to face-adjacent cells", subinterval=i,
                         cell_i=list(ca), cell_next=list(cb)))
        return
    a = diff[0]
    for b in range(n):
        if b != a and ya[b] != yb[b]:
            viol.append(dict(ctx, what="centres of adjacent cells differ in a second coordinate", subinterval=i, axis=b,
                             y_i=oc.lst(ya), y_next=oc.lst(yb)))
    d = abs(Fraction(float(ya[a])) - Fraction(float(yb[a])))
    w = (Fraction(g.hi[a]) - Fraction(g.lo[a])) / 2 ** g.m
    if abs(d - w) > 2 * g.tol[a]:
        viol.append(dict(ctx, what="centres of adjacent cells are not one cell width apart", subinterval=i, axis=a,
                         distance=float(d), width=float(w)))


def _exhaustive(n, m, lo, hi, viol, nest=True, maxviol=20):
    ev = oc.mk_ev(lo, hi, n, m)
    g = oc.Grid(lo, hi, m)
    tot = 2 ** (n * m)
    ctx = {"mode": "exhaustive", "N": n, "m": m, "lower": lo, "upper": hi}
    cells_m = []
    prev = None
    for i in range(tot):
        y = ev.GetImage(oc.left_end(i, n, m))
        if prev is not None:
            _adjacent(g, n, prev, y, i - 1, ctx, viol)
        cells_m.append(g.cell(y))
        prev = y
        if len(viol) >= maxviol:
            return i, 0
    nested = 0
    if nest and n * (m + 1) <= 50:
        ev2 = oc.mk_ev(lo, hi, n, m + 1)
        g2 = oc.Grid(lo, hi, m + 1)
        for j in range(tot * 2 ** n):
            c2 = g2.cell(ev2.GetImage(oc.left_end(j, n, m + 1)))
            par = cells_m[j >> n]
            nested += 1
            if tuple(c >> 1 for c in c2) != par:
                viol.append(dict(ctx, what="density m+1 cell not inside the density m cell of its subinterval",
                                 child_subinterval=j, cell_child=list(c2), cell_parent=list(par)))
                if len(viol) >= maxviol:
                    break
    return tot - 1, nested


def _pick_pair_index(r, n, m):
    tot = 2 ** (n * m)
    u = r.random()
    if u < 0.25:
        return r.randrange(tot - 1)
    if u < 0.32:
        return r.choice([0, 1, tot - 2, max(0, tot - 3)])
    l = r.randint(0, m - 1) if m > 1 else 0
    blk = 2 ** (n * l)
    k = r.randrange(1, max(2, tot // blk))
    i = k * blk - 1
    return min(max(i, 0), tot - 2)


def hoelder_holds(n, ys1, ys2, x1, x2, maxside):
    """exact: (sum dy^2)^N <= (4(N+3))^N * dx^2 * S^(2N) * (1+1e-9)^(2N)"""
    d2 = sum((Fraction(float(a)) - Fraction(float(b))) ** 2 for a, b in zip(ys1, ys2))
    dx = abs(Fraction(x1) - Fraction(x2))
    S = Fraction(maxside)
    rhs = Fraction(4 * (n + 3)) ** n * dx ** 2 * S ** (2 * n) * Fraction(1 + 1e-9) ** (2 * n)
    return d2 ** n <= rhs, d2, dx


def _hoelder_pair(r, n, m):
    """(x', x'') with |x'-x''| >= 2^-(n m)"""
    tot = 2 ** (n * m)
    for _ in range(100):
        u = r.random()
        if u < 0.15:
            x1, x2 = r.random(), r.random()
        elif u < 0.3:
            i = _pick_pair_index(r, n, m)
            x1 = oc.left_end(i, n, m) + r.random() / tot * r.choice([0, 1])
            x2 = x1 + 1.0 / tot
        else:
            M = r.randint(0, m)          # level whose boundary we straddle
            blk = 2.0 ** (-n * M)
            k = r.randrange(1, 2 ** (n * M)) if M > 0 else r.choice([0, 1])
            b = k * blk                  # a boundary of level M (or an end of [0,1])
            lo_dx = max(2.0 ** (-n * (M + 1)), 1.0 / tot) if M < m else 1.0 / tot
            dx = lo_dx * (1 + r.random() * r.choice([0, 1e-6, 0.5, 2 ** n - 1]))
            off = dx * r.choice([0.0, 0.5, 1.0, r.random()])
            x1 = b - off
            x2 = x1 + dx
        if x1 > x2:
            x1, x2 = x2, x1
        if 0.0 <= x1 and x2 <= 1.0 and Fraction(x2) - Fraction(x1) >= Fraction(1, tot):
            return x1, x2
    return 0.0, 1.0


def _random_config(r, viol, stats, counts):
    n, m = oc.gen_nm(r, 50, 1, ns=(2, 3, 4, 5, 6, 7))
    lo, hi = oc.gen_box(r, n)
    m = oc.common.cap_density(lo, hi, m)
    ev = oc.mk_ev(lo, hi, n, m)
    g = oc.Grid(lo, hi, m)
    ctx = {"mode": "random", "N": n, "m": m, "lower": lo, "upper": hi}
    tot = 2 ** (n * m)
    sample = {"N": n, "m": m, "lower": lo, "upper": hi, "pairs": [], "hoelder": []}
    if tot > 1:
        for _ in range(4):
            i = _pick_pair_index(r, n, m)
            xa = oc.left_end(i, n, m) + (r.random() / tot if r.random() < 0.5 else 0.0)
            xb = oc.left_end(i + 1, n, m) + (r.random() / tot if r.random() < 0.5 else 0.0)
            if oc.subinterval(xa, n, m) != i or oc.subinterval(xb, n, m) != i + 1:
                xa, xb = oc.left_end(i, n, m), oc.left_end(i + 1, n, m)
            _adjacent(g, n, ev.GetImage(xa), ev.GetImage(xb), i, dict(ctx, xa=xa.hex(), xb=xb.hex()), viol)
            counts["adjacency"] += 1
            sample["pairs"].append(i)
    if n * (m + 1) <= 50:
        ev2 = oc.mk_ev(lo, hi, n, m + 1)
        g2 = oc.Grid(lo, hi, m + 1)
        for _ in range(3):
            if r.random() < 0.5:
                x = r.random()
            else:
                i = _pick_pair_index(r, n, m) + r.choice([0, 1])
                x = (i + r.choice([0.0, r.random(), 1 - 2.0 ** -(n + 1)])) / tot
                x = min(max(x, 0.0), 1.0)
            c1, c2 = g.cell(ev.GetImage(x)), g2.cell(ev2.GetImage(x))
            counts["nesting"] += 1
            if tuple(c >> 1 for c in c2) != c1:
                viol.append(dict(ctx, what="density m+1 cell not inside the density m cell of its subinterval",
                                 x=float(x).hex(), cell_child=list(c2), cell_parent=list(c1)))
    maxside = max(g.side)
    for _ in range(5):
        x1, x2 = _hoelder_pair(r, n, m)
        y1, y2 = ev.GetImage(x1), ev.GetImage(x2)
        ok, d2, dx = hoelder_holds(n, y1, y2, x1, x2, maxside)
        counts["hoelder"] += 1
        ratio = float(d2) ** 0.5 / (2 * (n + 3) ** 0.5 * float(dx) ** (1.0 / n) * maxside)
        stats["max_hoelder_ratio"] = max(stats["max_hoelder_ratio"], ratio)
        sample["hoelder"].append([x1.hex(), x2.hex()])
        if not ok:
            viol.append(dict(ctx, what="Hoelder inequality violated", x1=float(x1).hex(), x2=float(x2).hex(),
                             y1=oc.lst(y1), y2=oc.lst(y2), distance=float(d2) ** 0.5, ratio_to_bound=ratio))
    stats["dims"][str(n)] = stats["dims"].get(str(n), 0) + 1
    stats["nm_hist"][str(n * m // 10 * 10)] = stats["nm_hist"].get(str(n * m // 10 * 10), 0) + 1
    return sample


def run(tier, r):
    bud = oc.Budget(oc.tier_seconds(tier, 90.0, 1500.0))     # safety cap only; counts are fixed
    nrandom = 5500 if tier == "quick" else 60000
    lim = 12 if tier == "quick" else 18
    viol, samples = [], []
    stats = {"exhaustive_configs": [], "dims": {}, "nm_hist": {}, "max_hoelder_ratio": 0.0}
    counts = {"adjacency": 0, "nesting": 0, "hoelder": 0}
    cfgs = sorted([(n, m) for n in (2, 3, 4, 5, 6, 7) for m in range(1, 26) if n * m <= lim], key=lambda c: c[0] * c[1])
    for n, m in cfgs:
        if bud.over(0.8):
            stats.setdefault("exhaustive_skipped_for_time", []).append([n, m])
            continue
        lo, hi = oc.gen_box(r, n)
        # nesting doubles the cost by 2^N: exhaustive nesting only while the child level stays within the limit + N
        pairs, nested = _exhaustive(n, m, lo, hi, viol, nest=(n * (m + 1) <= (lim + 3 if tier == "quick" else lim)))
        counts["adjacency"] += pairs
        counts["nesting"] += nested
        stats["exhaustive_configs"].append([n, m, pairs, nested])
        if not samples:
            samples.append({"mode": "exhaustive", "N": n, "m": m, "lower": lo, "upper": hi})
        if len(viol) >= 20:
            break
    k = 0
    while k < nrandom and len(viol) < 40:
        if bud.over():
            stats["truncated_by_time"] = True
            break
        s = _random_config(r, viol, stats, counts)
        k += 1
        if len(samples) < 3:
            samples.append(s)
    stats["random_configs"] = k
    stats["counts"] = counts
    for v in viol:
        v["property"] = "C08"
    explored = sum(counts.values())
    return {"explored": explored, "distinct_nontrivial": explored, "rule": RULE, "violations": viol[:40], "known": [],
            "stats": stats, "samples": samples}


def replay(case):
    n, m, lo, hi = case["N"], case["m"], case["lower"], case["upper"]
    ev = oc.mk_ev(lo, hi, n, m)
    g = oc.Grid(lo, hi, m)
    viol = []
    w = case.get("what", "")
    if w.startswith("Hoelder"):
        x1, x2 = float.fromhex(case["x1"]), float.fromhex(case["x2"])
        y1, y2 = ev.GetImage(x1), ev.GetImage(x2)
        ok, d2, dx = hoelder_holds(n, y1, y2, x1, x2, max(g.side))
        return {"reproduced": not ok, "detail": {"y1": oc.lst(y1), "y2": oc.lst(y2), "distance": float(d2) ** 0.5}}
    if "density m+1" in w:
        ev2 = oc.mk_ev(lo, hi, n, m + 1)
        g2 = oc.Grid(lo, hi, m + 1)
        if "x" in case:
            x = float.fromhex(case["x"])
        else:
            x = oc.left_end(case["child_subinterval"], n, m + 1)
        c1, c2 = g.cell(ev.GetImage(x)), g2.cell(ev2.GetImage(x))
        return {"reproduced": tuple(c >> 1 for c in c2) != c1, "detail": {"cell_child": list(c2), "cell_parent": list(c1)}}
    i = case["subinterval"]
    xa = float.fromhex(case["xa"]) if "xa" in case else oc.left_end(i, n, m)
    xb = float.fromhex(case["xb"]) if "xb" in case else oc.left_end(i + 1, n, m)
    _adjacent(g, n, ev.GetImage(xa), ev.GetImage(xb), i, {}, viol)
    return {"reproduced": bool(viol), "detail": viol[:2]}
