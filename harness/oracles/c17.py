"""C17 - Evolvent queries are pure.

One Evolvent object receives a random interleaved history (length <= 200) of GetImage / GetInverseImage / GetPreimages /
SetBounds calls; between calls the "caller" sometimes overwrites arrays it owns (arrays it passed in earlier - also the
constructor's and SetBounds' bound arrays - and arrays it got back earlier). Checked after EVERY call:
 (a) the result equals, bit for bit, the result of the same query on a FRESH object built with the bounds currently
     configured (values at the time of construction / SetBounds) and the same density -> no dependence on history,
     no aliasing of the configured bounds with the caller's arrays;
 (b) the argument array of the call is unchanged (bitwise) -> arguments are not modified;
 (c) every array returned by any earlier call and every argument array of any earlier call still equals its snapshot
     (snapshots are updated only by the caller's own overwrites) -> later queries do not change earlier results.
N = 1 (where the scratch vector is reused in place) is included with double weight. Arguments of inverse queries include
arrays previously RETURNED by GetImage (passed back as the same object)."""
import os
import sys

_H = os.path.dirname(os.path.dirname(os.path.abspath(__file__)))
if _H not in sys.path:
    sys.path.insert(0, _H)
from oracles import o2_common as oc  # noqa: E402
from oracles.o2_common import np  # noqa: E402

RULE = ("a case is one history: (N, m) with N in {1,1,2,3,4,5}, N*m <= 50, random box, 2..200 (quick: 2..80) operations "
        "drawn from image (x uniform / dyadic / 0 / 1 / near 1; python float or np.float64), inverse and preimages "
        "(y uniform in the box, a cell face, or an array returned earlier by GetImage passed back as the same object), "
        "setbounds (new random box), scribble (caller overwrites one of its own arrays). Non-trivial: at least 3 "
        "queries of at least 2 different kinds on the same object; distinct by construction (random reals).")


class _Held:
    __slots__ = ("arr", "snap", "role", "step")

    def __init__(self, arr, role, step):
        self.arr, self.snap, self.role, self.step = arr, arr.tobytes(), role, step


def _fresh(cfg_lo, cfg_hi, n, m):
    """the reference: a new object built directly on double arrays, used for one query only"""
    return oc.mk_ev([float(v) for v in cfg_lo], [float(v) for v in cfg_hi], n, m, plain=True)


def gen_history(r, maxlen):
    n = r.choice([1, 1, 2, 3, 4, 5, 6])
    m = r.randint(1, 60 // n)        # N*m > 52 exhausts the mantissa of x: queries must stay pure there too
    lo, hi = oc.gen_box(r, n)
    ctor = "double"
    if r.random() < 0.2:
        # the object is BUILT on an integer-typed box (Python ints or an int64 array), later re-configured with SetBounds
        lo = [r.randint(-3, 0) for _ in range(n)]
        hi = [l + r.choice([1, 2, 4]) for l in lo]
        ctor = r.choice(["int-list", "int64-array"])
    ops = []
    L = r.randint(2, maxlen)
    for _ in range(L):
        u = r.random()
        if u < 0.36:
            v = r.random()
            if v < 0.5:
                x = r.random()
            elif v < 0.7:
                x = r.randrange(2 ** min(n * m, 52) + 1) / 2 ** min(n * m, 52)
            elif v < 0.85:
                x = r.choice([0.0, 1.0, 0.5])
            else:
                x = 1.0 - r.random() * 4e-9
            ops.append(["image", x.hex() if isinstance(x, float) else float(x).hex(), r.choice([False, True, "arr0"])])
        elif u < 0.7:
            kind = "inverse" if r.random() < 0.6 else "preimages"
            v = r.random()
            if v < 0.2:
                ops.append([kind, "buffer", [r.random() for _ in range(n)], r.random() < 0.5])   # the caller's own buffer, overwritten in place
            elif v < 0.35:
                ops.append([kind, "returned", r.random()])           # pass back an array returned earlier
            elif v < 0.75:
                ops.append([kind, "uniform", [r.random() for _ in range(n)]])
            else:
                ops.append([kind, "face", [r.randrange(2 ** min(m, 20) + 1) / 2 ** min(m, 20) for _ in range(n)]])
        elif u < 0.8:
            nlo, nhi = oc.gen_box(r, n)
            ops.append(["setbounds", nlo, nhi])
        else:
            ops.append(["scribble", r.random(), [r.uniform(-1e3, 1e3) for _ in range(n)]])
    return {"N": n, "m": m, "lower": lo, "upper": hi, "ops": ops, "ctor": ctor}


def run_history(h, maxviol=3):
    """returns (violations, kinds of queries made)"""
    n, m = h["N"], h["m"]
    viol = []
    lo_arr = np.array(h["lower"], dtype=np.double)
    hi_arr = np.array(h["upper"], dtype=np.double)
    from iOpt.evolvent.evolvent import Evolvent
    ctor = h.get("ctor", "double")
    if ctor == "int-list":
        ev = Evolvent([int(v) for v in h["lower"]], [int(v) for v in h["upper"]], n, m)
    elif ctor == "int64-array":
        ev = Evolvent(np.array(h["lower"], dtype=np.int64), np.array(h["upper"], dtype=np.int64), n, m)
    else:
        ev = Evolvent(lo_arr, hi_arr, n, m)
    cfg_lo, cfg_hi = list(h["lower"]), list(h["upper"])       # the bounds as configured (values, not arrays)
    held = [_Held(lo_arr, "constructor lower", -1), _Held(hi_arr, "constructor upper", -1)] if ctor == "double" else []
    returned = []
    kinds = {}
    buf = [None, None]

    args0 = []      # 0-d array arguments of earlier GetImage calls: watched like the held arrays, never written by the caller

    def check_held(step, opname):
        for hd in held + args0:
            if hd.arr.tobytes() != hd.snap:
                viol.append({"what": f"array ({hd.role}, from step {hd.step}) changed by a later call",
                             "step": step, "op": opname, "now": oc.lst(hd.arr),
                             "was": oc.lst(np.frombuffer(hd.snap, dtype=hd.arr.dtype))})
                hd.snap = hd.arr.tobytes()

    for step, op in enumerate(h["ops"]):
        k = op[0]
        if k == "image":
            x = float.fromhex(op[1])
            # the coordinate as a Python float, a numpy scalar, or a 0-d ndarray (a mutable object: it must come back unchanged)
            arg = np.array(x) if op[2] == "arr0" else (np.float64(x) if op[2] else x)
            y = ev.GetImage(arg)
            if op[2] == "arr0":
                if float(arg) != x:
                    viol.append({"what": "GetImage modified its argument (a 0-d ndarray)", "step": step, "x": op[1], "after": float(arg).hex()})
                args0.append(_Held(arg, "0-d array argument of GetImage", step))
            want = _fresh(cfg_lo, cfg_hi, n, m).GetImage(x)
            kinds["image"] = kinds.get("image", 0) + 1
            if not isinstance(y, np.ndarray) or y.shape != want.shape or y.tobytes() != want.tobytes():
                viol.append({"what": "GetImage differs from the same query on a fresh object", "step": step, "x": op[1],
                             "got": oc.lst(y), "fresh": oc.lst(want)})
            if any(y is hd.arr for hd in held):
                viol.append({"what": "GetImage returned an array object it had returned / received before", "step": step})
            else:
                held.append(_Held(y, "result of GetImage", step))
                returned.append(y)
            check_held(step, k)
        elif k in ("inverse", "preimages"):
            if op[1] == "returned":
                if not returned:
                    continue
                ya = returned[int(op[2] * len(returned)) % len(returned)]
            elif op[1] == "buffer":
                # ONE coordinate buffer per history (an ndarray, or a Python list), overwritten in place before each use
                vals = [min(max(l + t * (u - l), l), u) for l, u, t in zip(cfg_lo, cfg_hi, op[2])]
                if buf[0] is None:
                    buf[0] = np.array(vals, dtype=np.double)
                    buf[1] = list(vals)
                else:
                    buf[0][:] = vals
                    buf[1][:] = vals
                if op[3]:
                    # list flavour: checked here, separately (a list has no tobytes)
                    f = ev.GetInverseImage if k == "inverse" else ev.GetPreimages
                    x = f(buf[1])
                    fr = _fresh(cfg_lo, cfg_hi, n, m)
                    want = (fr.GetInverseImage if k == "inverse" else fr.GetPreimages)(np.array(vals, dtype=np.double))
                    kinds[k] = kinds.get(k, 0) + 1
                    if buf[1] != vals:
                        viol.append({"what": f"list argument of {k} was modified by the call", "step": step})
                        buf[1][:] = vals
                    if not (float(x) == float(want)):
                        viol.append({"what": f"{k} differs from the same query on a fresh object", "step": step, "y": vals,
                                     "got": float(x).hex(), "fresh": float(want).hex(), "argument": "the caller's list, overwritten in place"})
                    check_held(step, k)
                    if len(viol) >= maxviol:
                        break
                    continue
                ya = buf[0]
            else:
                ya = np.array([l + t * (u - l) for l, u, t in zip(cfg_lo, cfg_hi, op[2])], dtype=np.double)
                ya = np.minimum(np.maximum(ya, np.array(cfg_lo)), np.array(cfg_hi))
                held.append(_Held(ya, f"argument of {k}", step))
            before = ya.tobytes()
            f = ev.GetInverseImage if k == "inverse" else ev.GetPreimages
            x = f(ya)
            fr = _fresh(cfg_lo, cfg_hi, n, m)
            want = (fr.GetInverseImage if k == "inverse" else fr.GetPreimages)(np.frombuffer(before, dtype=np.double).copy())
            kinds[k] = kinds.get(k, 0) + 1
            if ya.tobytes() != before:
                viol.append({"what": f"argument of {k} was modified by the call", "step": step,
                             "before": oc.lst(np.frombuffer(before, dtype=np.double)), "after": oc.lst(ya)})
                for hd in held:
                    if hd.arr is ya:
                        hd.snap = ya.tobytes()
            if not (float(x) == float(want)):
                viol.append({"what": f"{k} differs from the same query on a fresh object", "step": step,
                             "y": oc.lst(np.frombuffer(before, dtype=np.double)), "got": float(x).hex(), "fresh": float(want).hex()})
            check_held(step, k)
        elif k == "setbounds":
            la = np.array(op[1], dtype=np.double)
            ha = np.array(op[2], dtype=np.double)
            ev.SetBounds(la, ha)
            cfg_lo, cfg_hi = list(op[1]), list(op[2])
            held.append(_Held(la, "SetBounds lower", step))
            held.append(_Held(ha, "SetBounds upper", step))
            kinds["setbounds"] = kinds.get("setbounds", 0) + 1
            check_held(step, k)
        elif k == "scribble":
            if not held:
                continue
            hd = held[int(op[1] * len(held)) % len(held)]
            hd.arr[:] = np.array(op[2], dtype=np.double)[:len(hd.arr)]
            hd.snap = hd.arr.tobytes()
            kinds["scribble"] = kinds.get("scribble", 0) + 1
            check_held(step, k)
        if len(viol) >= maxviol:
            break
    return viol, kinds


def run(tier, r):
    bud = oc.Budget(oc.tier_seconds(tier, 90.0, 1500.0))   # safety cap; counts are fixed
    nhist = 3000 if tier == "quick" else 20000
    maxlen = 80 if tier == "quick" else 200
    viol, samples = [], []
    stats = {"dims": {}, "ops": {}, "total_ops": 0, "max_len": 0}
    explored = nontriv = 0
    for i in range(nhist):
        if bud.over():
            stats["truncated_by_time"] = True
            break
        h = gen_history(r, maxlen if i % 10 else 200)
        v, kinds = run_history(h)
        explored += 1
        q = {k: c for k, c in kinds.items() if k in ("image", "inverse", "preimages")}
        if sum(q.values()) >= 3 and len(q) >= 2:
            nontriv += 1
        stats["dims"][str(h["N"])] = stats["dims"].get(str(h["N"]), 0) + 1
        for k, c in kinds.items():
            stats["ops"][k] = stats["ops"].get(k, 0) + c
        stats["total_ops"] += len(h["ops"])
        stats["max_len"] = max(stats["max_len"], len(h["ops"]))
        for x in v:
            x.update({"property": "C17", "history": h})
        viol += v
        if len(samples) < 2 and len(h["ops"]) <= 6:
            samples.append(h)
        if len(viol) >= 12:
            break
    return {"explored": explored, "distinct_nontrivial": nontriv, "rule": RULE, "violations": viol[:12], "known": [],
            "stats": stats, "samples": samples}


def replay(case):
    v, _ = run_history(case["history"], maxviol=50)
    same = [x for x in v if x["what"] == case.get("what")]
    return {"reproduced": bool(same), "detail": (same or v)[:2]}
