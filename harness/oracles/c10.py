"""C10 - the declared optimum of every benchmark instance is its true global minimum.

Per member (family, constructor arguments) the oracle tests the three clauses of the statement literally, every verdict
value coming from the real `Problem.Calculate`:
  (1) |f(declared point) - declared value| <= 1e-4;
  (2) no point of the box (of the feasible set for StronginC3) has a value lower than the declared one by more than
      2e-3*max(1,|f*|): global search = real coarse grid + dense grid (1-D 20 001 points, 2-D 401x401, higher-D 60 000
      uniform + clouds around the declared point + generator hints + axis scans) + bounded local descent
      (scipy 'bounded' scalar / L-BFGS-B + Nelder-Mead with bounds / feasible zoom lattice) from the best grid points;
  (3) some true global minimiser (a point whose value is within 1e-6 of the best value found anywhere) lies within
      0.5% of the box side of the declared point (scaled Euclidean distance): minimisation restricted to that
      neighbourhood of the declared point.
The dense scans use a vectorised evaluator that is validated per instance against Calculate (else the real Calculate
scans a coarser grid); candidates are always re-evaluated and refined through the real Calculate.
"""
import os
import sys
import math
import random
import time

sys.path.insert(0, os.path.dirname(os.path.abspath(__file__)))
import o3_common as oc  # noqa: E402
import numpy as np  # noqa: E402

VAL_TOL = 1e-4
LOW_TOL = 2e-3
LOC_TOL = 0.005
TIE_TOL = 1e-6


def _search_1d(fam, args, p, tr, fast, lo, hi, r, info):
    a, b = float(lo[0]), float(hi[0])
    xs = np.linspace(a, b, 1001)
    vc = np.array([tr([t]) for t in xs])
    info["real_scan"] = len(xs)
    info["range"] = float(np.nanmax(vc[np.isfinite(vc)]) - np.nanmin(vc[np.isfinite(vc)]))
    cands = [(xs[max(i - 1, 0)], xs[min(i + 1, len(xs) - 1)], xs[i]) for i in oc.grid_local_minima(vc, 3)]
    if fast is not None:
        xd = np.linspace(a, b, 20001)
        vd = fast(xd[:, None])
        info["dense_scan"] = "fast:20001"
    else:
        xd = np.linspace(a, b, 4001)
        vd = np.array([tr([t]) for t in xd])
        info["dense_scan"] = "real:4001"
    cands += [(xd[max(i - 1, 0)], xd[min(i + 1, len(xd) - 1)], xd[i]) for i in oc.grid_local_minima(vd, 6)]
    for (l, h, c) in cands:
        oc.refine_1d(tr, float(l), float(h), float(c))


def _search_2d(fam, args, p, tr, fast, lo, hi, r, info, constrained):
    def lattice(m):
        gx = np.linspace(lo[0], hi[0], m)
        gy = np.linspace(lo[1], hi[1], m)
        return np.array([[u, v] for u in gx for v in gy])
    Xc = lattice(33)
    vc = np.array([tr(x) for x in Xc])
    fin = vc[np.isfinite(vc)]
    info["real_scan"] = len(Xc)
    info["range"] = float(fin.max() - fin.min()) if len(fin) else 0.0
    cell_c = (hi - lo) / 32
    cands = [(Xc[i], 2 * cell_c) for i in oc.top_distinct(Xc, vc, 2, 2.5 * float(np.max(cell_c)))]
    if fast is not None:
        Xd = lattice(401)
        vd = fast(Xd)
        cell = (hi - lo) / 400
        info["dense_scan"] = "fast:401x401"
    else:
        Xd = lattice(81)
        vd = np.array([tr(x) for x in Xd])
        cell = (hi - lo) / 80
        info["dense_scan"] = "real:81x81"
    cands += [(Xd[i], 2 * cell) for i in oc.top_distinct(Xd, vd, 5, 2.5 * float(np.max(cell)))]
    for (c, h) in cands:
        if constrained:
            oc.zoom_2d(tr, lo, hi, c, h, levels=9, m=6)
        else:
            oc.refine_nd(tr, lo, hi, c)


def _search_nd(fam, args, p, tr, fast, lo, hi, r, info, xd):
    n = len(lo)
    rs = oc.nprs(r)
    side = hi - lo
    Xr = lo + side * rs.rand(400, n)
    vr = np.array([tr(x) for x in Xr])
    info["real_scan"] = len(Xr)
    info["range"] = float(vr.max() - vr.min())
    ev = fast if fast is not None else (lambda X: np.array([tr(x) for x in np.atleast_2d(X)]))
    nuni, ncloud, naxis = (60000, 5000, 201) if fast is not None else (2500, 300, 21)
    clouds = [np.clip(xd + s * side * rs.randn(ncloud, n), lo, hi) for s in (0.02, 0.1, 0.3)]
    X = np.vstack([lo + side * rs.rand(nuni, n)] + clouds)
    v = ev(X)
    info["dense_scan"] = ("fast:" if fast is not None else "real:") + str(len(X))
    hints = []
    if fam == "gkls":
        hints = [np.array(row, dtype=float) for row in p.function.GKLS_minima.local_min]
    elif fam == "shekel4":
        import iOpt.problems.Shekel4.shekel4_generation as g
        hints = [np.clip(np.array(row, dtype=float), lo, hi) for row in g.a]
    hv = [(tr(h), h) for h in hints]
    hv.sort(key=lambda t: t[0])
    starts = [X[i] for i in oc.top_distinct(X, v, 3 if n <= 6 else 1, 0.02 * float(np.max(side)))]
    starts += [h for _, h in hv[:3]]
    # cyclic axis scans (exact for separable objectives) from the declared point and from the best sample
    for s0 in (xd, X[int(np.argmin(v))]):
        c = np.clip(np.array(s0, dtype=float), lo, hi)
        for _ in range(2):
            for i in range(n):
                line = np.repeat(c[None, :], naxis, axis=0)
                line[:, i] = np.linspace(lo[i], hi[i], naxis)
                lv = ev(line)
                c = line[int(np.argmin(lv))].copy()
        starts.append(c)
    info["starts"] = len(starts)
    for s in starts:
        oc.refine_nd(tr, lo, hi, s, nm_iter=(150 * n if n <= 6 else 40 * n))


def _neighbourhood(fam, p, tr, lo, hi, xd, r, constrained):
    """lowest real value within 0.5% (scaled Euclidean) of the declared point, inside the box"""
    n = len(lo)
    side = hi - lo
    nlo = np.maximum(lo, xd - LOC_TOL * side)
    nhi = np.minimum(hi, xd + LOC_TOL * side)
    if np.any(nlo > nhi):
        return math.inf, None
    tr.start_sub(lambda x: math.sqrt(float((((x - xd) / side) ** 2).sum())) <= LOC_TOL * (1 + 1e-9))
    c = np.clip(xd, nlo, nhi)
    tr(c)
    if n == 1:
        xs = np.linspace(nlo[0], nhi[0], 201)
        vs = np.array([tr([t]) for t in xs])
        for i in oc.grid_local_minima(vs, 2):
            oc.refine_1d(tr, float(xs[max(i - 1, 0)]), float(xs[min(i + 1, 200)]), float(xs[i]))
    elif n == 2:
        oc.zoom_2d(tr, nlo, nhi, c, (nhi - nlo) / 2, levels=8 if constrained else 3, m=5)
        if not constrained and tr.sub_bestx is not None:
            oc.refine_nd(tr, nlo, nhi, tr.sub_bestx)
    else:
        rs = oc.nprs(r)
        starts = [c]
        if tr.bestx is not None:
            starts.append(np.clip(tr.bestx, nlo, nhi))
        starts += [nlo + (nhi - nlo) * rs.rand(n) for _ in range(2 if n <= 6 else 0)]
        for s in starts:
            oc.refine_nd(tr, nlo, nhi, s, nm_iter=(150 * n if n <= 6 else 40 * n))
    return tr.stop_sub()


def check_member(fam, args, mseed):
    """returns (violations, info) for one member; deterministic given (fam, args, mseed)"""
    r = random.Random(mseed)
    p = oc.construct(fam, args)
    lo, hi = oc.box(p)
    n = len(lo)
    xd, fstar = oc.declared(p)
    constrained = fam == "stronginc3"
    tr = oc.Tracker(p, lo, hi, 3 if constrained else 0)
    info = {"family": fam, "args": list(args), "n": n, "declared_value": fstar}
    viol = []

    def v(clause, **obs):
        viol.append({"property": "C10", "family": fam, "args": list(args), "mseed": mseed, "clause": clause,
                     "declared_point": oc.jl(xd), "declared_value": fstar, "observed": obs})

    # clause 1 ---------------------------------------------------------------------------------------------------
    v_decl = oc.real_eval(p, xd)
    info["value_at_declared"] = v_decl
    if constrained:
        info["declared_constraints"] = [oc.real_eval(p, xd, j) for j in range(3)]
    if not abs(v_decl - fstar) <= VAL_TOL:
        v("value_at_declared_point", value_at_declared_point=v_decl, difference=v_decl - fstar, tolerance=VAL_TOL)

    # clause 2 ---------------------------------------------------------------------------------------------------
    extra = [np.array(row, dtype=float) for row in p.function.GKLS_minima.local_min] if fam == "gkls" else []
    fast = oc.validated_fast(fam, args, p, r, tr, extra=extra)
    info["fast_path"] = fast is not None
    if n == 1:
        _search_1d(fam, args, p, tr, fast, lo, hi, r, info)
    elif n == 2:
        _search_2d(fam, args, p, tr, fast, lo, hi, r, info, constrained)
    else:
        _search_nd(fam, args, p, tr, fast, lo, hi, r, info, xd)
    slack = LOW_TOL * max(1.0, abs(fstar))
    if tr.best < fstar - slack:
        v("lower_value_exists", point=oc.jl(tr.bestx), value=tr.best, declared_minus_found=fstar - tr.best,
          tolerance=slack)

    # clause 3 ---------------------------------------------------------------------------------------------------
    v_nb, x_nb = _neighbourhood(fam, p, tr, lo, hi, xd, r, constrained)
    info["best"] = tr.best
    info["best_point"] = oc.jl(tr.bestx) if tr.bestx is not None else None
    info["best_near_declared"] = v_nb
    info["real_evaluations"] = tr.n
    if not (v_nb <= tr.best + TIE_TOL):
        side = hi - lo
        v("declared_point_not_near_a_global_minimiser", best_value=tr.best, best_point=info["best_point"],
          best_value_within_0p5pct_of_declared=(None if math.isinf(v_nb) else v_nb),
          scaled_distance_best_to_declared=float(math.sqrt((((tr.bestx - xd) / side) ** 2).sum())),
          tie_tolerance=TIE_TOL)
    return viol, info


def coexisting(mem, tier):
    """"for every instance": the value clause again with ALL members of the run alive at the same time (a benchmark list built
    up-front): every object is constructed first, then each is evaluated at its own declared optimum.  State shared between
    instances (class-level generators or coefficient tables) shows here and nowhere in a one-at-a-time sweep."""
    viol, alive = [], []
    for fam, args in mem:
        obj, err = oc.guarded(oc.construct, fam, args)
        alive.append((fam, args, obj, err))
    n = 0
    for i, (fam, args, obj, err) in enumerate(alive):
        if err is not None or obj is None:
            continue                      # construction failures are reported by the per-member pass
        res, err2 = oc.guarded(lambda: (oc.declared(obj), oc.real_eval(obj, oc.declared(obj)[0])))
        n += 1
        if err2 is not None:
            viol.append({"property": "C10", "family": fam, "args": list(args), "tier": tier, "clause": "value_when_coexisting",
                         "batch": [[f, list(a)] for f, a, _, _ in alive], "index": i, "observed": {"exception": err2}})
            continue
        (xd, fstar), val = res
        if not abs(val - fstar) <= VAL_TOL:
            viol.append({"property": "C10", "family": fam, "args": list(args), "tier": tier, "clause": "value_when_coexisting",
                         "batch": [[f, list(a)] for f, a, _, _ in alive], "index": i, "declared_point": oc.jl(xd),
                         "declared_value": fstar,
                         "observed": {"value_at_declared_point": val, "difference": val - fstar, "tolerance": VAL_TOL,
                                      "note": "all members of the batch were constructed before any was evaluated"}})
    return viol, n


def members_for(tier, r):
    full = tier == "thorough"
    mem = []
    mem += [("hill", (i,)) for i in (range(1000) if full else sorted(r.sample(range(1000), 40)))]
    mem += [("shekel", (i,)) for i in (range(1000) if full else sorted(r.sample(range(1000), 40)))]
    mem += [("shekel4", (i,)) for i in (1, 2, 3)]
    mem += [("grishagin", (i,)) for i in (range(1, 101) if full else sorted(r.sample(range(1, 101), 10)))]
    for d in (2, 3, 4, 5):
        mem += [("gkls", (d, k)) for k in (range(1, 101) if full else sorted(r.sample(range(1, 101), 4)))]
    mem += [("rastrigin", (d,)) for d in (list(range(1, 31)) + [50] if full else [1, 2, 3, 5, 12, 30])]
    mem += [("xsquared", (d,)) for d in (list(range(1, 31)) + [50] if full else [1, 2, 4, 7, 30])]
    mem += [("stronginc3", ())]
    # round-robin over the families (the single-member ones first): a run that is cut short by the deep-search time cap has still
    # looked at every family
    groups = {}
    for fa in mem:
        groups.setdefault(fa[0], []).append(fa)
    order = sorted(groups, key=lambda f_: len(groups[f_]))
    out = []
    while any(groups.values()):
        for f_ in order:
            if groups[f_]:
                out.append(groups[f_].pop(0))
    return out


def run(tier, r):
    t0 = time.time()
    mem = members_for(tier, r)
    violations, samples = [], []
    stats = {"per_family": {}, "dimensions": {}, "fast_path_rejected": 0, "real_evaluations": 0,
             "max_declared_minus_best": {}}
    nontrivial = 0
    cv, cn = coexisting(mem, tier)
    violations += cv[:40]
    stats["coexisting_instances_checked"] = cn
    done = 0
    for fam, args in mem:
        if oc.common.past_oracle_cap() or len(violations) >= 60:
            stats["stopped_early"] = "deep-search time cap or enough violations"
            break
        done += 1
        mseed = r.getrandbits(48)
        res, err = oc.guarded(check_member, fam, args, mseed)
        if err is not None:
            violations.append({"property": "C10", "family": fam, "args": list(args), "mseed": mseed, "tier": tier,
                               "clause": "exception", "observed": err})
            stats["exceptions"] = stats.get("exceptions", 0) + 1
            continue
        viol, info = res
        for c in viol:
            c["tier"] = tier
        violations += viol
        stats["per_family"][fam] = stats["per_family"].get(fam, 0) + 1
        stats["dimensions"][str(info["n"])] = stats["dimensions"].get(str(info["n"]), 0) + 1
        stats["fast_path_rejected"] += 0 if info["fast_path"] else 1
        stats["real_evaluations"] += info["real_evaluations"]
        fstar = info["declared_value"]
        stats["max_declared_minus_best"][fam] = max(stats["max_declared_minus_best"].get(fam, -math.inf),
                                                    fstar - info["best"])
        if info["real_evaluations"] >= 1000 and info.get("range", 0.0) > 1e-6:
            nontrivial += 1
        if len(samples) < 3 and fam in ("hill", "grishagin", "gkls") and not any(s["family"] == fam for s in samples):
            samples.append({k: info[k] for k in ("family", "args", "n", "value_at_declared", "best", "best_point",
                                                  "best_near_declared", "real_evaluations", "dense_scan")})
    stats["wall_s"] = round(time.time() - t0, 1)
    return {"explored": done, "distinct_nontrivial": nontrivial,
            "rule": "members = (family, constructor arguments), all distinct; quick: seeded sample of Hill/Shekel (40 "
                    "each), Grishagin (10), GKLS (4 per dimension), all Shekel4, Rastrigin/XSquared in 5-6 dimensions, "
                    "StronginC3; thorough: every finite member and Rastrigin/XSquared n=1..30,50; before the per-member pass ALL members "
                    "of the run are constructed up-front and each is evaluated at its declared optimum while the others are alive. Non-trivial: the "
                    "search made >= 1000 real evaluations and the objective varies by more than 1e-6 over the scan.",
            "violations": violations, "known": [], "stats": stats, "samples": samples}


def replay(case):
    if case.get("clause") == "value_when_coexisting":
        viol, _ = coexisting([(f, tuple(a)) for f, a in case["batch"]], case.get("tier", "quick"))
        hit = [c for c in viol if c["index"] == case["index"]]
        return {"reproduced": bool(hit), "detail": hit[0]["observed"] if hit else "value clause holds on replay"}
    res, err = oc.guarded(check_member, case["family"], tuple(case["args"]), case["mseed"])
    if err is not None:
        return {"reproduced": case["clause"] == "exception", "detail": err}
    viol, info = res
    hit = [c for c in viol if c["clause"] == case["clause"]]
    return {"reproduced": bool(hit), "detail": hit[0]["observed"] if hit else {"info": info}}
