"""C15 - benchmark evaluation is a pure function of the point.

A case is a random HISTORY of operations on the real problem classes of all eight families:
  construct   a new member (30%: a sibling = another object of a member that already exists)
  eval        evaluate an existing object at a new point (random, box corner, the object's own knownOptimum Point
              object, a GKLS minimiser row, a point on a GKLS sphere); StronginC3 also through its three constraints
  cousin      evaluate ANOTHER member of the same family and dimension at a point some member was evaluated at before
  reuse       overwrite the caller's own coordinate array in place with a new point and evaluate through it again
  revisit     re-evaluate an earlier (member, function, point) on the same object or on a sibling object, with the
              same ndarray or a fresh copy, with a fresh / a reused / a pre-filled value holder
After EVERY operation:
  agrees_with_formula  the objective value equals (1e-7) the closed formula of the member on its own tables (independent reference:
                  a value cached under the wrong key is consistent with itself, not with the formula)
  same_value      a re-evaluation returns bitwise the value first seen for (member, function, point)
  holder          Calculate returns the very FunctionValue object it was given, with the value stored in it, type and
                  functionID untouched
  point           the Point still holds the same ndarray object with unchanged bytes
  module_tables   digests of hill_generation / shekel_generation / shekel4_generation / grishagin_generation tables
  instance_tables digests of every live object's tables (GKLS_minima + generator buffers, Grishagin af/bf/cf/df/icnf,
                  bounds, knownOptimum) are what they were when the object was constructed
"""
import os
import sys
import math
import random
import time
import hashlib

sys.path.insert(0, os.path.dirname(os.path.abspath(__file__)))
import o3_common as oc  # noqa: E402
import numpy as np  # noqa: E402


def _h(arrs):
    h = hashlib.sha256()
    for a in arrs:
        a = np.asarray(a)
        if a.dtype.kind in "fiu":
            h.update(np.ascontiguousarray(a).tobytes())
        else:
            h.update(repr(a.tolist()).encode())
        h.update(b"|")
    return h.hexdigest()


def module_digests():
    import iOpt.problems.Hill.hill_generation as hg
    import iOpt.problems.Shekel.shekel_generation as sg
    import iOpt.problems.Shekel4.shekel4_generation as s4
    import iOpt.problems.grishagin_function.grishagin_generation as gg
    return {
        "hill_generation": _h([hg.aHill, hg.bHill, hg.minHill, hg.maxHill, hg.lConstantHill]),
        "shekel_generation": _h([sg.kShekel, sg.aShekel, sg.cShekel, sg.minShekel, sg.maxHill, sg.lConstantHill]),
        "shekel4_generation": _h([s4.a, s4.c, s4.maxI]),
        "grishagin_generation": _h([gg.rand_minimums, np.array(gg.matcon, dtype=np.int64)]),
    }


def instance_digest(fam, p):
    parts = [np.array([float(v) for v in p.lowerBoundOfFloatVariables]),
             np.array([float(v) for v in p.upperBoundOfFloatVariables]),
             np.array([float(v) for v in p.knownOptimum[0].point.floatVariables]),
             np.array([float(p.knownOptimum[0].functionValues[0].value)]),
             np.array([int(p.numberOfFloatVariables), int(p.dimension), int(p.numberOfObjectives),
                       int(p.numberOfConstraints)])]
    if fam == "gkls":
        f = p.function
        m = f.GKLS_minima
        parts += [m.local_min, m.rho, m.f, m.peak, m.w_rho, f.GKLS_glob.gm_index,
                  np.array([int(f.GKLS_glob.num_global_minima), int(f.isArgSet), int(f.GKLS_dim),
                            int(f.GKLS_num_minima), int(f.rnd_counter)]),
                  f.GKLS_domain_left, f.GKLS_domain_right, f.rnd_num, f.rand_condition,
                  np.array([float(f.GKLS_global_dist), float(f.GKLS_global_radius), float(f.GKLS_global_value),
                            float(f.delta)])]
    elif fam == "grishagin":
        g = p.function
        parts += [g.af, g.bf, g.cf, g.df, g.icnf, np.array([int(g.fn)])]
    elif fam in ("hill", "shekel", "shekel4"):
        parts += [np.array([int(p.fn)])]
    return _h(parts)


_W = [("hill", 3), ("shekel", 3), ("shekel4", 1), ("grishagin", 1), ("gkls", 3), ("rastrigin", 1), ("xsquared", 1),
      ("stronginc3", 1)]


def _new_member(r, grish_all):
    fam = r.choices([f for f, _ in _W], weights=[w for _, w in _W])[0]
    if fam in ("hill", "shekel"):
        return fam, (r.randint(0, 999),)
    if fam == "shekel4":
        return fam, (r.randint(1, 3),)
    if fam == "grishagin":
        ks = range(1, 101) if grish_all else [k for k in range(1, 101) if (k - 1) % 10 <= 2]
        return fam, (r.choice(list(ks)),)
    if fam == "gkls":
        return fam, (r.randint(2, 5), r.randint(1, 100))
    if fam in ("rastrigin", "xsquared"):
        return fam, (r.choice((1, 2, 3, 5, 8)),)
    return fam, ()


def oc_point(arr):
    from iOpt.trial import Point
    return Point(arr, [])


def _new_point(r, fam, inst):
    """(ndarray, tag, point_object_or_None)"""
    p = inst["obj"]
    lo, hi = oc.box(p)
    n = len(lo)
    c = r.random()
    if c < 0.10:
        return None, "own_known_optimum", p.knownOptimum[0].point
    if c < 0.18:
        return np.array([r.choice((l, h)) for l, h in zip(lo, hi)], dtype=np.double), "corner", None
    if c < 0.205:
        # an INTEGER-typed point (list of Python ints / int64 ndarray) with integer coordinates of the box: the same point as its
        # double version, so the same value - also when it is the first point an instance ever sees
        q = [int(r.randint(math.ceil(l), math.floor(h))) if math.ceil(l) <= math.floor(h) else None for l, h in zip(lo, hi)]
        if None not in q:
            arr = np.array(q, dtype=np.int64) if r.random() < 0.5 else list(q)
            return None, "integer_typed", oc_point(arr)
    if c < 0.24:
        # "round" coordinates (multiples of 0.05 / 0.25, integers, the centre): the places where a formula is EXACTLY zero
        # (an active constraint of StronginC3, x = 0 for XSquared / Rastrigin) - a zero result must be stored like any other
        def rnd(l, h):
            q = r.choice((0.05, 0.25, 0.5, 1.0))
            k0, k1 = math.ceil(l / q - 1e-9), math.floor(h / q + 1e-9)
            return min(max(round(r.randint(k0, k1) * q, 2), l), h) if k0 <= k1 else (l + h) / 2
        return np.array([rnd(l, h) for l, h in zip(lo, hi)], dtype=np.double), "round_lattice", None
    if c < 0.28:
        # coordinates of tiny magnitude (products underflow): legal points of every box that contains 0
        tiny = (0.0, -0.0, 1e-200, -1e-200, 5e-324, 1e-310, 1e-160, -1e-160)
        x = [min(max(r.choice(tiny), l), h) if r.random() < 0.7 else r.uniform(l, h) for l, h in zip(lo, hi)]
        return np.array(x, dtype=np.double), "tiny_magnitude", None
    if fam == "gkls" and c < 0.45:
        m = p.function.GKLS_minima
        i = r.randint(0, 9)
        if c < 0.28:
            return np.array(m.local_min[i], dtype=np.double), "gkls_minimiser", None
        u = np.array([r.gauss(0, 1) for _ in range(n)])
        u /= np.linalg.norm(u)
        s = r.choice((1.0, 1 - 1e-9, 1 + 1e-9, 0.5, 0.01, 5e-11 / max(float(m.rho[i]), 1e-30)))
        x = np.clip(np.array(m.local_min[i], dtype=np.double) + s * float(m.rho[i]) * u, lo, hi)
        return x, "gkls_ball", None
    return np.array([r.uniform(l, h) for l, h in zip(lo, hi)], dtype=np.double), "random", None


def run_history(hseed, nops, grish_all=False):
    from iOpt.trial import Point, FunctionValue, FunctionType
    r = random.Random(hseed)
    viol = []
    info = {"ops": {"construct": 0, "sibling": 0, "eval": 0, "revisit": 0, "revisit_on_sibling": 0},
            "families": {}, "point_tags": {}, "holder_modes": {}, "constraint_evals": 0}
    mod0 = module_digests()
    instances = []           # {"fam","args","obj","digest"}
    by_member = {}           # (fam,args) -> [instance indices]
    memo = {}                # (fam,args,kind,bytes) -> (bits, op index)
    visited = []             # [(fam,args,kind,ndarray)]
    shared_holder = {}       # kind -> FunctionValue reused across the whole history

    def v(op_index, clause, op, **obs):
        viol.append({"property": "C15", "hseed": hseed, "nops": nops, "grish_all": grish_all, "op_index": op_index,
                     "clause": clause, "op": op, "observed": obs})

    def do_construct(t, fam, args, sibling):
        p = oc.construct(fam, args)
        fast, _ = oc.guarded(oc.fast_evaluator, fam, args, p)
        dg = instance_digest(fam, p)
        prev = by_member.get((fam, args))
        if prev and instances[prev[0]]["digest0"] != dg:
            v(t, "instance_tables", {"op": "construct", "family": fam, "args": list(args), "sibling": True},
              what="a later object of the same member was constructed with different tables than the first one")
        instances.append({"fam": fam, "args": args, "obj": p, "digest": dg, "digest0": dg, "fast": fast, "buf": None})
        by_member.setdefault((fam, args), []).append(len(instances) - 1)
        info["ops"]["sibling" if sibling else "construct"] += 1
        info["families"][fam] = info["families"].get(fam, 0) + 1
        return {"op": "construct", "family": fam, "args": list(args), "sibling": sibling}

    def do_eval(t, idx, arr, pobj, kind, tag, revisit):
        inst = instances[idx]
        fam, args, p = inst["fam"], inst["args"], inst["obj"]
        point = pobj if pobj is not None else Point(arr, [])
        arr = point.floatVariables
        snap = np.array(arr, dtype=np.double).tobytes()
        mode = r.choice(("fresh", "shared", "prefilled"))
        ftype = FunctionType.OBJECTIV if kind == "obj" else FunctionType.CONSTRAINT
        fid = "" if kind == "obj" else int(kind[1:])
        if mode == "shared":
            fv = shared_holder.setdefault(kind, FunctionValue(ftype, fid))
        else:
            fv = FunctionValue(ftype, fid)
            if mode == "prefilled":
                fv.value = 12345.678
        info["holder_modes"][mode] = info["holder_modes"].get(mode, 0) + 1
        op = {"op": "revisit" if revisit else "eval", "family": fam, "args": list(args), "instance": idx,
              "function": kind, "point": oc.jl(np.frombuffer(snap, dtype=np.double)), "point_tag": tag,
              "holder": mode}
        ret = p.Calculate(point, fv)
        if ret is not fv:
            v(t, "holder", op, what="Calculate did not return the supplied FunctionValue object",
              returned_type=type(ret).__name__)
        val = getattr(ret, "value", None)
        if ret is not fv and getattr(fv, "value", None) != val:
            v(t, "holder", op, what="the value is not stored in the supplied holder", holder_value=repr(fv.value),
              returned_value=repr(val))
        if fv.type != ftype or fv.functionID != fid:
            v(t, "holder", op, what="holder type / functionID changed")
        if point.floatVariables is not arr or np.array(arr, dtype=np.double).tobytes() != snap:
            v(t, "point", op, what="the point was modified by the evaluation",
              after=oc.jl(np.array(point.floatVariables, dtype=np.double)))
        try:
            bits = oc.f2h(float(val))
        except Exception:
            v(t, "holder", op, what="value is not a number", value=repr(val))
            return op
        if kind == "obj" and inst.get("fast") is not None:
            # independent reference: the closed formula of the family on the tables as shipped / as generated at construction
            ref, rerr = oc.guarded(lambda: float(inst["fast"](np.frombuffer(snap, dtype=np.double)[None, :])[0]))
            if rerr is None and math.isfinite(ref) and math.isfinite(float(val)) and \
                    not oc.close(float(val), ref, 1e-7, 1e-9):
                v(t, "agrees_with_formula", op, value=float(val), formula=ref,
                  what="the value differs from the closed formula of this member evaluated on its own tables")
        key = (fam, args, kind, snap)
        if key in memo:
            b0, t0 = memo[key]
            if b0 != bits:
                v(t, "same_value", op, first_value=oc.h2f(b0), first_seen_at_op=t0, value_now=oc.h2f(bits),
                  first_bits=b0, bits_now=bits)
        else:
            memo[key] = (bits, t)
            visited.append((fam, args, kind, np.frombuffer(snap, dtype=np.double).copy()))
        if kind != "obj":
            info["constraint_evals"] += 1
        info["point_tags"][tag] = info["point_tags"].get(tag, 0) + 1
        return op

    def step(t):
        c = r.random()
        if t < 2 or c < 0.16:
            if instances and r.random() < 0.3:
                s = r.choice(instances)
                op = do_construct(t, s["fam"], s["args"], True)
            else:
                fam, args = _new_member(r, grish_all)
                op = do_construct(t, fam, args, (fam, args) in by_member)
        elif c < 0.55 or not visited:
            idx = r.randrange(len(instances))
            fam = instances[idx]["fam"]
            arr, tag, pobj = _new_point(r, fam, instances[idx])
            kind = "obj"
            if fam == "stronginc3" and r.random() < 0.5:
                kind = "c%d" % r.randint(0, 2)
            op = do_eval(t, idx, arr, pobj, kind, tag, False)
            info["ops"]["eval"] += 1
        elif c < 0.63:
            # a point already evaluated on one member, now on ANOTHER member of the same family and dimension
            fam, args, kind, x = r.choice(visited)
            cous = [j for j, it in enumerate(instances) if it["fam"] == fam and it["args"] != args and
                    len(oc.box(it["obj"])[0]) == len(x)]
            if not cous or kind != "obj":
                idx = r.randrange(len(instances))
                arr, tag, pobj = _new_point(r, instances[idx]["fam"], instances[idx])
                op = do_eval(t, idx, arr, pobj, "obj", tag, False)
            else:
                op = do_eval(t, r.choice(cous), x.copy(), None, "obj", "point_of_another_member", False)
                info["ops"]["cousin"] = info["ops"].get("cousin", 0) + 1
            info["ops"]["eval"] += 1
        elif c < 0.70:
            # the caller's coordinate buffer is REUSED: overwritten in place with a new point and evaluated again
            idx = r.randrange(len(instances))
            inst = instances[idx]
            lo, hi = oc.box(inst["obj"])
            if inst["buf"] is None:
                inst["buf"] = np.array([r.uniform(l, h) for l, h in zip(lo, hi)], dtype=np.double)
                op = do_eval(t, idx, inst["buf"], None, "obj", "reused_buffer_first", False)
            else:
                inst["buf"][:] = [r.uniform(l, h) for l, h in zip(lo, hi)]
                op = do_eval(t, idx, inst["buf"], None, "obj", "reused_buffer_overwritten", False)
            info["ops"]["buffer_reuse"] = info["ops"].get("buffer_reuse", 0) + 1
            info["ops"]["eval"] += 1
        else:
            fam, args, kind, x = r.choice(visited)
            cands = by_member[(fam, args)]
            idx = r.choice(cands)
            if len(cands) > 1:
                info["ops"]["revisit_on_sibling"] += 1
            arr = x if r.random() < 0.5 else x.copy()   # the stored array object itself, or a fresh copy
            op = do_eval(t, idx, arr, None, kind, "revisit", True)
            info["ops"]["revisit"] += 1
        return op

    err0 = dict(np.geterr())

    def probe_error_mode(t, op):
        """numpy's process-wide floating-point error mode was changed by the operation: look for a point whose evaluation answers
        differently under the mode the history started with and under the mode left behind (restored afterwards so that the rest
        of the history is judged on its own)"""
        now = dict(np.geterr())
        tiny = (1e-200, -1e-200, 5e-324, 1e-160)
        np.seterr(**err0)
        extra = [{"fam": f, "args": a, "obj": oc.construct(f, a)} for f, a in (("xsquared", (2,)), ("rastrigin", (2,)), ("stronginc3", ()))]
        np.seterr(**now)
        for j, inst in enumerate(instances + extra):
            lo, hi = oc.box(inst["obj"])
            for tv in tiny:
                x = np.array([min(max(tv, l), h) for l, h in zip(lo, hi)], dtype=np.double)
                outs = []
                for mode in (err0, now):
                    np.seterr(**mode)
                    res, e = oc.guarded(lambda: float(inst["obj"].Calculate(Point(x.copy(), []), FunctionValue()).value))
                    outs.append(("raised " + e["error"]) if e else oc.f2h(res))
                np.seterr(**now)
                if outs[0] != outs[1]:
                    v(t, "same_value", dict(op, then="evaluate instance %d (%s%s) at %s" % (j, inst["fam"], list(inst["args"]), oc.jl(x))),
                      what="the operation changed numpy's process-wide error mode; the same evaluation answers differently before and after",
                      error_mode_before=err0, error_mode_after=now, before=outs[0], after=outs[1])
                    return
        # no evaluation was found to answer differently: recorded, not a violation of C15
        info["error_mode_changes_without_witness"] = info.get("error_mode_changes_without_witness", 0) + 1

    def post(t, op):
        """after every operation: module-level and instance tables are what they were"""
        if dict(np.geterr()) != err0:
            probe_error_mode(t, op)
            np.seterr(**err0)
        mod = module_digests()
        for name in mod:
            if mod[name] != mod0[name]:
                v(t, "module_tables", op, module=name)
                mod0[name] = mod[name]
        for j, inst in enumerate(instances):
            d = instance_digest(inst["fam"], inst["obj"])
            if d != inst["digest"]:
                v(t, "instance_tables", op, instance=j, family=inst["fam"], args=list(inst["args"]))
                inst["digest"] = d

    # the first two operations are constructions so that evaluations are possible
    for t in range(nops):
        res, err = oc.guarded(step, t)
        if err is not None:
            # the implementation raised during a construction / evaluation: the history cannot be continued
            v(t, "exception", {"op": "see traceback"}, **err)
            break
        _, err = oc.guarded(post, t, res)
        if err is not None:
            v(t, "exception", res, **err)
            break
        if len(viol) > 20:
            break
    info["instances"] = len(instances)
    info["members_with_siblings"] = sum(1 for k in by_member.values() if len(k) > 1)
    info["distinct_points"] = len(memo)
    return viol, info


def zero_result_cases(r, tier):
    """points where a shipped formula is EXACTLY zero in floating point (x = 0 for XSquared / Rastrigin, the objective of StronginC3
    at (0, 1), an exactly active constraint of StronginC3 on the 0.05-lattice): found by scanning a lattice with the real
    Calculate and a fresh holder.  Returns cases {"kind": "zero_result", family, args, function, point}."""
    from iOpt.trial import Point, FunctionValue, FunctionType
    cases = []
    for fam, args in (("stronginc3", ()), ("xsquared", (1,)), ("xsquared", (3,)), ("rastrigin", (1,)), ("rastrigin", (2,))):
        p = oc.construct(fam, args)
        lo, hi = oc.box(p)
        n = len(lo)
        if n <= 2:
            q = 0.05
            axes = [[min(max(round(k * q, 2), l), h) for k in range(math.ceil(l / q - 1e-9), math.floor(h / q + 1e-9) + 1)]
                    for l, h in zip(lo, hi)]
            pts = [[a] for a in axes[0]] if n == 1 else [[a, b] for a in axes[0] for b in axes[1]]
        else:
            pts = [[0.0] * n, [-0.0] * n]
        kinds = ["obj"] + (["c0", "c1", "c2"] if fam == "stronginc3" else [])
        for kind in kinds:
            found = 0
            for x in pts:
                fv = FunctionValue() if kind == "obj" else FunctionValue(FunctionType.CONSTRAINT, int(kind[1:]))
                fv.value = 1.0
                val, e = oc.guarded(lambda: p.Calculate(Point(np.array(x, dtype=np.double), []), FunctionValue(fv.type, fv.functionID)).value)
                if e is None and val == 0:
                    cases.append({"kind": "zero_result", "family": fam, "args": list(args), "function": kind, "point": x})
                    found += 1
                    if found >= (6 if tier == "quick" else 40):
                        break
    return cases


def check_zero_result(case):
    """the same evaluation through a holder that already holds another number (a reused holder), and through a shared one"""
    from iOpt.trial import Point, FunctionValue, FunctionType
    p = oc.construct(case["family"], tuple(case["args"]))
    kind = case["function"]
    viol = []
    for mode in ("prefilled", "reused_after_another_point"):
        fv = FunctionValue() if kind == "obj" else FunctionValue(FunctionType.CONSTRAINT, int(kind[1:]))
        if mode == "prefilled":
            fv.value = 12345.678
        else:
            lo, hi = oc.box(p)
            p.Calculate(Point(np.array([l + 0.37 * (h - l) for l, h in zip(lo, hi)], dtype=np.double), []), fv)
        before = fv.value
        ret, e = oc.guarded(lambda: p.Calculate(Point(np.array(case["point"], dtype=np.double), []), fv))
        got = None if e else getattr(ret, "value", None)
        if e is not None or ret is not fv or got != 0:
            viol.append({"property": "C15", "clause": "holder", "kind": "zero_result", "case": case, "op": dict(case, holder=mode),
                         "observed": {"what": "the function is exactly 0 at this point (fresh holder), but through a holder that already "
                                              "held another number the value 0 was not stored / returned",
                                      "holder_held_before": repr(before), "holder_value_after": repr(getattr(fv, "value", None)),
                                      "returned_is_the_holder": ret is fv, "error": e}})
    return viol


def run(tier, r):
    t0 = time.time()
    zc, zerr = oc.guarded(zero_result_cases, r, tier)
    zviol = []
    for c in (zc or []):
        zv, e = oc.guarded(check_zero_result, c)
        zviol += zv or []
    max_hist = 80 if tier == "quick" else 300      # fixed schedule: everything is a function of r only
    grish_all = tier == "thorough"
    violations, samples, seen = list(zviol), [], set()
    stats = {"zero_result_points": len(zc or []), "histories": 0, "ops": {}, "families": {}, "point_tags": {}, "holder_modes": {}, "constraint_evals": 0,
             "instances": 0, "distinct_points": 0, "history_lengths": []}
    nontrivial = 0
    for hno in range(max_hist):
        if oc.common.past_oracle_cap() or len(violations) >= 60:
            stats["stopped_early"] = "deep-search time cap or enough violations"
            break
        hseed = r.getrandbits(48)
        nops = r.randint(60, 200) if tier == "quick" else r.randint(100, 600)
        viol, info = run_history(hseed, nops, grish_all)
        for c in viol:
            c["tier"] = tier
        violations += viol
        stats["histories"] += 1
        stats["history_lengths"].append(nops)
        for key in ("ops", "families", "point_tags", "holder_modes"):
            for k2, c in info[key].items():
                stats[key][k2] = stats[key].get(k2, 0) + c
        for key in ("constraint_evals", "instances", "distinct_points"):
            stats[key] += info[key]
        sig = (hseed, nops)
        if sig not in seen and len(info["families"]) >= 3 and info["members_with_siblings"] >= 1 and \
                info["ops"]["revisit"] >= 10 and info["ops"]["revisit_on_sibling"] >= 1:
            nontrivial += 1
        seen.add(sig)
        if len(samples) < 2:
            samples.append({"hseed": hseed, "nops": nops, "info": info})
    ls = stats.pop("history_lengths")
    stats["history_length_min_mean_max"] = [min(ls), round(sum(ls) / len(ls), 1), max(ls)] if ls else []
    stats["wall_s"] = round(time.time() - t0, 1)
    return {"explored": stats["histories"], "distinct_nontrivial": nontrivial,
            "rule": "a case is a seeded history of 60-200 (quick) / 100-600 (thorough) operations "
                    "(16% constructions of which 30% siblings, 39% new evaluations, 45% revisits) over all eight "
                    "families; histories are distinct by seed. Non-trivial: >= 3 families, >= 1 member with two live "
                    "objects, >= 10 revisits of which >= 1 on a member that has a sibling.",
            "violations": violations, "known": [], "stats": stats, "samples": samples}


def _replay_inproc(case):
    if case.get("kind") == "zero_result":
        viol = check_zero_result(case["case"])
        return {"reproduced": bool(viol), "detail": viol[0]["observed"] if viol else {}}
    viol, info = run_history(case["hseed"], case["nops"], case.get("grish_all", False))
    hit = [c for c in viol if c["clause"] == case["clause"] and c["op_index"] == case["op_index"]]
    return {"reproduced": bool(hit), "detail": hit[0]["observed"] if hit else {"violations_found": len(viol)}}


def replay(case):
    """a history starts from freshly imported modules (module-level tables are part of the checked state), so the
    replay runs in a fresh interpreter; in-process only if that is impossible"""
    import json
    import subprocess
    code = ("import sys, json; sys.path.insert(0, %r); import c15; "
            "print('REPLAY' + json.dumps(c15._replay_inproc(json.loads(sys.stdin.read())), default=str))"
            % os.path.dirname(os.path.abspath(__file__)))
    try:
        pr = subprocess.run([sys.executable, "-c", code], input=json.dumps(case, default=str), capture_output=True,
                            text=True, timeout=600)
        for line in pr.stdout.splitlines():
            if line.startswith("REPLAY"):
                return json.loads(line[6:])
    except Exception:
        pass
    return _replay_inproc(case)
