"""C12 - Solver instances are isolated from one another.

A case is a set of 2 or 3 real Solvers (each with its own freshly constructed problem object: custom LoggedProblems from
harness/objectives.py, and the shipped GKLS / Grishagin / Hill / Shekel / Rastrigin / XSquared / Shekel4 / StronginC3
problems, including two instances of the same GKLS / Grishagin function and of different ones; parameters explicit or the
shared default `SolverParameters()` object), each with its own short operation list over
  I1 / I2 / I3 = DoGlobalIteration(k),  S = Solve(),  G = GetResults(),  R = DoLocalRefinement(-1 or 3)
and ONE schedule (an interleaving of the lists; solvers are constructed either all up front or lazily right before their
first operation, i.e. between the steps of the others).
Reference: every solver is run ALONE on the same list ("solo"), recording after each of its operations
  * the complete Calculate log of its problem (phase, point, value - bitwise),
  * the snapshot (best point, best value, numberOfGlobalTrials, numberOfLocalTrials, solutionAccuracy, len(bestTrials))
    of EVERY Solution object it has handed out so far (GetResults / Solve return values), re-read at that moment.
Checked after EVERY step of the interleaved run, for EVERY solver (not only the one that moved): its Calculate log and
the re-read snapshots of all Solution objects it handed out equal the solo records at the solver's own progress.
At the end: final GetResults() snapshot and the trial sequence equal the solo ones.
thorough additionally enumerates ALL interleavings of two short lists (3+3 or 4+3 operations)."""
import os
import sys
import io
import itertools
import contextlib

_H = os.path.dirname(os.path.dirname(os.path.abspath(__file__)))
if _H not in sys.path:
    sys.path.insert(0, _H)
from oracles import o2_common as oc  # noqa: E402
from oracles.o2_common import np  # noqa: E402
import objectives  # noqa: E402
import impl as implmod  # noqa: E402
import problems_stream  # noqa: E402

RULE = ("solver = (problem spec, parameter spec, op list of 2..6 ops over I1,I2,I3,S,G,R); problems: logged objective "
        "(random family / dimension 1..4 / box) 45%, GKLS 20%, Grishagin 12%, other shipped 23%; in 35% of the cases the "
        "second solver gets the SAME shipped function or another index of the same class; parameters: eps in "
        "{0.5..0.003}, r in [1.5,5], itersLimit in {3..60}, evolventDensity 3..12, refineSolution 25%; 10% default "
        "parameters (1-D problems only, so that Solve stays short), 12% of the others the default object with step operations only, 28% ONE "
        "explicit SolverParameters object shared by the solvers of the case; logged problems up to dimension 6 (N*density > 52); 8% "
        "7% a running solver FORKED with copy.deepcopy after 1..5 of its operations, original and copy continuing interleaved (reference for the copy: a solver built afresh making the same operations, no copy involved); 'hash twins' (two configurations differing only in values with equal Python hash: -1/-2, 0.0/-0.0). Schedule: random interleaving (thorough: plus all "
        "interleavings of two lists). Non-trivial: at least two solvers each perform a trial and at least one Solution "
        "object is re-read after another solver has moved. Distinct by the literal case description.")


# ------------------------------------------------------------------------------------------------
def gen_solver_spec(r, like=None, short=False):
    u = r.random()
    if like is not None and like["problem"]["kind"] != "logged":
        pk = dict(like["problem"])
        if r.random() < 0.5:                      # same class, other function
            if pk["kind"] == "gkls":
                pk["args"] = [pk["args"][0], r.randint(1, 100)]
            elif pk["kind"] in ("grishagin",):
                pk["args"] = [r.randint(1, 100)]
            elif pk["kind"] in ("hill", "shekel"):
                pk["args"] = [r.randrange(1000)]
        prob = pk
    elif u < 0.45:
        n = r.choice([1, 1, 2, 2, 3, 4, 5, 6])
        lo, hi = oc.gen_box(r, n)
        prob = {"kind": "logged", "spec": objectives.gen_spec(r, n), "lower": lo, "upper": hi}
    elif u < 0.65:
        prob = {"kind": "gkls", "args": [r.choice([2, 2, 3, 4]), r.randint(1, 100)]}
    elif u < 0.77:
        prob = {"kind": "grishagin", "args": [r.randint(1, 100)]}
    else:
        k = r.choice(["hill", "shekel", "rastrigin", "xsquared", "shekel4", "stronginc3"])
        args = {"hill": [r.randrange(1000)], "shekel": [r.randrange(1000)], "rastrigin": [r.choice([1, 2, 3])],
                "xsquared": [r.choice([1, 2, 3])], "shekel4": [r.choice([1, 2, 3])], "stronginc3": []}[k]
        prob = {"kind": k, "args": args}
    one_d = (prob["kind"] in ("hill", "shekel") or (prob["kind"] == "logged" and len(prob["lower"]) == 1)
             or (prob["kind"] in ("rastrigin", "xsquared") and prob["args"][0] == 1))
    w = r.random()
    if one_d and w < 0.25:
        params = "default"
    elif not one_d and w < 0.12:
        params = "default-steps"        # the shared default parameters object, any dimension: only I/G operations (no Solve)
    elif w < 0.40:
        params = "shared"               # ONE SolverParameters object handed to every solver of the case that says "shared"
    else:
        params = {"eps": r.choice([0.5, 0.1, 0.05, 0.02, 0.01, 0.003]), "r": round(r.uniform(1.5, 5), 2),
                  "itersLimit": r.choice([3, 5, 8, 12, 20, 35, 60]), "evolventDensity": r.randint(3, 12),
                  "refineSolution": r.random() < 0.25}
    nops = r.randint(2, 4 if short else 6)
    ops = [r.choice(["I1", "I1", "I2", "I3", "S", "G", "G", "R"]) for _ in range(nops)]
    if r.random() < 0.12 and any(o in ("G", "S") for o in ops):
        # drop the solver after the last operation that handed out a Solution (the Solution is then read without its solver)
        last = max(j for j, o in enumerate(ops) if o in ("G", "S"))
        ops = ops[:last + 1] + ["D"]
    if params == "default":
        ops = [o for o in ops if o != "R"] or ["I1", "G"]
    if params == "default-steps":
        ops = [o for o in ops if o not in ("R", "S")] or ["I1", "G"]
    if prob["kind"] == "stronginc3":
        pass
    return {"problem": prob, "params": params, "ops": ops}


SHARED_PARAMS = {"eps": 0.02, "r": 3.1, "itersLimit": 25, "evolventDensity": 10, "refineSolution": False}


def build(spec, shared=None, states=None):
    """shared: a one-element list holding the SolverParameters object common to the "shared" solvers of the run (created on
    first use), so that the interleaved run really passes ONE object to several solvers and a solo run its own equal one"""
    from iOpt.solver import Solver
    from iOpt.solver_parametrs import SolverParameters
    p = spec["problem"]
    if p["kind"] == "fork":
        # the caller FORKS a running solver with copy.deepcopy (try another continuation from the same state): the copy is a solver
        # instance of its own - whatever it does later must not reach the original, and vice versa
        import copy
        parent = states[p["of"]] if states is not None else None
        if parent is not None:
            sv = copy.deepcopy(parent["solver"])
            return {"problem": sv.problem, "solver": sv, "held": [], "done": 0, "spec": spec, "owners": None}
        # reference: no copy at all - a solver built afresh makes the parent's first operations, then the fork's own
        par = p["parent"]
        st = build(par)
        for op in par["ops"][:p["after"]]:
            do_op(st, op)
        return {"problem": st["problem"], "solver": st["solver"], "held": [], "done": 0, "spec": spec, "owners": None}
    if p["kind"] == "same":
        # ONE Problem object handed to several solvers (e.g. to compare two values of r on the same problem): whatever a solver
        # attaches to / changes on the problem object reaches the others
        other = states[p["as"]] if states is not None else None
        prob = other["problem"] if other is not None else None
        if prob is None:
            p = p["of"]
    if p["kind"] == "same":
        pass
    elif p["kind"] == "logged":
        fn = objectives.make(p["spec"], p["lower"], p["upper"])
        prob = implmod.LoggedProblem.make(fn, p["lower"], p["upper"])
    else:
        prob = oc.attach_log(problems_stream.construct(p["kind"], tuple(p["args"])))
    if spec["params"] in ("default", "default-steps"):
        sv = Solver(prob)
    elif spec["params"] == "shared":
        shared = shared if shared is not None else [None]
        if shared[0] is None:
            shared[0] = SolverParameters(**SHARED_PARAMS)
        sv = Solver(prob, shared[0])
    else:
        q = spec["params"]
        sv = Solver(prob, SolverParameters(eps=q["eps"], r=q["r"], itersLimit=q["itersLimit"],
                                           evolventDensity=q["evolventDensity"], refineSolution=q["refineSolution"]))
    return {"problem": prob, "solver": sv, "held": [], "done": 0, "spec": spec,
            "owners": {id(sv.task), id(sv.process)}}


class _Gone:
    """stands for a solver the caller has dropped: every later operation on it is a no-op returning nothing new"""
    def DoGlobalIteration(self, k=1):
        pass

    def Solve(self):
        return None

    def GetResults(self):
        return None

    def DoLocalRefinement(self, k=1):
        pass


def do_op(st, op):
    oc.common.beat("oracle: solver operation " + str(op), {"solver_spec": st.get("spec")})
    sv = st["solver"]
    if op == "B" and not isinstance(sv, _Gone):
        # the caller re-targets THIS solver's evolvent to the middle half of its box through the public SetBounds (its own business:
        # its later trials lie there); no other solver - also not one working on the same Problem object - may notice
        ev = sv.evolvent
        lo = np.array([float(v) for v in ev.lowerBoundOfFloatVariables]); hi = np.array([float(v) for v in ev.upperBoundOfFloatVariables])
        ev.SetBounds(lo + 0.25 * (hi - lo), hi - 0.25 * (hi - lo))
        st["done"] += 1
        return
    if isinstance(sv, _Gone):
        st["done"] += 1
        return
    out = io.StringIO()
    with contextlib.redirect_stdout(out):
      try:
        if op[0] == "I":
            sv.DoGlobalIteration(int(op[1:]))
        elif op == "S":
            st["held"].append(sv.Solve())
        elif op == "G":
            st["held"].append(sv.GetResults())
        elif op == "R":
            if sv.GetResults().numberOfGlobalTrials > 0:
                sv.DoLocalRefinement(3)
        elif op == "D":
            # the caller drops the solver (it keeps only the Solutions it was handed); a garbage collection follows
            import gc
            st["solver"] = _Gone()
            del sv
            gc.collect()
      except Exception as e:      # noqa: BLE001 - part of the observable behaviour, compared with the solo run
        st.setdefault("raised", []).append([st["done"], type(e).__name__, str(e)[:80]])
    st["done"] += 1


def observe(st):
    log = [(ph, tuple(oc.f2h(c) for c in pt), oc.f2h(v)) for ph, pt, v in oc.plog(st["problem"], st.get("owners"))]
    snaps = []
    for s_ in st["held"]:
        try:
            snaps.append(oc.solution_snapshot(s_))
        except Exception as e:     # noqa: BLE001 - a Solution that can no longer be read is itself a finding
            snaps.append({"unreadable": f"{type(e).__name__}: {e}"[:120]})
    ids = [next(i for i, t in enumerate(st["held"]) if t is s) for s in st["held"]]
    return {"log": log, "snaps": snaps, "same_object_as": ids, "raised": list(st.get("raised", []))}


def solo(spec):
    st = build(spec)
    rec = [observe(st)]
    for op in spec["ops"]:
        do_op(st, op)
        rec.append(observe(st))
    res_ = st["solver"].GetResults()
    final = None if res_ is None else oc.solution_snapshot(res_)
    return rec, final


def _norm(x):
    import json
    return json.loads(json.dumps(x, default=str))


def solo_json(spec):
    rec, final = solo(spec)
    return _norm([rec, final])


def interleaved(case):
    """the interleaved run alone: after every step the observation of every solver built so far; then the final snapshots"""
    specs = case["solvers"]
    states = [None] * len(specs)
    shared = [None]
    if case["construct"] == "upfront":
        for i in case.get("order", range(len(specs))):
            states[i] = build(specs[i], shared, states)
    steps = []
    for step, who in enumerate(case["schedule"]):
        if states[who] is None:
            states[who] = build(specs[who], shared, states)
        st = states[who]
        do_op(st, specs[who]["ops"][st["done"]])
        steps.append([step, who, [[i, s["done"], observe(s)] for i, s in enumerate(states) if s is not None]])
    finals = []
    for i, s in enumerate(states):
        if s is None:
            s = states[i] = build(specs[i], shared, states)
        res_ = s["solver"].GetResults()
        finals.append([s["done"], None if res_ is None else oc.solution_snapshot(res_)])
    return _norm([steps, finals])


def compare(case, inter, solos):
    specs = case["solvers"]
    steps, finals = inter
    viol = []
    reread_after_other = 0
    for step, who, obs in steps:
        for i, done, ob in obs:
            want = solos[i][0][done]
            bad_ = [j for j, sn in enumerate(ob["snaps"]) if isinstance(sn, dict) and "unreadable" in sn]
            if bad_:
                viol.append({"what": "a Solution handed out earlier can no longer be read", "step": step, "moved": who, "solver": i,
                             "solution_index": bad_[0], "error": ob["snaps"][bad_[0]]["unreadable"]})
            if i != who and ob["snaps"]:
                reread_after_other += 1
            if ob["log"] != want["log"]:
                k = next((j for j, (a, b) in enumerate(zip(ob["log"], want["log"])) if a != b), min(len(ob["log"]), len(want["log"])))
                viol.append({"what": "trial sequence differs from the solo run", "step": step, "moved": who, "solver": i,
                             "first_difference_at_call": k, "got": ob["log"][k:k + 1], "solo": want["log"][k:k + 1],
                             "lengths": [len(ob["log"]), len(want["log"])]})
            if ob["raised"] != want["raised"]:
                viol.append({"what": "exceptions raised differ from the solo run", "step": step, "moved": who, "solver": i,
                             "got": ob["raised"], "solo": want["raised"]})
            if ob["snaps"] != want["snaps"] or ob["same_object_as"] != want["same_object_as"]:
                j = next((j for j, (a, b) in enumerate(zip(ob["snaps"], want["snaps"])) if a != b), None)
                viol.append({"what": "a Solution handed out earlier no longer reports what it reports in the solo run",
                             "step": step, "moved": who, "solver": i, "solution_index": j,
                             "got": None if j is None else ob["snaps"][j], "solo": None if j is None else want["snaps"][j]})
        if viol:
            break
    if not viol:
        for i, (done, fin) in enumerate(finals):
            if done == len(specs[i]["ops"]) and fin != solos[i][1]:
                viol.append({"what": "final result differs from the solo run", "solver": i, "got": fin, "solo": solos[i][1]})
    trials = [len([e for e in solos[i][0][-1]["log"] if e[0] == "global"]) for i in range(len(specs))]
    return viol, {"reread_after_other": reread_after_other, "trials": trials}


def run_case(case, solos=None):
    """returns (violations, info). With case["fresh"] the interleaved run and every solo reference are each made in their OWN
    fresh interpreter: state that leaks between solver instances through class attributes, module globals or shared default
    objects would otherwise contaminate the references too (they run in the same process, after other solvers)."""
    specs = case["solvers"]
    if case.get("fresh"):
        res = oc.fresh_map("c12", "solo_json", specs) + [oc.fresh_call("c12", "interleaved", case)]
        return compare(case, res[-1], res[:-1])
    if solos is None:
        solos = [solo_json(s) for s in specs]
    return compare(case, interleaved(case), solos)


def twin_specs(r):
    """two solvers whose configurations differ ONLY in values that Python hashes alike (-1 and -2; 0.0, -0.0 and 0; 1 and 1.0):
    anything keyed by a hash of the configuration confuses them"""
    n = r.choice([1, 2, 2, 3])
    a, b = r.choice([(-1.0, -2.0), (-1.0, -2.0), (0.0, -0.0), (-2.0, -1.0)])
    hi = [float(r.choice([1, 2, 3]))] * n
    spec = objectives.gen_spec(r, n)
    params = {"eps": r.choice([0.1, 0.05, 0.02]), "r": round(r.uniform(1.5, 5), 2), "itersLimit": r.choice([8, 12, 20]),
              "evolventDensity": r.randint(3, 10), "refineSolution": False}
    ops = [r.choice(["I1", "I2", "I3", "G"]) for _ in range(r.randint(3, 6))]
    mk = lambda lo: {"problem": {"kind": "logged", "spec": spec, "lower": [lo] * n, "upper": list(hi)},
                     "params": dict(params), "ops": list(ops)}
    return [mk(a), mk(b)]


def gen_case(r, short=False):
    k = 2 if (short or r.random() < 0.7) else 3
    twins = big = same_problem = False
    fork = None
    if not short and r.random() < 0.08:
        specs = twin_specs(r)
        k = 2
        twins = True
    elif not short and r.random() < 0.08:
        # two solvers on ONE and the same Problem object (two values of r / eps compared on one problem)
        n = r.choice([1, 2, 2, 3])
        lo, hi = oc.gen_box(r, n)
        pr = {"kind": "logged", "spec": objectives.gen_spec(r, n), "lower": lo, "upper": hi}
        mk = lambda: {"eps": r.choice([0.1, 0.02, 0.01]), "r": round(r.uniform(1.5, 5), 2), "itersLimit": r.choice([8, 12, 20, 35]),
                      "evolventDensity": r.randint(4, 10), "refineSolution": False}
        a_ = {"problem": pr, "params": mk(), "ops": [r.choice(["I1", "I2", "I3", "S", "G"]) for _ in range(r.randint(2, 5))]}
        b_ = {"problem": {"kind": "same", "as": 0, "of": pr}, "params": mk(),
              "ops": [r.choice(["I1", "I2", "I3", "S", "G"]) for _ in range(r.randint(2, 5))]}
        if r.random() < 0.4:
            b_["ops"].insert(r.randrange(len(b_["ops"])), "B")
        specs = [a_, b_]
        k = 2
        same_problem = True
    elif not short and r.random() < 0.06:
        # solver A is driven to the floating-point collapse (an accuracy that doubles cannot reach): its Solve ends through the
        # internal exception handler; solver B evaluates an objective whose numpy arithmetic underflows harmlessly.  Whatever A's
        # way out leaves behind in the process (numpy's error mode, warnings filters) must not reach B
        c0 = round(r.uniform(0.1, 0.9), 3)
        a_ = {"problem": {"kind": "logged", "spec": {"kind": "cone", "p": [c0], "c": round(r.uniform(0.5, 3), 2)}, "lower": [0.0], "upper": [1.0]},
              "params": {"eps": 1e-18, "r": round(r.uniform(1.2, 2.0), 2), "itersLimit": 400, "evolventDensity": 10, "refineSolution": False},
              "ops": ["S", "G"]}
        nb = r.choice([1, 2])
        lo, hi = oc.gen_box(r, nb)
        b_ = {"problem": {"kind": "logged", "spec": {"kind": "npgauss", "c": [round(r.uniform(0.1, 0.9), 3) for _ in range(nb)],
                                                      "k": r.choice([3000.0, 20000.0]), "trend": 0.1}, "lower": lo, "upper": hi},
              "params": {"eps": 0.01, "r": round(r.uniform(2, 4), 2), "itersLimit": 30, "evolventDensity": r.randint(4, 10), "refineSolution": False},
              "ops": ["I2", "I3", "I2", "G"]}
        specs = [a_, b_]
        k = 2
        twins = True          # (references from fresh interpreters: process-wide state also contaminates in-process references)
    elif not short and r.random() < 0.07:
        # a running solver is forked with copy.deepcopy after `after` of its operations; original and copy then go on, interleaved
        n = r.choice([1, 1, 2, 3])
        lo, hi = oc.gen_box(r, n)
        par = {"problem": {"kind": "logged", "spec": objectives.gen_spec(r, n), "lower": lo, "upper": hi},
               "params": {"eps": r.choice([0.05, 0.01, 0.003]), "r": round(r.uniform(1.5, 5), 2), "itersLimit": r.choice([20, 35, 60]),
                          "evolventDensity": r.randint(4, 10), "refineSolution": r.random() < 0.2},
               "ops": [r.choice(["I1", "I2", "I3", "I3", "G"]) for _ in range(r.randint(3, 6))]}
        if r.random() < 0.3:
            par["ops"].append("S")
        after = r.randint(1, len(par["ops"]) - 1)
        if not any(o[0] == "I" for o in par["ops"][:after]):
            par["ops"][0] = "I3"
        frk = {"problem": {"kind": "fork", "of": 0, "after": after, "parent": par}, "params": par["params"],
               "ops": [r.choice(["I1", "I2", "I3", "G", "S", "R"]) for _ in range(r.randint(2, 5))]}
        specs = [par, frk]
        k = 2
        fork = after
    elif not short and r.random() < 0.07:
        # a solver in a high dimension (N * default density 10 > 52) next to others, all on the default / one shared parameters object
        n = r.choice([6, 7])
        lo, hi = oc.gen_box(r, n)
        pk = r.choice(["default-steps", "shared"])
        bigs = {"problem": {"kind": "logged", "spec": objectives.gen_spec(r, n), "lower": lo, "upper": hi}, "params": pk,
               "ops": [r.choice(["I1", "I2", "G"]) for _ in range(r.randint(2, 4))]}
        other = gen_solver_spec(r, short=short)
        other["params"] = pk
        other["ops"] = [o for o in other["ops"] if o not in ("R", "S")] or ["I2", "G"]
        specs = [bigs, other]
        k = 2
        big = True
    else:
        specs = [gen_solver_spec(r, short=short)]
        for _ in range(k - 1):
            specs.append(gen_solver_spec(r, like=specs[0] if r.random() < 0.35 else None, short=short))
    sched = [i for i, s in enumerate(specs) for _ in s["ops"]]
    r.shuffle(sched)
    if specs[0]["params"] != "default" and isinstance(specs[0]["params"], dict) and specs[0]["params"].get("eps") == 1e-18:
        sched = [0] + [i for i in sched if i == 1] + [0]       # A's Solve first, then all of B, then A's GetResults
    order = list(range(k))
    r.shuffle(order)
    case = {"solvers": specs, "schedule": sched, "construct": r.choice(["upfront", "lazy"]), "order": order}
    if same_problem:
        case["construct"], case["order"] = "upfront", [0, 1]
    if fork is not None:
        rest = [0] * (len(specs[0]["ops"]) - fork) + [1] * (len(specs[1]["ops"]) - 1)
        r.shuffle(rest)
        case["schedule"] = [0] * fork + [1] + rest       # the copy is taken right before its first operation (lazy construction)
        case["construct"], case["order"] = "lazy", [0, 1]
    shared_state = any(not isinstance(s_["params"], dict) for s_ in specs)
    refines = sum(1 for s_ in specs if "R" in s_["ops"] or (isinstance(s_["params"], dict) and s_["params"]["refineSolution"]
                                                           and "S" in s_["ops"]))
    if not short and refines >= 2 and r.random() < 0.5:
        shared_state = True         # two local refinements in one process: references from fresh interpreters
    if not short and (twins or big or refines >= 2 and shared_state or (shared_state and r.random() < 0.2) or r.random() < 0.04):
        case["fresh"] = True        # references from fresh interpreters
    return case


def all_interleavings(n0, n1):
    for pos in itertools.combinations(range(n0 + n1), n0):
        s = [1] * (n0 + n1)
        for p in pos:
            s[p] = 0
        yield s


def run(tier, r):
    bud = oc.Budget(oc.tier_seconds(tier, 100.0, 1800.0))   # safety cap; counts are fixed
    ncases = 110 if tier == "quick" else 1500
    nenum = 1 if tier == "quick" else 14
    viol, samples = [], []
    stats = {"problem_kinds": {}, "same_class_pairs": 0, "default_params": 0, "refine": 0, "three_solvers": 0,
             "lazy_construction": 0, "schedules": 0, "enumerated_pairs": 0, "steps": 0, "trials": 0}
    explored = nontriv = 0

    def account(case):
        for s in case["solvers"]:
            k = s["problem"]["kind"]
            stats["problem_kinds"][k] = stats["problem_kinds"].get(k, 0) + 1
            stats["default_params"] += s["params"] in ("default", "default-steps")
            stats["shared_params_object"] = stats.get("shared_params_object", 0) + (s["params"] == "shared")
            stats["refine"] += isinstance(s["params"], dict) and s["params"]["refineSolution"]
        ks = [s["problem"]["kind"] for s in case["solvers"]]
        stats["same_class_pairs"] += len(set(ks)) < len(ks) and ks[0] != "logged"
        stats["three_solvers"] += len(ks) == 3

    def one(case, solos=None, precomputed=None):
        nonlocal explored, nontriv
        v, info = precomputed if precomputed is not None else run_case(case, solos)
        explored += 1
        stats["schedules"] += 1
        stats["steps"] += len(case["schedule"])
        stats["trials"] += sum(info["trials"])
        stats["lazy_construction"] += case["construct"] == "lazy"
        stats["fresh_interpreter_references"] = stats.get("fresh_interpreter_references", 0) + bool(case.get("fresh"))
        if sum(1 for t in info["trials"] if t > 0) >= 2 and info["reread_after_other"] > 0:
            nontriv += 1
        for x in v:
            x.update({"property": "C12", "case": case})
        viol.extend(v)

    cases = [gen_case(r) for _ in range(ncases)]          # the whole schedule is a function of r only
    # cases whose references come from fresh interpreters: several at a time (each spawns its own interpreters), in chunks so
    # that the time budget is respected; their results are used whatever the budget says afterwards
    from concurrent.futures import ThreadPoolExecutor
    fresh = [c for c in cases if c.get("fresh")]
    pre = {}
    with ThreadPoolExecutor(6) as ex:
        for k in range(0, len(fresh), 12):
            if bud.over(0.6):
                stats["fresh_cases_skipped_for_time"] = len(fresh) - k
                break
            chunk = fresh[k:k + 12]
            for c, res in zip(chunk, ex.map(lambda c_: oc.guarded_any(run_case, c_), chunk)):
                pre[id(c)] = res
    for case in cases:
        if id(case) not in pre and case.get("fresh"):
            continue                                  # skipped for time
        if id(case) not in pre and (bud.over() or len(viol) >= 8):
            continue
        if len(viol) >= 8:
            break
        account(case)
        if id(case) in pre:
            res, err = pre[id(case)]
            if err is not None:
                viol.append({"property": "C12", "case": case, "what": "the case could not be run in fresh interpreters", "observed": err})
                explored += 1
                continue
            one(case, precomputed=res)
        else:
            one(case)
        if len(samples) < 2 and len(case["schedule"]) <= 7:
            samples.append(case)
    for _ in range(nenum):
        if bud.over() or len(viol) >= 8:
            break
        base = gen_case(r, short=True)
        base["solvers"] = base["solvers"][:2]
        for s, n in zip(base["solvers"], (r.choice([3, 4]), 3)):
            while len(s["ops"]) < n:
                s["ops"].append(r.choice(["I1", "G", "S", "I2"]))
            del s["ops"][n:]
            if "G" not in s["ops"] and "S" not in s["ops"]:
                s["ops"][r.randrange(n - 1)] = "G"
        account(base)
        solos = [solo_json(s) for s in base["solvers"]]
        stats["enumerated_pairs"] += 1
        for sched in all_interleavings(len(base["solvers"][0]["ops"]), len(base["solvers"][1]["ops"])):
            case = dict(base, schedule=sched, construct=r.choice(["upfront", "lazy"]))
            one(case, solos)
            if len(viol) >= 8:
                break
    return {"explored": explored, "distinct_nontrivial": nontriv, "rule": RULE, "violations": viol[:8], "known": [],
            "stats": stats, "samples": samples}


def _replay_here(case):
    v, _ = run_case(case["case"])
    same = [x for x in v if x["what"] == case.get("what")]
    return {"reproduced": bool(same), "detail": [{k: x[k] for k in x if k != "case"} for x in (same or v)[:2]]}


def replay(case):
    return oc.replay_in_subprocess("c12", case)
