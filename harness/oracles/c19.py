"""C19 - Search-data containers act as an ordered set plus max-priority queues.

Specification used (plain Python, no library code): a list of (x, insertion id) kept sorted by x with ties in insertion
order, and multisets of queue entries (key, item).

Part Q - CharacteristicsQueue through its public API only (Insert / GetBestItem / Clear / IsEmpty / GetLen / GetMaxLen),
maxlen in {None,1,2,3,5}: GetLen/IsEmpty/GetMaxLen agree with the specification; GetBestItem returns (item, key) with
key == the maximum key of the specification multiset and item one of the items queued with that key; a bounded queue
holds min(maxlen, ...) entries and drops a minimum-key entry on overflow (so it retains the top keys; with equal keys the
identity of the dropped entry is left open: the specification keeps the candidates).

Part S - SearchData and SearchDataDualQueue histories: InsertFirstDataItem, then random operations
insert (x in [first.x, last.x), correct right-neighbour hint or no hint, equal coordinates and equal keys frequent),
ClearQueue, RefillQueue, GetDataItemWithMaxGlobalR / MaxLocalR, item.globalR/localR assignments (making entries stale),
FindDataItemByOneDimensionalPoint, GetCount, GetLastItem. After EVERY operation:
  * traversal (`for item in sd`) yields exactly the specification's items (identity) in its order, coordinates are
    non-decreasing, GetLeft/GetRight are the traversal neighbours (None at the ends), GetCount is the number of items;
  * Find(x) is the first item with coordinate > x (None if there is none);
  * the queues (observed read-only through the underlying DEPQ) made exactly the transition the statement allows:
    insert adds (new.R, new) [and (right.R, right) when a hint is given], clear empties, refill = all items with
    their CURRENT characteristics, bounded queues keep the top-maxlen key multiset and only entries that were offered;
    single queue pop: the returned item had an entry whose key was the maximum queued key, exactly that entry left;
    (queue empty -> refill first: the item has the maximal current characteristic);
    dual queue pop: the returned item has a still-current entry whose key is maximal among still-current entries, only
    stale entries with key >= it were discarded (all those with key > it), nothing below was touched, the other queue
    is untouched; if no entry is current: both queues are refilled and the item has the maximal current characteristic.
Part E - every sequence of a fixed small alphabet up to depth 4 (quick) / 5 (thorough), single/dual, maxlen None/2."""
import os
import sys
import math
import itertools
import signal
import contextlib
from collections import Counter

_H = os.path.dirname(os.path.dirname(os.path.abspath(__file__)))
if _H not in sys.path:
    sys.path.insert(0, _H)
from oracles import o2_common as oc  # noqa: E402

RULE = ("a case is one history on one container. Q: 5..60 operations on a CharacteristicsQueue, keys from a small pool "
        "(equal keys frequent) incl. -inf; S: SearchData or SearchDataDualQueue, maxlen in {None,1,2,3,5}, first/last "
        "coordinates 0/1 or random, 3..60 (thorough: ..300) operations, coordinates from a pool of 11 values (equal "
        "coordinates frequent) or uniform, keys from a pool of 7 values or uniform; E: all sequences over an alphabet of "
        "8 operations. Non-trivial: at least one insert and one best-interval request (S, E) resp. one Insert and one "
        "GetBestItem (Q); distinct by the literal operation list. In 15% of the S histories a second container of the same class is "
        "alive and receives its own insertions / best-interval requests between the steps.")

KEY_POOL = [0.0, 1.0, 1.0, 2.5, -1.0, 3.0, 0.5, -math.inf]


def _mk_item(x, g, l):
    from iOpt.method.search_data import SearchDataItem
    from iOpt.trial import Point
    it = SearchDataItem(Point([x], []), x)
    it.globalR = g
    it.localR = l
    return it


def _entries(q):
    """read-only observation of a CharacteristicsQueue: list of (key, item)"""
    return [(k, it) for it, k in q._CharacteristicsQueue__baseQueue]


def _cnt(entries):
    return Counter((k, id(it)) for k, it in entries)


def _keys(entries):
    return sorted((k for k, _ in entries), reverse=True)


def _top(keys, maxlen):
    ks = sorted(keys, reverse=True)
    return ks if maxlen is None else ks[:maxlen]


def _jkey(k):
    return "-inf" if k == -math.inf else ("inf" if k == math.inf else k)


def _ukey(k):
    return -math.inf if k == "-inf" else (math.inf if k == "inf" else float(k))


# =================================================================================================
# Part Q: CharacteristicsQueue, public API only
# =================================================================================================
def gen_q_history(r):
    maxlen = r.choice([None, 1, 2, 3, 5])
    ops = []
    for _ in range(r.randint(5, 60)):
        u = r.random()
        if u < 0.55:
            k = r.choice(KEY_POOL) if r.random() < 0.7 else round(r.uniform(-3, 3), 2)
            ops.append(["insert", _jkey(k), r.randrange(6)])
        elif u < 0.85:
            ops.append(["pop"])
        elif u < 0.92:
            ops.append(["clear"])
        else:
            ops.append(["len"])
    return {"part": "Q", "maxlen": maxlen, "ops": ops}


def run_q_history(h):
    from iOpt.method.search_data import CharacteristicsQueue
    viol = []
    q = CharacteristicsQueue(h["maxlen"])
    maxlen = h["maxlen"]
    items = [_mk_item(i / 10.0, 0.0, 0.0) for i in range(6)]
    spec = {}          # key -> [count, [candidate item indices]]
    npop = nins = 0

    def total():
        return sum(c for c, _ in spec.values())

    def bad(step, what, **kw):
        viol.append(dict({"what": what, "step": step, "op": h["ops"][step]}, **kw))

    for step, op in enumerate(h["ops"]):
        if op[0] == "insert":
            k = _ukey(op[1])
            q.Insert(k, items[op[2]])
            nins += 1
            g = spec.setdefault(k, [0, []])
            g[0] += 1
            g[1].append(op[2])
            if maxlen is not None and total() > maxlen:
                mk = min(spec)
                spec[mk][0] -= 1
                if spec[mk][0] == 0:
                    del spec[mk]
        elif op[0] == "pop":
            if total() == 0:
                if not q.IsEmpty():
                    bad(step, "IsEmpty is false on an empty queue")
                continue
            it, key = q.GetBestItem()
            npop += 1
            mk = max(spec)
            if not (key == mk):
                bad(step, "GetBestItem returned a key that is not the maximal queued key", returned_key=_jkey(key),
                    max_key=_jkey(mk))
                break
            idx = next((i for i, x in enumerate(items) if x is it), None)
            if idx not in spec[mk][1]:
                bad(step, "GetBestItem returned an item that was not queued with the maximal key", item=idx,
                    candidates=list(spec[mk][1]))
                break
            spec[mk][1].remove(idx)
            spec[mk][0] -= 1
            if spec[mk][0] == 0:
                del spec[mk]
        elif op[0] == "clear":
            q.Clear()
            spec = {}
        if q.GetLen() != total():
            bad(step, "GetLen differs from the specification", got=q.GetLen(), want=total())
            break
        if q.IsEmpty() != (total() == 0):
            bad(step, "IsEmpty differs from the specification", got=q.IsEmpty())
            break
        if q.GetMaxLen() != maxlen:
            bad(step, "GetMaxLen differs from the constructor argument", got=q.GetMaxLen())
            break
    return viol, (nins > 0 and npop > 0)


# =================================================================================================
# Part S: SearchData / SearchDataDualQueue
# =================================================================================================
XS_POOL_N = 8


def gen_s_history(r, maxops, dual=None, maxlen="rand"):
    dual = (r.random() < 0.5) if dual is None else dual
    maxlen = r.choice([None, None, 1, 2, 3, 5]) if maxlen == "rand" else maxlen
    if r.random() < 0.7:
        x0, x1 = 0.0, 1.0
    else:
        x0 = round(r.uniform(-5, 5), 2)
        x1 = x0 + round(r.uniform(0.5, 3), 2)
    pool = [x0 + (x1 - x0) * round(r.random(), 2) for _ in range(XS_POOL_N)] + [x0 + (x1 - x0) * t for t in (0.25, 0.5, 0.75)]
    pool = [x for x in pool if x0 <= x < x1] + [x0]

    def key():
        return r.choice(KEY_POOL) if r.random() < 0.6 else round(r.uniform(-3, 3), 2)
    ops = [["first", x0, _jkey(key()), _jkey(key()), x1, _jkey(key()), _jkey(key())]]
    nitems = 2
    for _ in range(r.randint(3, maxops)):
        u = r.random()
        if u < 0.42:
            x = r.choice(pool) if r.random() < 0.7 else x0 + (x1 - x0) * r.random()
            if not (x0 <= x < x1):
                continue
            ops.append(["insert", x, _jkey(key()), _jkey(key()), r.random() < 0.6])
            nitems += 1
        elif u < 0.54:
            ops.append(["popg"])
        elif u < 0.60:
            ops.append(["popl"] if dual else ["popg"])
        elif u < 0.64:
            ops.append(["refill"])
        elif u < 0.67:
            ops.append(["clear"])
        elif u < 0.82:
            ops.append(["setg", r.randrange(nitems), _jkey(key())])
        elif u < 0.92:
            ops.append(["setl" if dual else "setg", r.randrange(nitems), _jkey(key())])
        else:
            ops.append(["find", r.choice(pool + [x0 - 1.0, x0, x1, x1 + 1.0, math.nextafter(x1, -math.inf)])])
    h = {"part": "S", "dual": dual, "maxlen": maxlen, "ops": ops}
    if r.random() < 0.15:
        h["mate"] = True        # a second container of the same class is alive and operated on between the steps
    return h


class _Run:
    def __init__(self, h):
        from iOpt.method.search_data import SearchData, SearchDataDualQueue
        self.h = h
        self.dual = h["dual"]
        self.maxlen = h["maxlen"]
        self.sd = (SearchDataDualQueue if self.dual else SearchData)(None, self.maxlen)
        self.mate = None
        if h.get("mate"):
            # another container (unbounded queue) living next to the one under test: what happens to it must not matter
            self.mate = (SearchDataDualQueue if self.dual else SearchData)(None, None)
            self.mate.InsertFirstDataItem(_mk_item(0.0, 0.0, 0.0), _mk_item(1.0, 7.5, 7.5))
        self.items = []        # by insertion id
        self.order = []        # specification: insertion ids sorted by (x, id)
        self.viol = []
        self.npop = self.nins = 0
        self.stats = Counter()

    def mate_step(self, k):
        if self.mate is None:
            return
        if k % 3 == 0:
            x = ((k * 0.37) % 1.0) or 0.5
            self.mate.InsertDataItem(_mk_item(x, float(k % 7) + 10.0, float(k % 5) + 10.0))
        elif k % 3 == 1:
            self.mate.GetDataItemWithMaxGlobalR()
        elif k % 7 == 2:
            self.mate.RefillQueue()

    # -------------------------------------------------------------- observation
    def gq(self):
        return _entries(self.sd._RGlobalQueue)

    def lq(self):
        return _entries(self.sd._SearchDataDualQueue__RLocalQueue) if self.dual else []

    def idx(self, it):
        return next((i for i, x in enumerate(self.items) if x is it), None)

    def fmt(self, entries):
        return [[_jkey(k), self.idx(it)] for k, it in entries]

    def bad(self, step, what, **kw):
        self.viol.append(dict({"what": what, "step": step, "op": self.h["ops"][step]}, **kw))

    # -------------------------------------------------------------- ordered-set clauses
    def check_order(self, step):
        sd = self.sd
        try:
            trav = []
            for it in sd:
                trav.append(it)
                if len(trav) > len(self.items) + 2:
                    self.bad(step, "traversal does not terminate (cyclic neighbour links)",
                             prefix=[self.idx(t) for t in trav[:12]])
                    return
        except Exception as e:    # noqa: BLE001
            self.bad(step, "traversal raised " + type(e).__name__)
            return
        want = [self.items[i] for i in self.order]
        if len(trav) != len(want) or any(a is not b for a, b in zip(trav, want)):
            self.bad(step, "traversal differs from the ordered-set specification",
                     got=[self.idx(it) for it in trav], want=list(self.order))
            return
        xs = [it.GetX() for it in trav]
        if any(a > b for a, b in zip(xs, xs[1:])):
            self.bad(step, "traversal coordinates are not increasing", xs=xs)
        for j, it in enumerate(trav):
            l = trav[j - 1] if j > 0 else None
            rr = trav[j + 1] if j + 1 < len(trav) else None
            if it.GetLeft() is not l or it.GetRight() is not rr:
                self.bad(step, "neighbour links inconsistent with traversal", item=self.idx(it),
                         left=self.idx(it.GetLeft()), right=self.idx(it.GetRight()))
                break
        if sd.GetCount() != len(want):
            self.bad(step, "GetCount differs from the number of items", got=sd.GetCount(), want=len(want))
        if self.items and sd.GetLastItem() is not self.items[-1]:
            self.bad(step, "GetLastItem is not the item inserted last", got=self.idx(sd.GetLastItem()))

    def spec_find(self, x):
        for i in self.order:
            if self.items[i].GetX() > x:
                return i
        return None

    # -------------------------------------------------------------- queue transition clauses
    def expect_added(self, step, name, before, after, offered):
        """after == before + offered, cut to the top-maxlen keys; entries only from before + offered"""
        pool = _cnt(before + offered)
        ca = _cnt(after)
        if self.maxlen is None:
            if ca != pool:
                self.bad(step, f"{name} queue: entries after the operation are not the old entries plus the offered ones",
                         before=self.fmt(before), after=self.fmt(after), offered=self.fmt(offered))
            return
        if _keys(after) != _top([k for k, _ in before + offered], self.maxlen):
            self.bad(step, f"{name} bounded queue does not retain the highest-priority entries",
                     before=self.fmt(before), after=self.fmt(after), offered=self.fmt(offered), maxlen=self.maxlen)
        elif any(ca[e] > pool[e] for e in ca):
            self.bad(step, f"{name} queue holds an entry that was never offered", before=self.fmt(before),
                     after=self.fmt(after), offered=self.fmt(offered))

    def expect_same(self, step, name, before, after):
        if _cnt(before) != _cnt(after):
            self.bad(step, f"{name} queue changed by an operation that must not touch it", before=self.fmt(before),
                     after=self.fmt(after))

    def all_entries(self, attr):
        return [(getattr(self.items[i], attr), self.items[i]) for i in self.order]

    def expect_refilled(self, step, name, after, attr, minus=None):
        """after == all items with their current characteristic (top-maxlen), optionally minus one popped entry"""
        allk = [k for k, _ in self.all_entries(attr)]
        want = _top(allk, self.maxlen)
        if minus is not None:
            if minus not in want:
                self.bad(step, f"{name}: popped key is not among the refilled keys")
                return
            want.remove(minus)
        if _keys(after) != want:
            self.bad(step, f"{name} queue after refill is not the (top-maxlen) multiset of the current characteristics",
                     after=self.fmt(after), want_keys=[_jkey(k) for k in want])
            return
        for k, it in after:
            if getattr(it, attr) != k or self.idx(it) is None:
                self.bad(step, f"{name} queue after refill holds an entry that is not an item's current characteristic",
                         after=self.fmt(after))
                return

    def pop_single(self, step, before, it, after):
        self.npop += 1
        if self.idx(it) is None:
            self.bad(step, "best-interval request returned an object that is not an item of the container")
            return
        if before:
            self.stats["pop_nonempty"] += 1
            mk = max(k for k, _ in before)
            mine = [k for k, x in before if x is it]
            if mk not in mine:
                self.bad(step, "returned item's queued characteristic is not maximal", item=self.idx(it),
                         its_keys=[_jkey(k) for k in mine], max_key=_jkey(mk), before=self.fmt(before))
                return
            want = _cnt(before)
            want[(mk, id(it))] -= 1
            want += Counter()
            if _cnt(after) != want:
                self.bad(step, "pop did not remove exactly the returned entry", before=self.fmt(before), after=self.fmt(after),
                         item=self.idx(it))
        else:
            self.stats["pop_empty_refill"] += 1
            allk = [k for k, _ in self.all_entries("globalR")]
            if it.globalR != max(allk):
                self.bad(step, "after refilling an empty queue the returned item's characteristic is not maximal",
                         item=self.idx(it), its_key=_jkey(it.globalR), max_key=_jkey(max(allk)))
                return
            self.expect_refilled(step, "global", after, "globalR", minus=it.globalR)

    def pop_dual(self, step, which, it):
        """called after the pop; self._b holds the queues before"""
        self.npop += 1
        attr = "globalR" if which == "g" else "localR"
        oattr = "localR" if which == "g" else "globalR"
        before, obefore = (self._b[0], self._b[1]) if which == "g" else (self._b[1], self._b[0])
        after, oafter = (self.gq(), self.lq()) if which == "g" else (self.lq(), self.gq())
        name, oname = ("global", "local") if which == "g" else ("local", "global")
        if self.idx(it) is None:
            self.bad(step, "best-interval request returned an object that is not an item of the container")
            return
        current = [(k, x) for k, x in before if getattr(x, attr) == k]
        if current:
            self.stats["dual_pop_current"] += 1
            kc = max(k for k, _ in current)
            if not any(x is it and k == kc for k, x in current):
                self.bad(step, f"dual queue: returned item has no still-current {name} entry with the maximal current key",
                         item=self.idx(it), its_characteristic=_jkey(getattr(it, attr)), max_current_key=_jkey(kc),
                         before=self.fmt(before))
                return
            cb, ca = _cnt(before), _cnt(after)
            if any(ca[e] > cb[e] for e in ca):
                self.bad(step, f"dual queue: {name} queue gained entries during a pop", before=self.fmt(before), after=self.fmt(after))
                return
            removed = cb - ca
            if removed[(kc, id(it))] < 1:
                self.bad(step, "dual queue: the returned entry is still queued", after=self.fmt(after))
                return
            removed[(kc, id(it))] -= 1
            removed += Counter()
            byid = {id(x): x for _, x in before}
            for (k, i), c in removed.items():
                x = byid[i]
                if getattr(x, attr) == k:
                    self.bad(step, "dual queue: a still-current entry was discarded", entry=[_jkey(k), self.idx(x)],
                             before=self.fmt(before), after=self.fmt(after))
                    return
                if k < kc:
                    self.bad(step, "dual queue: an entry below the returned key was discarded", entry=[_jkey(k), self.idx(x)])
                    return
                self.stats["stale_discarded"] += c
            for k, x in after:
                if k > kc:
                    self.bad(step, "dual queue: an entry above the returned key survived the pop", entry=[_jkey(k), self.idx(x)],
                             before=self.fmt(before), after=self.fmt(after))
                    return
            self.expect_same(step, oname, obefore, oafter)
        else:
            self.stats["dual_pop_refill"] += 1
            allk = [k for k, _ in self.all_entries(attr)]
            if getattr(it, attr) != max(allk):
                self.bad(step, "dual queue: no current entry was queued, and the returned item's characteristic is not the "
                               "maximum over all items", item=self.idx(it), its_key=_jkey(getattr(it, attr)),
                         max_key=_jkey(max(allk)))
                return
            self.expect_refilled(step, name, after, attr, minus=getattr(it, attr))
            self.expect_refilled(step, oname, oafter, oattr)

    # -------------------------------------------------------------- driver
    def step(self, step, op):
        sd = self.sd
        k = op[0]
        if k == "first":
            a = _mk_item(op[1], _ukey(op[2]), _ukey(op[3]))
            b = _mk_item(op[4], _ukey(op[5]), _ukey(op[6]))
            sd.InsertFirstDataItem(a, b)
            self.items += [a, b]
            self.order = [0, 1]
            self.check_order(step)
            return
        gb, lb = self.gq(), self.lq()
        self._b = (gb, lb)
        if k == "insert":
            x = op[1]
            new = _mk_item(x, _ukey(op[2]), _ukey(op[3]))
            pos = next((j for j, i in enumerate(self.order) if self.items[i].GetX() > x), None)
            if pos is None or pos == 0:
                return          # generator never produces this; an insert outside [first, last) is outside the property
            right = self.items[self.order[pos]]
            if op[4]:
                sd.InsertDataItem(new, right)
                self.stats["insert_hint"] += 1
            else:
                sd.InsertDataItem(new)
                self.stats["insert_nohint"] += 1
            if any(abs(self.items[i].GetX() - x) == 0 for i in self.order):
                self.stats["equal_coordinate_insert"] += 1
            self.items.append(new)
            self.order.insert(pos, len(self.items) - 1)
            self.nins += 1
            offered_g = [(new.globalR, new)] + ([(right.globalR, right)] if op[4] else [])
            self.expect_added(step, "global", gb, self.gq(), offered_g)
            if self.dual:
                offered_l = [(new.localR, new)] + ([(right.localR, right)] if op[4] else [])
                self.expect_added(step, "local", lb, self.lq(), offered_l)
        elif k == "clear":
            sd.ClearQueue()
            if self.gq() or self.lq():
                self.bad(step, "ClearQueue left entries behind", g=self.fmt(self.gq()), l=self.fmt(self.lq()))
        elif k == "refill":
            sd.RefillQueue()
            self.expect_refilled(step, "global", self.gq(), "globalR")
            if self.dual:
                self.expect_refilled(step, "local", self.lq(), "localR")
        elif k == "popg":
            it = sd.GetDataItemWithMaxGlobalR()
            if self.dual:
                self.pop_dual(step, "g", it)
            else:
                self.pop_single(step, gb, it, self.gq())
        elif k == "popl":
            if not self.dual:
                return
            it = sd.GetDataItemWithMaxLocalR()
            self.pop_dual(step, "l", it)
        elif k in ("setg", "setl"):
            if op[1] >= len(self.items):
                return
            setattr(self.items[op[1]], "globalR" if k == "setg" else "localR", _ukey(op[2]))
            self.stats["made_stale"] += 1
        elif k == "find":
            got = sd.FindDataItemByOneDimensionalPoint(op[1])
            want = self.spec_find(op[1])
            if (got is None) != (want is None) or (got is not None and got is not self.items[want]):
                self.bad(step, "covering-interval lookup is not the first item to the right of the query", x=op[1],
                         got=self.idx(got), want=want)
            self.expect_same(step, "global", gb, self.gq())
            self.expect_same(step, "local", lb, self.lq())
        self.check_order(step)


class _Timeout(Exception):
    pass


@contextlib.contextmanager
def _watchdog(seconds):
    """a corrupted linked list or queue makes the container's own loops (Find, Refill, the stale-entry loop) spin
    forever: bound every history"""
    def onalarm(signum, frame):
        raise _Timeout()
    try:
        old = signal.signal(signal.SIGPROF, onalarm)
    except ValueError:          # not in the main thread: no guard available
        yield
        return
    signal.setitimer(signal.ITIMER_PROF, seconds)
    try:
        yield
    finally:
        signal.setitimer(signal.ITIMER_PROF, 0)
        signal.signal(signal.SIGPROF, old)


def run_s_history(h, maxviol=1):
    """stops at the first violation: afterwards specification and container have diverged"""
    oc.common.beat("oracle: container history", {"history": h})
    run_ = _Run(h)
    step = -1
    try:
        with _watchdog(10.0):
            for step, op in enumerate(h["ops"]):
                try:
                    run_.mate_step(step)
                    run_.step(step, op)
                except _Timeout:
                    raise
                except Exception as e:      # noqa: BLE001 - an exception on a well-formed history is itself a finding
                    run_.bad(step, f"operation raised {type(e).__name__}: {e}")
                    break
                if len(run_.viol) >= maxviol:
                    break
    except _Timeout:
        run_.bad(max(step, 0), "the history did not finish within 10 s of CPU time (cyclic links / endless stale-entry loop?)")
    return run_.viol, (run_.nins > 0 and run_.npop > 0), run_.stats


# =================================================================================================
# Part E: all short sequences
# =================================================================================================
ALPHA = [["insert", 0.5, 1.0, 2.0, False], ["insert", 0.25, 2.0, 1.0, False], ["insert", 0.5, 2.0, 0.0, True],
         ["popg"], ["refill"], ["clear"], ["setg", 1, 5.0], ["popl"]]


def enum_histories(depth):
    for dual in (False, True):
        for maxlen in (None, 2):
            for d in range(1, depth + 1):
                for seq in itertools.product(range(len(ALPHA)), repeat=d):
                    if not dual and 7 in seq:
                        continue
                    yield {"part": "E", "dual": dual, "maxlen": maxlen,
                           "ops": [["first", 0.0, 0.0, 0.0, 1.0, 1.0, 1.0]] + [list(ALPHA[a]) for a in seq]}


def run(tier, r):
    bud = oc.Budget(oc.tier_seconds(tier, 90.0, 1500.0))   # safety cap; counts are fixed
    nq = 3000 if tier == "quick" else 30000
    ns = 9000 if tier == "quick" else 60000
    maxops = 60 if tier == "quick" else 300
    depth = 4 if tier == "quick" else 5
    viol, samples = [], []
    stats = {"Q": 0, "S": 0, "E": 0, "variants": {}, "branches": Counter(), "ops_total": 0}
    explored = nontriv = 0

    def record(h, v, nt):
        nonlocal explored, nontriv
        explored += 1
        nontriv += 1 if nt else 0
        stats[h["part"]] += 1
        stats["ops_total"] += len(h["ops"])
        for x in v:
            x.update({"property": "C19", "history": h})
        viol.extend(v)

    for _ in range(nq):
        h = gen_q_history(r)
        v, nt = run_q_history(h)
        record(h, v, nt)
        if len(samples) < 1 and len(h["ops"]) <= 12:
            samples.append(h)
        if len(viol) >= 10:
            break
    for i in range(ns):
        if bud.over() or len(viol) >= 20:
            break
        h = gen_s_history(r, maxops if i % 5 == 0 else min(maxops, 40))
        v, nt, st = run_s_history(h)
        record(h, v, nt)
        stats["branches"].update(st)
        key = f"{'dual' if h['dual'] else 'single'}/maxlen={h['maxlen']}"
        stats["variants"][key] = stats["variants"].get(key, 0) + 1
        if len(samples) < 2 and len(h["ops"]) <= 8:
            samples.append(h)
    for h in enum_histories(depth):
        if bud.over():
            stats["truncated_by_time"] = True
            break
        if len(viol) >= 30:
            break
        v, nt, st = run_s_history(h)
        record(h, v, nt)
        stats["branches"].update(st)
    stats["branches"] = dict(stats["branches"])
    return {"explored": explored, "distinct_nontrivial": nontriv, "rule": RULE, "violations": viol[:30], "known": [],
            "stats": stats, "samples": samples}


def replay(case):
    h = case["history"]
    if h["part"] == "Q":
        v, _ = run_q_history(h)
    else:
        v, _, _ = run_s_history(h)
    same = [x for x in v if x["what"] == case.get("what")]
    return {"reproduced": bool(same), "detail": [{k: x[k] for k in x if k != "history"} for x in (same or v)[:2]]}
