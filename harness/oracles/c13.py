"""C13 - Listener contract: complete, ordered, non-interfering notification.

Part A (derived listeners). Listener subclasses overriding each of the 16 subsets of
{BeforeMethodStart, OnEndIteration, OnMethodStop, OnRefrash} are generated on the fly with type(); 1..3 of them are attached
to a real Solver on a LoggedProblem (dimension 1..4, random objective / box / parameters) which is then driven by a random
batching: a list of DoGlobalIteration(k) (k in 0..5), Solve(), GetResults() calls. Checked:
  * AddListener and every driven call raise nothing (the same batching without listeners raises nothing either);
  * BeforeMethodStart: exactly once iff a trial was made, at a moment when no objective evaluation had happened yet,
    with the solver's Method, before any notification that carries a trial;
  * OnEndIteration: exactly one notification per DoGlobalIteration(k) call, carrying exactly the k trials the objective
    log shows for that call, in order (coordinates and values bitwise); during Solve() one notification per new trial,
    each carrying exactly that trial;
  * OnMethodStop: exactly one per Solve(), it is the last notification of that Solve, its solution argument is the
    object Solve returns and shows (point, value, counts, accuracy) what the returned solution shows; none outside Solve;
  * listeners that do not override a callback: the inherited no-op accepts the call;
  * a second Solver on the same problem data (the listener-free reference) is created before and run while the
    listeners are attached to the first: none of them may be notified by it;
  * non-interference: the complete objective log (global and local phase, bitwise), the GetResults() snapshot after every
    call and the final result are identical to the run of the same batching WITHOUT listeners.
  A few cases inject an objective failure (trial >= 2) into a final Solve (Solve swallows it): OnMethodStop must still
  come once, last.
Part B (shipped listeners), same non-interference comparison plus:
  * ConsoleFullOutputListener(mode full/custom/result, iters): stdout captured; after every Solve the LAST "Result" block
    is parsed and compared with the returned Solution: global / local counts exactly, value and accuracy to the 8
    printed decimals, point to numpy's 8 printed digits;
  * StaticPaintListener (all 4 modes, isPointsAtBottom, indx), StaticNDPaintListener (the 4 mode/calc pairs, varsIndxs),
    AnimationPaintListener, AnimationNDPaintListener: MPLBACKEND=Agg, output into a TemporaryDirectory, plt.show /
    plt.pause patched to no-ops, sklearn's MLPRegressor as seen by static_painter capped at max_iter=30 in quick (the two
    'approximation' modes otherwise need 12-20 s each); the painters' own objective evaluations (phase `other`) are
    counted in stats; trial sequence, result snapshot and the best trial's arrays must equal the listener-free run."""
import os
import sys
import io
import re
import math
import tempfile
import warnings
import contextlib

os.environ.setdefault("MPLBACKEND", "Agg")
_H = os.path.dirname(os.path.dirname(os.path.abspath(__file__)))
if _H not in sys.path:
    sys.path.insert(0, _H)
from oracles import o2_common as oc  # noqa: E402
from oracles.o2_common import np  # noqa: E402
import objectives  # noqa: E402
import impl as implmod  # noqa: E402

RULE = ("late: 60/600 cases in which a passive recording listener (OnEndIteration / OnMethodStop) is attached after 1..3 DoGlobalIteration calls and must from then on be told what a listener attached from the start is told. A: case = (objective spec, box, N in 1..4, eps, r, itersLimit in 1..60, density, refineSolution 20%, listener "
        "subsets (1..3 listeners, each a subset mask 0..15 of overridden callbacks, in 30% of the cases partly inherited from an "
        "intermediate class; 2% long runs of 450/700 trials), batching of 1..6 calls); every 16th "
        "case cycles deterministically through all 16 masks so that each subset is attached alone at least once; "
        "B-console: mode x iters x batching (k >= 1) x dimension; B-paint: painter configuration x dimension, one Solve. "
        "Non-trivial: at least 2 trials and at least one overriding listener (A) / at least 2 trials (B). "
        "Distinct by the literal case.")

CB = ["BeforeMethodStart", "OnEndIteration", "OnMethodStop", "OnRefrash"]


# ------------------------------------------------------------------------------------------------
# building blocks
# ------------------------------------------------------------------------------------------------
def make_listener_class(mask, events, tag, ctx, base_mask=0):
    """Listener subclass overriding the callbacks in `mask`; every override appends to `events`.  The callbacks in
    `base_mask` (a subset of `mask`) are defined in an INTERMEDIATE class between Listener and the class that is instantiated."""
    from iOpt.method.listener import Listener

    def before(self, method):
        events.append({"l": tag, "cb": "before", "calls": ctx["problem"].ncalls_global + len(ctx["problem"].log),
                       "method_ok": method is ctx["solver"].method, "op": ctx["op"]})

    def end(self, savedNewPoints, solution):
        pts = []
        for p in savedNewPoints:
            pts.append(((tuple(oc.f2h(v) for v in p.GetY().floatVariables)), oc.f2h(p.GetZ())))
        events.append({"l": tag, "cb": "end", "points": pts, "op": ctx["op"],
                       "solution_ok": solution is ctx["solver"].GetResults()})

    def stop(self, searchData, solution, status):
        events.append({"l": tag, "cb": "stop", "op": ctx["op"], "solution": solution, "snap": oc.solution_snapshot(solution),
                       "sd_ok": searchData is ctx["solver"].searchData, "status": bool(status)})

    def refrash(self, searchData):
        events.append({"l": tag, "cb": "refrash", "op": ctx["op"]})
    impls = [before, end, stop, refrash]
    if ctx.get("eq_all"):
        # listeners that define value equality (e.g. dataclasses): two DISTINCT listener objects may compare equal
        impls_eq = {"__eq__": lambda self, other: True, "__hash__": lambda self: 7}
    else:
        impls_eq = {}
    base_mask &= mask
    if base_mask:
        mid = type(f"B{base_mask}_{tag}", (Listener,), {CB[i]: impls[i] for i in range(4) if base_mask >> i & 1})
        leaf = {CB[i]: impls[i] for i in range(4) if (mask & ~base_mask) >> i & 1}
        leaf.update(impls_eq)
        return type(f"L{mask}_{tag}", (mid,), leaf)
    body = {CB[i]: impls[i] for i in range(4) if mask >> i & 1}
    body.update(impls_eq)
    return type(f"L{mask}_{tag}", (Listener,), body)


def make_solver(case, fail=True):
    from iOpt.solver import Solver
    from iOpt.solver_parametrs import SolverParameters
    fn = objectives.make(case["spec"], case["lower"], case["upper"])
    fa = case.get("fail_at") if fail else None
    prob = implmod.LoggedProblem.make(fn, case["lower"], case["upper"], fa, ValueError if fa else None)
    q = case["params"]
    sv = Solver(prob, SolverParameters(eps=q["eps"], r=q["r"], itersLimit=q["itersLimit"],
                                       evolventDensity=q["evolventDensity"], refineSolution=q["refineSolution"]))
    return prob, sv


def tail_recorder():
    """a plain recording listener to be attached BEHIND a shipped one (and alone in the reference run): it must be told exactly what a
    listener attached alone is told - the shipped listeners are handed the same list / objects and must not consume or change them"""
    from iOpt.method.listener import Listener
    ev = []

    class Tail(Listener):
        def BeforeMethodStart(self, method):
            ev.append(("start",))

        def OnEndIteration(self, savedNewPoints, solution):
            ev.append(("end", tuple(tuple(oc.f2h(c) for c in it.GetY().floatVariables) for it in savedNewPoints),
                       int(solution.numberOfGlobalTrials)))

        def OnMethodStop(self, searchData, solution, status):
            ev.append(("stop", int(solution.numberOfGlobalTrials), bool(status)))
    return Tail(), ev


def compare_tail(ev_alone, ev_behind, viol, what):
    if ev_alone != ev_behind:
        k = next((i for i, (a, b) in enumerate(zip(ev_alone, ev_behind)) if a != b), min(len(ev_alone), len(ev_behind)))
        viol.append({"what": "a listener attached behind " + what + " is not told what a listener attached alone is told",
                     "first_difference_at_event": k, "alone": [list(map(str, e))[:3] for e in ev_alone[k:k + 2]],
                     "behind": [list(map(str, e))[:3] for e in ev_behind[k:k + 2]],
                     "events_alone": len(ev_alone), "events_behind": len(ev_behind)})


def full_log(prob):
    return [(ph, tuple(oc.f2h(c) for c in pt), oc.f2h(v)) for ph, pt, v, *_ in prob.log]


def drive(case, sv, prob, ctx=None, capture=None):
    """runs the batching; returns per-op records {op, raised, log_len_before, log_len_after, snapshot, returned}"""
    recs = []
    for i, op in enumerate(case["ops"]):
        if ctx is not None:
            ctx["op"] = i
        n0 = len(prob.log)
        oc.common.beat("oracle: solver operation " + str(op), {"case": {k_: v_ for k_, v_ in case.items() if k_ != "spec"}})
        rec = {"op": op, "raised": None, "returned": None}
        out = io.StringIO()
        try:
            with contextlib.redirect_stdout(out):
                if op[0] == "I":
                    sv.DoGlobalIteration(int(op[1:]))
                elif op == "S":
                    rec["returned"] = sv.Solve()
                elif op == "G":
                    rec["returned"] = sv.GetResults()
                elif op == "R":
                    # the user polishes the current optimum himself (only once there is one)
                    if sv.GetResults().numberOfGlobalTrials > 0:
                        sv.DoLocalRefinement(5)
        except Exception as e:     # noqa: BLE001
            rec["raised"] = f"{type(e).__name__}: {e}"[:200]
        rec["stdout"] = out.getvalue()
        rec["n0"], rec["n1"] = n0, len(prob.log)
        rec["snapshot"] = oc.solution_snapshot(sv.GetResults())
        rec["returned_snapshot"] = None if rec["returned"] is None else oc.solution_snapshot(rec["returned"])
        if op == "S" and rec["returned"] is not None:
            sol = rec["returned"]
            b = sol.bestTrials[0]
            rec["returned_values"] = {"point": [float(v) for v in b.point.floatVariables], "value": float(b.functionValues[0].value),
                                      "accuracy": float(sol.solutionAccuracy), "global": int(sol.numberOfGlobalTrials),
                                      "local": int(sol.numberOfLocalTrials)}
        recs.append(rec)
        if rec["raised"]:
            break
    return recs


def compare_runs(base_recs, base_log, recs, log, viol, phases=("global", "local")):
    """non-interference: same exceptions, same trial sequence, same snapshots"""
    a = [e for e in base_log if e[0] in phases]
    b = [e for e in log if e[0] in phases]
    if a != b:
        k = next((j for j, (x, y) in enumerate(zip(a, b)) if x != y), min(len(a), len(b)))
        viol.append({"what": "trial sequence differs between the runs with and without listeners", "first_difference": k,
                     "without": a[k:k + 1], "with": b[k:k + 1], "lengths": [len(a), len(b)]})
    for j, (x, y) in enumerate(zip(base_recs, recs)):
        if x["raised"] != y["raised"]:
            viol.append({"what": "a call raises with listeners attached but not without (or vice versa)", "op_index": j,
                         "op": x["op"], "without": x["raised"], "with": y["raised"]})
            break
        if x["snapshot"] != y["snapshot"]:
            viol.append({"what": "result differs between the runs with and without listeners", "op_index": j, "op": x["op"],
                         "without": x["snapshot"], "with": y["snapshot"]})
            break
    if len(base_recs) != len(recs) and not any(v["what"].startswith("a call raises") for v in viol):
        viol.append({"what": "a call raises with listeners attached but not without (or vice versa)",
                     "without": [r["raised"] for r in base_recs][-1:], "with": [r["raised"] for r in recs][-1:]})


# ------------------------------------------------------------------------------------------------
# Part A
# ------------------------------------------------------------------------------------------------
def gen_case_a(r, idx):
    n = r.choice([1, 1, 2, 2, 3, 4])
    lo, hi = oc.gen_box(r, n)
    m = r.randint(2, min(12, 50 // n))
    params = {"eps": r.choice([0.5, 0.1, 0.05, 0.01, 0.003, 1e-4]), "r": round(r.uniform(1.3, 5), 2),
              "itersLimit": r.choice([1, 2, 3, 5, 9, 17, 30, 60]), "evolventDensity": m,
              "refineSolution": r.random() < 0.2}
    if idx % 16 == 0 or r.random() < 0.25:
        masks = [(idx // 16) % 16] if idx % 16 == 0 else [r.randrange(16)]
    else:
        masks = [r.randrange(16) for _ in range(r.randint(1, 3))]
    ops = []
    for _ in range(r.randint(1, 6)):
        u = r.random()
        if u < 0.55:
            ops.append("I%d" % r.choice([1, 1, 1, 2, 3, 5, 0]))
        elif u < 0.85:
            ops.append("S")
        else:
            ops.append("G")
    if r.random() < 0.03:
        # ONE long batch: a single DoGlobalIteration(k) call with k beyond a hundred is still one call - one notification with its k trials
        ops.insert(r.randrange(len(ops) + 1), "I%d" % r.choice([101, 130, 250]))
    case = {"part": "A", "spec": objectives.gen_spec(r, n), "lower": lo, "upper": hi, "params": params, "masks": masks,
            "ops": ops}
    if r.random() < 0.3:
        # some callbacks are inherited from an intermediate class instead of being defined in the listener's own class
        case["via"] = [r.randrange(16) for _ in masks]
    if len(masks) >= 2 and r.random() < 0.3:
        case["eq_all"] = True       # the listeners define __eq__ (all compare equal): each must still be attached and notified
    if r.random() < 0.02:
        # a LONG run with a passive listener (hundreds of trials, so that the record is a long chain of linked items)
        n2 = 2
        lo2, hi2 = oc.gen_box(r, n2)
        case.update(spec=objectives.gen_spec(r, n2), lower=lo2, upper=hi2, ops=["S"], masks=[r.choice([2, 6, 7])])
        case.pop("via", None)
        case["params"] = {"eps": 1e-9, "r": round(r.uniform(2, 4), 2), "itersLimit": r.choice([450, 700]), "evolventDensity": 10,
                          "refineSolution": False}
    if r.random() < 0.1:
        case["ops"] = (["I1"] if r.random() < 0.5 else []) + ["S"]
        case["fail_at"] = r.randint(2, 6)
        case["params"]["refineSolution"] = False
    return case


def run_case_a(case):
    viol = []
    # both solvers exist before anything runs; the listeners are attached to the second one only; the reference run
    # (no listeners) is executed first, so that a notification arriving during it exposes listeners shared between solvers
    bprob, bsv = make_solver(case)
    prob, sv = make_solver(case)
    events = []
    ctx = {"problem": prob, "solver": sv, "op": -1, "eq_all": bool(case.get("eq_all"))}
    for j, mask in enumerate(case["masks"]):
        try:
            sv.AddListener(make_listener_class(mask, events, j, ctx, (case.get("via") or [0] * 8)[j])())
        except Exception as e:     # noqa: BLE001
            viol.append({"what": "attaching a listener raised", "mask": mask, "error": f"{type(e).__name__}: {e}"})
            return viol, {}
    base = drive(case, bsv, bprob)
    blog = full_log(bprob)
    if any(rec["raised"] for rec in base) and not events:
        return [], {"skipped": "the batching raises without listeners: " + str([rec["raised"] for rec in base][-1])}
    if events:
        return [{"what": "a listener was notified by a solver it was not attached to", "notifications": len(events),
                 "first": events[0]["cb"]}], {}
    recs = drive(case, sv, prob, ctx)
    log = full_log(prob)
    compare_runs(base, blog, recs, log, viol)
    if viol:
        return viol, {}
    glob_idx = [i for i, e in enumerate(prob.log) if e[0] == "global"]
    total_trials = len(glob_idx)

    def trials_between(n0, n1):
        return [((tuple(oc.f2h(c) for c in prob.log[i][1])), oc.f2h(prob.log[i][2])) for i in glob_idx if n0 <= i < n1]
    attempted = prob.ncalls_global          # includes the injected failure
    for j, mask in enumerate(case["masks"]):
        ev = [e for e in events if e["l"] == j]
        if mask & 1:
            bf = [e for e in ev if e["cb"] == "before"]
            want = 1 if attempted > 0 else 0
            if len(bf) != want:
                viol.append({"what": "BeforeMethodStart not notified exactly once before the first trial", "listener": j,
                             "mask": mask, "count": len(bf), "trials": total_trials})
            elif bf:
                earlier = [e for e in ev[:ev.index(bf[0])] if e["cb"] == "stop" or (e["cb"] == "end" and e["points"])]
                if bf[0]["calls"] != 0 or not bf[0]["method_ok"] or earlier:
                    viol.append({"what": "BeforeMethodStart came after a trial / after a trial notification / with a foreign "
                                         "method", "listener": j, "mask": mask, "objective_calls_so_far": bf[0]["calls"],
                                 "earlier_notifications": [e["cb"] for e in earlier], "method_ok": bf[0]["method_ok"]})
        for i, rec in enumerate(recs):
            evi = [e for e in ev if e["op"] == i]
            ends = [e for e in evi if e["cb"] == "end"]
            stops = [e for e in evi if e["cb"] == "stop"]
            new = trials_between(rec["n0"], rec["n1"])
            op = rec["op"]
            if mask & 2:
                if op[0] == "I":
                    k = int(op[1:])
                    if len(ends) != 1:
                        viol.append({"what": "OnEndIteration not notified exactly once for a DoGlobalIteration call",
                                     "listener": j, "mask": mask, "op_index": i, "op": op, "count": len(ends)})
                    elif ends[0]["points"] != new or len(new) != k:
                        viol.append({"what": "OnEndIteration did not carry exactly the new trials of the call in order",
                                     "listener": j, "mask": mask, "op_index": i, "op": op, "notified": ends[0]["points"],
                                     "trials_of_the_call": new})
                elif op == "S":
                    got = [e["points"] for e in ends]
                    if got != [[t] for t in new]:
                        viol.append({"what": "during Solve OnEndIteration was not notified once per new trial with that trial",
                                     "listener": j, "mask": mask, "op_index": i, "notified": got[:6], "trials": new[:6],
                                     "counts": [len(got), len(new)]})
                elif ends:
                    viol.append({"what": "OnEndIteration notified by GetResults", "listener": j, "op_index": i})
                if any(not e["solution_ok"] for e in ends):
                    viol.append({"what": "OnEndIteration received a solution object that is not the solver's", "listener": j,
                                 "op_index": i})
            if mask & 4:
                want = 1 if op == "S" else 0
                if len(stops) != want:
                    viol.append({"what": "OnMethodStop not notified exactly once per Solve (and never elsewhere)",
                                 "listener": j, "mask": mask, "op_index": i, "op": op, "count": len(stops)})
                elif stops:
                    s = stops[0]
                    if evi[-1] is not s:
                        viol.append({"what": "OnMethodStop was not the last notification of the Solve", "listener": j,
                                     "mask": mask, "op_index": i, "last": evi[-1]["cb"]})
                    if s["solution"] is not rec["returned"] or s["snap"] != rec["returned_snapshot"] or not s["sd_ok"]:
                        viol.append({"what": "OnMethodStop did not receive the returned solution", "listener": j, "mask": mask,
                                     "op_index": i, "same_object": s["solution"] is rec["returned"], "notified": s["snap"],
                                     "returned": rec["returned_snapshot"]})
        unexpected = [e for e in ev if (e["cb"] == "before" and not mask & 1) or (e["cb"] == "end" and not mask & 2)
                      or (e["cb"] == "stop" and not mask & 4)]
        if unexpected:
            raise RuntimeError("recording listener recorded a callback it does not override")
    for v in viol:
        for key in ("solution",):
            v.pop(key, None)
    return viol, {"trials": total_trials, "events": len(events), "failed": bool(case.get("fail_at")) and attempted > total_trials}


# ------------------------------------------------------------------------------------------------
# Part B: console
# ------------------------------------------------------------------------------------------------
_NUM = r"[-+]?(?:inf|nan|\d+\.?\d*(?:[eE][-+]?\d+)?|\.\d+(?:[eE][-+]?\d+)?)"


def parse_final_report(text):
    """last 'Result' block of the console listener -> dict or None"""
    k = text.rfind("Result")
    if k < 0:
        return None
    blk = text[k:]

    def field(name, pat):
        m = re.search(re.escape(name) + r"\s*" + pat, blk)
        return m.group(1) if m else None
    pt = field("solution point:", r"\[([^\]]*)\]")
    res = {"global": field("global iteration count:", r"(\d+)"), "local": field("local iteration count:", r"(\d+)"),
           "value": field("solution value:", "(" + _NUM + ")"), "accuracy": field("accuracy:", "(" + _NUM + ")"),
           "point": None if pt is None else re.findall(_NUM, pt)}
    return res


def check_report(rep, true, viol, i):
    """true: the returned Solution's fields read immediately after Solve returned"""
    pt, val, acc = true["point"], true["value"], true["accuracy"]
    if rep is None or any(rep[k] is None for k in ("global", "local", "value", "accuracy", "point")):
        viol.append({"what": "console listener printed no complete final report for a Solve", "op_index": i, "parsed": rep})
        return

    def close(printed, true, digits_tol):
        p = float(printed)
        if math.isinf(true) or math.isinf(p):
            return p == true
        return abs(p - true) <= digits_tol
    bad = {}
    if int(rep["global"]) != true["global"]:
        bad["global"] = [rep["global"], true["global"]]
    if int(rep["local"]) != true["local"]:
        bad["local"] = [rep["local"], true["local"]]
    if not close(rep["value"], val, 0.51e-8 + 1e-15 * abs(val)):
        bad["value"] = [rep["value"], val]
    if not close(rep["accuracy"], acc, 0.51e-8 + 1e-15 * abs(acc)):
        bad["accuracy"] = [rep["accuracy"], acc]
    if len(rep["point"]) != len(pt) or any(not close(p, t, 0.6e-8 * max(1.0, abs(t))) for p, t in zip(rep["point"], pt)):
        bad["point"] = [rep["point"], pt]
    if bad:
        viol.append({"what": "console final report differs from the returned solution", "op_index": i, "fields": bad})


def gen_case_late(r):
    """a passive listener (OnEndIteration / OnMethodStop only: nothing it needs is set up in BeforeMethodStart) is attached to a search that
    has already started; from then on it must be told what a listener attached from the start is told"""
    n = r.choice([1, 1, 2, 3])
    lo, hi = oc.gen_box(r, n)
    params = {"eps": r.choice([0.1, 0.05, 0.01, 0.003]), "r": round(r.uniform(1.5, 5), 2), "itersLimit": r.choice([9, 17, 30, 60]),
              "evolventDensity": r.randint(3, min(12, 50 // n)), "refineSolution": r.random() < 0.2}
    ops = ["I%d" % r.choice([1, 2, 3, 5]) for _ in range(r.randint(1, 3))]
    at = len(ops)
    ops += ["I%d" % r.choice([1, 2, 3]) for _ in range(r.randint(0, 2))] + ["S"] + (["I2", "S"] if r.random() < 0.3 else [])
    return {"part": "late", "spec": objectives.gen_spec(r, n), "lower": lo, "upper": hi, "params": params, "ops": ops, "attach_at": at,
            "mask": r.choice([2, 4, 6, 6])}


def run_case_late(case):
    prob, sv = make_solver(case)
    ev_e, ev_l = [], []
    ctx = {"problem": prob, "solver": sv, "op": -1, "eq_all": False}
    sv.AddListener(make_listener_class(case["mask"], ev_e, 0, ctx, 0)())
    at = case["attach_at"]
    recs = drive(dict(case, ops=case["ops"][:at]), sv, prob, ctx)
    if any(rec["raised"] for rec in recs):
        return [], {"skipped": "raises before the late listener is attached"}
    n_e = len(ev_e)
    try:
        sv.AddListener(make_listener_class(case["mask"], ev_l, 1, ctx, 0)())
    except Exception as e:     # noqa: BLE001
        return [{"what": "attaching a listener to a started search raised", "error": f"{type(e).__name__}: {e}"}], {}
    recs2 = drive(dict(case, ops=case["ops"][at:]), sv, prob, ctx)
    if any(rec["raised"] for rec in recs2):
        return [{"what": "a call raised after a passive listener was attached to a started search",
                 "error": [rec["raised"] for rec in recs2 if rec["raised"]][0]}], {}
    want = [(e["cb"], e.get("points")) for e in ev_e[n_e:]]
    got = [(e["cb"], e.get("points")) for e in ev_l]
    viol = []
    if got != want:
        k = next((i for i, (a_, b_) in enumerate(zip(got, want)) if a_ != b_), min(len(got), len(want)))
        viol.append({"what": "a listener attached to a started search is not told what a listener attached from the start is told from then on",
                     "attached_before_op": at, "first_difference_at_event": k, "late": [list(x) for x in got[k:k + 2]],
                     "early": [list(x) for x in want[k:k + 2]], "events_late": len(got), "events_early_since": len(want)})
    return viol, {"trials": len([e for e in prob.log if e[0] == "global"]), "events": len(ev_e) + len(ev_l)}


def gen_case_console(r):
    case = gen_case_a(r, 1)
    case.pop("fail_at", None)
    case["part"] = "console"
    case["mode"] = r.choice(["full", "custom", "result"])
    case["iters"] = r.choice([1, 2, 5, 100])
    case["params"]["itersLimit"] = r.choice([2, 3, 5, 9, 17, 30, 60])
    ops = [("I%d" % r.choice([1, 1, 2, 3, 5])) if o[0] == "I" else o for o in case["ops"]]
    if "S" not in ops:
        ops.append("S")
    if r.random() < 0.2 and ops[0][0] == "I" and ops[0] != "I0":
        # a manual local refinement between the global phases (its evaluations are the solution's local count, whatever
        # refineSolution says)
        ops.insert(r.randint(1, ops.index("S")), "R")
    case["ops"] = ops
    del case["masks"]
    return case


def run_case_console(case):
    from iOpt.method.listener import ConsoleFullOutputListener
    viol = []
    bprob, bsv = make_solver(case)
    prob, sv = make_solver(case)
    tail_a, ev_a = tail_recorder()
    tail_b, ev_b = tail_recorder()
    bsv.AddListener(tail_a)
    try:
        sv.AddListener(ConsoleFullOutputListener(mode=case["mode"], iters=case["iters"]))
        sv.AddListener(tail_b)
    except Exception as e:     # noqa: BLE001
        return [{"what": "attaching a listener raised", "error": f"{type(e).__name__}: {e}"}], {}
    base = drive(case, bsv, bprob)
    if any(rec["stdout"] for rec in base):
        return [{"what": "a solver without listeners produced console output (listener notified by a foreign solver)",
                 "output": next(rec["stdout"] for rec in base if rec["stdout"])[:200]}], {}
    if any(rec["raised"] for rec in base):
        return [], {"skipped": "raises without listeners"}
    recs = drive(case, sv, prob)
    compare_runs(base, full_log(bprob), recs, full_log(prob), viol)
    compare_tail(ev_a, ev_b, viol, "ConsoleFullOutputListener(mode=%r)" % case["mode"])
    nrep = 0
    for i, rec in enumerate(recs):
        if rec["op"] == "S" and not rec["raised"]:
            check_report(parse_final_report(rec["stdout"]), rec["returned_values"], viol, i)
            nrep += 1
    if any(rec["stdout"] for rec in base):
        pass
    return viol, {"trials": len([e for e in prob.log if e[0] == "global"]), "reports": nrep,
                  "printed_chars": sum(len(rec["stdout"]) for rec in recs)}


def probe_k0():
    """DoGlobalIteration(0) with shipped listeners (no trial, empty notification): recorded as an observation in stats,
    not as a violation - the statement speaks about trial sequence and result, which are unchanged."""
    from iOpt.method.listener import ConsoleFullOutputListener, AnimationPaintListener
    out = {}
    case = {"spec": {"kind": "quad", "p": [0.3]}, "lower": [0.0], "upper": [1.0], "ops": ["I1", "I0"],
            "params": {"eps": 0.01, "r": 2.0, "itersLimit": 10, "evolventDensity": 10, "refineSolution": False}}
    for name, mk in (("ConsoleFullOutputListener(full)", lambda d: ConsoleFullOutputListener(mode="full")),
                     ("ConsoleFullOutputListener(custom)", lambda d: ConsoleFullOutputListener(mode="custom")),
                     ("AnimationPaintListener", lambda d: AnimationPaintListener("a.png", d))):
        with headless() as d:
            prob, sv = make_solver(case)
            sv.AddListener(mk(d))
            recs = drive(case, sv, prob)
            out[name] = recs[-1]["raised"] or "no exception"
    return out


# ------------------------------------------------------------------------------------------------
# Part B: painters
# ------------------------------------------------------------------------------------------------
@contextlib.contextmanager
def headless(fast_mlp=True):
    import matplotlib
    import matplotlib.pyplot as plt
    import iOpt.output_system.painters.static_painter as sp
    saved = (plt.show, plt.pause, sp.MLPRegressor)
    orig = sp.MLPRegressor
    if fast_mlp:
        def FastMLP(**kw):
            kw["max_iter"] = min(30, kw.get("max_iter", 30))
            return orig(**kw)
        sp.MLPRegressor = FastMLP
    plt.show = lambda *a, **k: None
    plt.pause = lambda *a, **k: None
    try:
        with tempfile.TemporaryDirectory() as d, warnings.catch_warnings(), matplotlib.rc_context():
            warnings.simplefilter("ignore")
            yield d
    finally:
        plt.show, plt.pause, sp.MLPRegressor = saved
        plt.ioff()
        plt.close("all")


PAINTERS_1D = [
    ("StaticPaintListener", {"mode": "objective function"}), ("StaticPaintListener", {"mode": "only points"}),
    ("StaticPaintListener", {"mode": "approximation"}), ("StaticPaintListener", {"mode": "interpolation"}),
    ("StaticPaintListener", {"mode": "objective function", "isPointsAtBottom": True}),
    ("AnimationPaintListener", {}), ("AnimationPaintListener", {"isPointsAtBottom": True, "toPaintObjFunc": False}),
]
PAINTERS_ND = [
    ("StaticPaintListener", {"mode": "objective function", "indx": "last"}),
    ("StaticPaintListener", {"mode": "only points", "indx": 0, "isPointsAtBottom": True}),
    ("StaticNDPaintListener", {"mode": "lines layers", "calc": "objective function"}),
    ("StaticNDPaintListener", {"mode": "lines layers", "calc": "interpolation"}),
    ("StaticNDPaintListener", {"mode": "surface", "calc": "approximation"}),
    ("StaticNDPaintListener", {"mode": "surface", "calc": "interpolation"}),
    ("StaticNDPaintListener", {"mode": "lines layers", "calc": "objective function", "varsIndxs": "rev"}),
    ("AnimationNDPaintListener", {}), ("AnimationNDPaintListener", {"toPaintObjFunc": False, "varsIndxs": "rev"}),
]


def gen_case_paint(r, k):
    one_d = k % 2 == 0
    n = 1 if one_d else r.choice([2, 2, 3])
    name, kw = (PAINTERS_1D[(k // 2) % len(PAINTERS_1D)] if one_d else PAINTERS_ND[(k // 2) % len(PAINTERS_ND)])
    kw = dict(kw)
    if kw.get("calc") in ("interpolation", "approximation"):
        n = 2         # as in the shipped examples: projecting N > 2 trial points on two axes gives duplicate nodes
    if kw.get("indx") == "last":
        kw["indx"] = n - 1
    if kw.get("varsIndxs") == "rev":
        kw["varsIndxs"] = [n - 1, 0]
    lo, hi = oc.gen_box(r, n)
    spec = objectives.gen_spec(r, n)
    params = {"eps": 1e-4, "r": round(r.uniform(2, 4), 2), "itersLimit": r.choice([10, 14, 20]),
              "evolventDensity": r.randint(6, 10), "refineSolution": r.random() < 0.3}
    ops = ["S"] if r.random() < 0.7 else ["I%d" % r.choice([1, 2, 3]), "S"]
    return {"part": "paint", "painter": name, "kwargs": kw, "spec": spec, "lower": lo, "upper": hi, "params": params, "ops": ops}


def run_case_paint(case, fast_mlp=True):
    import iOpt.method.listener as lm
    viol = []
    bprob, bsv = make_solver(case)
    tail_a, ev_a = tail_recorder()
    tail_b, ev_b = tail_recorder()
    bsv.AddListener(tail_a)
    base = drive(case, bsv, bprob)
    if any(rec["raised"] for rec in base):
        return [], {"skipped": "raises without listeners"}
    with headless(fast_mlp) as d:
        prob, sv = make_solver(case)
        try:
            sv.AddListener(getattr(lm, case["painter"])("fig.png", d, **case["kwargs"]))
            sv.AddListener(tail_b)
        except Exception as e:     # noqa: BLE001
            return [{"what": "attaching a listener raised", "error": f"{type(e).__name__}: {e}"}], {}
        recs = drive(case, sv, prob)
        produced = os.path.exists(os.path.join(d, "fig.png"))
    err = next((rec["raised"] for rec in recs if rec["raised"]), None)
    if err and re.search(r"display|DISPLAY|Tk|backend|interactive|GUI|X server", err):
        return [], {"skipped": "painter cannot run headless: " + err}
    compare_runs(base, full_log(bprob), recs, full_log(prob), viol)
    if not (err and re.search(r"display|DISPLAY|Tk|backend|interactive|GUI|X server", err or "")):
        compare_tail(ev_a, ev_b, viol, case["painter"])
    known = []
    if err and "interpolation" in (case["kwargs"].get("calc"), case["kwargs"].get("mode")) and \
            re.match(r"(LinAlgError|ValueError)", err):
        # known finding F15 on the unchanged code: the interpolating painters hand the trial points to scipy's Rbf / interp1d, whose
        # linear system is numerically singular when two DISTINCT nodes (exact duplicates are removed since the repair F10) are closer
        # than rounding allows relative to the extent of the node set - e.g. a box with one side of 1e-12: trials of one grid column
        # differ by 1e-13 in that coordinate.  Only that situation is the listed finding; the same exception on well-separated nodes,
        # or on exact duplicates (F10 is FIXED and suppresses nothing), stays a violation.
        ax = case["kwargs"].get("varsIndxs", [0, 1]) if case["painter"] == "StaticNDPaintListener" else [case["kwargs"].get("indx", 0)]
        nodes = sorted({tuple(float(e[1][a]) for a in ax) for e in prob.log if e[0] == "global"})
        diam = max((max(nd[j] for nd in nodes) - min(nd[j] for nd in nodes)) for j in range(len(ax))) if nodes else 0.0
        close = [(p_, q_) for i_, p_ in enumerate(nodes) for q_ in nodes[i_ + 1:]
                 if max(abs(u_ - w_) for u_, w_ in zip(p_, q_)) <= 1e-9 * diam]
        if close:
            for v in viol:
                v["key"] = "interpolation-painter-singular-on-near-coincident-trial-points"
                v["closest_nodes"] = [list(close[0][0]), list(close[0][1])]
            known, viol = viol, []
    if not viol:
        b0 = bsv.GetResults().bestTrials[0]
        b1 = sv.GetResults().bestTrials[0]
        if [oc.f2h(v) for v in b0.point.floatVariables] != [oc.f2h(v) for v in b1.point.floatVariables] or \
                oc.f2h(b0.functionValues[0].value) != oc.f2h(b1.functionValues[0].value):
            viol.append({"what": "best trial's arrays differ after painting", "without": oc.lst(b0.point.floatVariables),
                         "with": oc.lst(b1.point.floatVariables)})
        # the best trial must still be one of the trials made (a painter probing the objective through the optimum's own
        # array would move it)
        if not case["params"]["refineSolution"]:
            trial_pts = {tuple(oc.f2h(c) for c in e[1]) for e in prob.log if e[0] == "global"}
            if tuple(oc.f2h(v) for v in b1.point.floatVariables) not in trial_pts:
                viol.append({"what": "after painting the best point is not one of the trial points",
                             "best": oc.lst(b1.point.floatVariables)})
    return viol, {"trials": len([e for e in prob.log if e[0] == "global"]), "known": known,
                  "painter_evals": len([e for e in prob.log if e[0] == "other"]), "file_written": produced}


WITNESS_DUPLICATE_NODES = {
    "part": "paint", "painter": "StaticNDPaintListener", "kwargs": {"mode": "lines layers", "calc": "interpolation"},
    "spec": {"kind": "linear", "c": [1.99, -1.71]}, "lower": [3.01, 4.09], "upper": [9.26, 7.08],
    "params": {"eps": 0.0001, "r": 2.53, "itersLimit": 20, "evolventDensity": 8, "refineSolution": False}, "ops": ["I2", "S"]}

# witness of the known finding F15 (found by the thorough tier): a box whose second side is 9.1e-13 long
WITNESS_NEAR_COINCIDENT_NODES = {
    "part": "paint", "painter": "StaticNDPaintListener", "kwargs": {"mode": "lines layers", "calc": "interpolation"},
    "spec": {"kind": "plateau", "q": 4, "of": {"kind": "trig", "a": [1.71, 1.15], "w": [2.84, 18.2], "ph": [5.61, 1.89]}},
    "lower": [-1.9, 0.0], "upper": [-1.14, 9.094947017729282e-13],
    "params": {"eps": 0.0001, "r": 3.21, "itersLimit": 10, "evolventDensity": 8, "refineSolution": False}, "ops": ["S"]}


def probe_duplicate_nodes():
    """the witness of the REPAIRED defect F10 (two trials share a point): must not raise any more"""
    v, info = run_case_paint(WITNESS_DUPLICATE_NODES)
    return {"case": WITNESS_DUPLICATE_NODES, "outcome": "violation" if v else "no exception"}


# ------------------------------------------------------------------------------------------------
def run(tier, r):
    bud = oc.Budget(oc.tier_seconds(tier, 120.0, 1800.0))   # safety cap; counts are fixed
    na = 1200 if tier == "quick" else 8000
    nc = 400 if tier == "quick" else 3000
    npaint = 48 if tier == "quick" else 320
    viol, samples, known = [], [], []
    stats = {"A": 0, "console": 0, "paint": 0, "late": 0, "masks_alone": {}, "masks_any": {}, "dims": {}, "trials": 0, "events": 0,
             "skipped": [], "with_injected_failure": 0, "console_modes": {}, "reports_checked": 0, "painters": {},
             "painter_objective_evaluations": 0, "figures_written": 0, "mlp_capped": tier == "quick"}
    explored = nontriv = 0

    def record(case, v, info, nt):
        nonlocal explored, nontriv
        explored += 1
        nontriv += 1 if nt else 0
        stats[case["part"]] += 1
        stats["dims"][str(len(case["lower"]))] = stats["dims"].get(str(len(case["lower"])), 0) + 1
        stats["trials"] += info.get("trials", 0)
        if "skipped" in info:
            stats["skipped"].append({"part": case["part"], "painter": case.get("painter"), "reason": info["skipped"]})
        for x in v + info.get("known", []):
            x.update({"property": "C13", "case": case})
        viol.extend(v)
        known.extend(info.get("known", []))

    for i in range(na):
        if bud.over() or len(viol) >= 10:
            break
        case = gen_case_a(r, i)
        v, info = run_case_a(case)
        record(case, v, info, info.get("trials", 0) >= 2 and any(case["masks"]))
        stats["events"] += info.get("events", 0)
        stats["with_injected_failure"] += bool(info.get("failed"))
        for mk in case["masks"]:
            stats["masks_any"][str(mk)] = stats["masks_any"].get(str(mk), 0) + 1
        if len(case["masks"]) == 1:
            stats["masks_alone"][str(case["masks"][0])] = stats["masks_alone"].get(str(case["masks"][0]), 0) + 1
        if len(samples) < 1 and len(case["ops"]) <= 3:
            samples.append(case)
    for i in range(nc):
        if bud.over() or len(viol) >= 14:
            break
        case = gen_case_console(r)
        v, info = run_case_console(case)
        record(case, v, info, info.get("trials", 0) >= 2)
        stats["console_modes"][case["mode"]] = stats["console_modes"].get(case["mode"], 0) + 1
        stats["reports_checked"] += info.get("reports", 0)
        if len(samples) < 2:
            samples.append(case)
    for i in range(60 if tier == "quick" else 600):
        if bud.over() or len(viol) >= 14:
            break
        case = gen_case_late(r)
        v, info = run_case_late(case)
        record(case, v, info, info.get("trials", 0) >= 2)
    try:
        stats["probe_DoGlobalIteration0_with_shipped_listeners"] = probe_k0()
    except Exception as e:     # noqa: BLE001
        stats["probe_DoGlobalIteration0_with_shipped_listeners"] = f"probe failed: {type(e).__name__}: {e}"
    try:
        stats["probe_interpolation_painter_on_duplicate_trial_points"] = probe_duplicate_nodes()
    except Exception as e:     # noqa: BLE001
        stats["probe_interpolation_painter_on_duplicate_trial_points"] = f"probe failed: {type(e).__name__}: {e}"
    v, info = run_case_paint(WITNESS_NEAR_COINCIDENT_NODES)      # the witness of the known finding F15 is always run
    record(WITNESS_NEAR_COINCIDENT_NODES, v, info, True)
    for k in range(npaint):
        if bud.over() or len(viol) >= 18:
            stats["paint_truncated"] = True
            break
        case = gen_case_paint(r, k)
        real_mlp = tier != "quick" and "approximation" in str(case["kwargs"]) and k < 2 * 2 * 16
        v, info = run_case_paint(case, fast_mlp=not real_mlp)
        record(case, v, info, info.get("trials", 0) >= 2)
        key = case["painter"] + str(sorted(case["kwargs"].items()))
        stats["painters"][key] = stats["painters"].get(key, 0) + 1
        stats["painter_objective_evaluations"] += info.get("painter_evals", 0)
        stats["figures_written"] += bool(info.get("file_written"))
        if len(samples) < 3:
            samples.append(case)
    return {"explored": explored, "distinct_nontrivial": nontriv, "rule": RULE, "violations": viol[:18], "known": known,
            "stats": stats, "samples": samples}


def _replay_here(case):
    c = case["case"]
    v, info = {"A": run_case_a, "console": run_case_console, "paint": run_case_paint, "late": run_case_late}[c["part"]](c)
    v = v + info.get("known", [])
    same = [x for x in v if x["what"] == case.get("what")]
    return {"reproduced": bool(same), "detail": [{k: x[k] for k in x if k != "case"} for x in (same or v)[:2]]}


def replay(case):
    return oc.replay_in_subprocess("c13", case)
