"""C04 - the reported optimum is the best trial actually evaluated.

A recording listener (overriding BeforeMethodStart, OnEndIteration and OnMethodStop) is attached; the
claim is tested inside every callback (on the Solution object handed to the callback AND on
solver.GetResults() AND on method.best), after every DoGlobalIteration(k) and on the Solution returned
by Solve.  At each such moment, with `log` = all Calculate calls made so far (global and local phase):
  best-is-evaluated     the reported point is (bitwise) one of the logged points
  value-is-objective    reported value == objective(reported point) (recomputed) == the value logged at that point
  no-smaller-trial      min(logged values) >= reported value   (so reported value == min of the log)
  z-consistent          the best item's GetZ() equals its reported value (global phase only)
  views-agree           callback solution, GetResults() and method.best denote the same trial
  nothing-before-start  in BeforeMethodStart nothing has been evaluated and no best trial is claimed
Objectives include plateau / step functions (many exactly equal values) and constants.
"""
import os
import sys

_D = os.path.dirname(os.path.abspath(__file__))
for _p in (os.path.dirname(_D), _D):
    if _p not in sys.path:
        sys.path.insert(0, _p)
import o1_common as oc
import objectives

PROP = "C04"
RULE = ("random objective (35% plateau/step or constant => many equal values), box, N=1..5, parameters; driven either by "
        "Solve alone or by DoGlobalIteration batches (mostly size 1) followed by Solve, 20% with refineSolution=True; 6% 'blind' runs "
        "(iterations, DoLocalRefinement, iterations, DoLocalRefinement with no listener and no GetResults before the end); "
        "40% of the batch-driven runs have NO listener attached and keep the Solution object returned by an early GetResults, which "
        "is examined after each further batch before fresh results are requested; "
        "the claim is tested at every observation moment (callbacks, after each call, returned Solution). Distinct by "
        "parameter set + call pattern; non-trivial if >= 3 trials and the best trial changed at least once or two "
        "trials share the minimal value.")


def make_listener(run_box, moments, vs, case):
    from iOpt.method.listener import Listener

    class Rec(Listener):
        def BeforeMethodStart(self, method):
            run = run_box[0]
            moments[0] += 1
            if run.problem.log or method.best is not None:
                vs.append(oc.violation(PROP, case, "nothing-before-start", {"calls": len(run.problem.log),
                                                                            "best": repr(method.best)}))

        def OnEndIteration(self, savedNewPoints, solution):
            observe(run_box[0], solution, "OnEndIteration", moments, vs, case)

        def OnMethodStop(self, searchData, solution, status):
            observe(run_box[0], solution, "OnMethodStop", moments, vs, case)
    return Rec()


def observe(run, solution, where, moments, vs, case):
    """test the claim now; `solution` is the object through which the optimum is reported at this moment"""
    moments[0] += 1
    log = [e for e in run.problem.log if e[0] != "other"]     # trials of the search (global and local phase); a painter's probes are not trials
    if not log:
        return
    point, value = oc.best_of(solution)
    k = len(log)
    obs = {"where": where, "calls_so_far": k, "reported_point": point, "reported_value": value}
    if len(vs) > 40:
        return
    by_point = {}
    for e in log:
        by_point.setdefault(e[1], []).append(e[2])
    if point is None or point not in by_point:
        vs.append(oc.violation(PROP, case, "best-is-evaluated", obs))
        return
    f = run.pure(point)
    if value != f or value not in by_point[point]:
        vs.append(oc.violation(PROP, case, "value-is-objective", dict(obs, objective_at_point=f, logged_at_point=by_point[point])))
    mn = min(e[2] for e in log)
    if mn < value:
        vs.append(oc.violation(PROP, case, "no-smaller-trial", dict(obs, smallest_logged=mn,
                                                                    at=[e[1] for e in log if e[2] == mn][:1])))
    # the different views of "the current best" agree
    res = run.solver.GetResults()
    p2, v2 = oc.best_of(res)
    mb = run.solver.method.best
    p3 = tuple(float(v) for v in mb.point.floatVariables) if mb is not None else None
    v3 = mb.functionValues[0].value if mb is not None else None
    refined = any(e[0] != "global" for e in log)
    # (after a local refinement the METHOD's best may legitimately be another trial than the reported one: the search compares new
    # trials with the value it stored before the refinement, the Solution keeps the refined trial while it is better - repair F14)
    if (p2, v2) != (point, value) or (not refined and (p3, v3) != (point, value)):
        vs.append(oc.violation(PROP, case, "views-agree", dict(obs, GetResults=[p2, v2], method_best=[p3, v3])))
    if mb is not None and not any(e[0] != "global" for e in log) and mb.GetZ() != value:
        vs.append(oc.violation(PROP, case, "z-consistent", dict(obs, best_z=mb.GetZ())))


def check_case(case):
    if case.get("painter"):
        # a shipped painting listener is attached IN FRONT of the recording one: what it does in OnMethodStop (it probes the
        # objective around the optimum to draw it) must leave the reported optimum an evaluated trial with its own value
        os.environ.setdefault("MPLBACKEND", "Agg")
        from oracles import c13 as _c13
        import iOpt.method.listener as lm
        with _c13.headless(True) as d:
            p = lm.StaticPaintListener("fig.png", d, mode="objective function", indx=case["n"] - 1)
            return _check_case(case, [p])
    return _check_case(case, [])


def _check_case(case, front):
    vs = []
    moments = [0]
    box = [None]
    lst = make_listener(box, moments, vs, case)
    bare = bool(case.get("bare"))          # no listener attached: nothing calls GetResults behind the caller's back
    run = oc.Run(case, listeners=front + ([] if bare else [lst]), cap=(4 * max(case["lim"], 16) + 64) + (2000 if front else 0) + sum(case.get("post", [])))
    box[0] = run
    err = None
    info = {"bare": bare}
    held = None
    try:
        for b in case.get("batches", []):
            ok = run.iterate(b)
            if bare and held is not None:
                # a Solution object obtained EARLIER, looked at before anybody asks for fresh results
                observe(run, held, "Solution held from an earlier GetResults, after further iterations", moments, vs, case)
            observe(run, run.solver.GetResults(), "after DoGlobalIteration", moments, vs, case)
            if bare and held is None and run.problem.log:
                held = run.solver.GetResults()
            if not ok:
                break
        if case.get("blind"):
            # the user drives the phases and looks at the result only at the very END (no listener, no GetResults in between):
            # iterations, a local refinement, more iterations, a second refinement
            k1, k2 = case["blind"]
            if run.iterate(k1):
                run.refine(-1)
                if run.iterate(k2):
                    run.refine(-1)
            observe(run, run.solver.GetResults(), "first GetResults after iterations / refinement / iterations / refinement", moments, vs, case)
        sol = run.solve()
        observe(run, sol, "returned Solution", moments, vs, case)
        observe(run, run.solver.GetResults(), "GetResults after Solve", moments, vs, case)
        for b in case.get("post", []):
            # the search is CONTINUED after Solve (with a refined solution, if refinement is on): the optimum reported from now on
            # must still be the smallest value evaluated so far, local phase included (repaired defect F14)
            if not run.iterate(b):
                break
            observe(run, run.solver.GetResults(), "after DoGlobalIteration continued after Solve", moments, vs, case)
            observe(run, sol, "Solution returned by Solve, after further iterations", moments, vs, case)
    except BaseException as e:                 # noqa
        err = repr(e)
    if run.trouble(err):
        vs.append(oc.violation(PROP, case, "no-internal-error", run.trouble(err)))
    info["float_collapse"] = bool(run.collapsed)
    g = run.glog()
    zs = [e[2] for e in g]
    changes = sum(1 for i in range(1, len(zs)) if zs[i] < min(zs[:i]))
    info.update(trials=len(g), moments=moments[0], best_changes=changes,
                tie_at_min=bool(zs) and zs.count(min(zs)) > 1, local=len(run.llog()))
    return vs, info


def gen(r):
    if r.random() < 0.03:
        return oc.collapse_prone_case(r)
    if r.random() < 0.03:
        # objective values that are exact Python ints beyond 2**53 (tick / cost counts): the reported best must be the exactly
        # smallest evaluated value, also when neighbouring values round to the same double
        case = oc.gen_case(r, n=r.choice((1, 1, 2)), lim=r.choice([5, 8, 17, 40]))
        case["spec"] = {"kind": "ticks", "base": r.choice([4 * 10 ** 18, -7 * 10 ** 17, 2 ** 60]), "scale": r.choice([40, 300, 3000]),
                        "of": objectives.gen_spec_trig(r, case["n"])}
        for k_ in ("shipped", "bg"):
            case.pop(k_, None)
        return case
    if r.random() < 0.04:
        return oc.band_case(r, refine=r.random() < 0.3)      # overflowing objective values (F11, F13): the reported best is still an evaluated trial of minimal value
    n = r.choice((1, 1, 2, 2, 3, 4, 5))
    u = r.random()
    spec = None
    if u < 0.3:
        spec = oc.step_spec(r, n)
    elif u < 0.35:
        spec = {"kind": "const", "c": round(r.uniform(-2, 2), 2)}
    case = oc.gen_case(r, n=n, spec=spec, refine=r.random() < 0.2, lim=r.choice([1, 2, 3, 5, 8, 17, 40, 80, 150, 400]))
    if r.random() < 0.6:
        bs, tot = [], 0
        nb = r.randint(1, 40)
        while tot < case["lim"] + 3 and len(bs) < nb:
            b = r.choice([1, 1, 1, 1, 2, 3, 0])
            bs.append(b)
            tot += b
        case["batches"] = bs
        if r.random() < 0.4:
            case["bare"] = True
    if r.random() < 0.15:
        case["fresh_holder"] = True       # the objective returns a NEW value holder instead of filling in the one it was given
    if case.get("refine") and r.random() < 0.7 or r.random() < 0.05:
        case["post"] = [r.choice([1, 1, 2, 5, 20]) for _ in range(r.randint(1, 12))]
    if r.random() < 0.06:
        case["blind"] = [r.choice([2, 3, 5, 9]), r.choice([3, 6, 12, 25])]
        case["bare"] = True
        case["batches"] = []
        for k_ in ("shipped", "bg", "post"):
            case.pop(k_, None)
    if case["n"] <= 2 and not case.get("bare") and case["lim"] <= 40 and r.random() < 0.06:
        case["painter"] = True            # the shipped StaticPaintListener in front of the recording listener
    return case


def run(tier, r):
    oc.reset_hangs()
    ncases = 1800 if tier == "quick" else 24000
    vs, stats, samples, keys = [], {}, [], set()
    nontrivial = explored = 0
    for i in range(ncases):
        if oc.too_many_hangs(stats):
            break
        case = gen(r)
        v, info = oc.safe(check_case, PROP)(case)
        explored += 1
        vs += v
        oc.bump(stats, "dim%d" % case["n"])
        oc.bump(stats, "kind_" + case["spec"]["kind"])
        oc.bump(stats, "moments_tested", info.get("moments", 0))
        oc.bump(stats, "float_collapse_stops", 1 if info.get("float_collapse") else 0)
        oc.bump(stats, "trials_total", info.get("trials", 0))
        oc.bump(stats, "runs_with_tie_at_min", 1 if info.get("tie_at_min") else 0)
        oc.bump(stats, "best_changes", info.get("best_changes", 0))
        oc.bump(stats, "refined_runs", 1 if info.get("local") else 0)
        oc.bump(stats, "runs_without_listener", 1 if info.get("bare") else 0)
        key = oc.case_key(case)
        if key not in keys:
            keys.add(key)
            if info.get("trials", 0) >= 3 and (info.get("best_changes") or info.get("tie_at_min")):
                nontrivial += 1
        if i < 3:
            samples.append({"case": case, "info": info})
    return oc.finish(PROP, RULE, explored, nontrivial, vs, stats, samples)


def replay(v):
    return oc.generic_replay(check_case, v)


if __name__ == "__main__":
    import json, time
    t = time.time()
    tier = sys.argv[1] if len(sys.argv) > 1 else "quick"
    res = run(tier, oc.common.rng("oracle:" + PROP))
    res["wall_s"] = round(time.time() - t, 1)
    print(json.dumps({k: res[k] for k in res if k not in ("samples", "rule")}, indent=1)[:6000])
