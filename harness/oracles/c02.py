"""C02 - every trial is placed by the AGP decision rule computed from all previous trials.

The (x, z) history of a real run is replayed, in exact order of insertion, by an independent
specification: M* = max(1, every slope |dz|/D of a neighbouring evaluated pair seen so far), z* = min z,
the characteristic of every interval of the current partition by the formulas of the statement.
Clauses tested at every iteration index k >= 2 of every run:
  first-point        trial 1 has x = 0.5 and its evaluation point is the (fresh) evolvent image of 0.5
  point-is-image     (every k) the evaluated point is the fresh evolvent image of x_k (ties x to the trial)
  strictly-inside    x_l < x_k < x_r for an interval of the current partition, 0 < x_k < 1
  no-repeat          x_k differs from every earlier coordinate
  argmax             characteristic(chosen interval) >= max characteristic - 1e-9 relative
  new-point-formula  x_k = (x_l+x_r)/2 - sign(z_r-z_l) (|z_r-z_l|/M)^N/(2r)   (midpoint on boundary intervals)
  M-and-zstar        the solver's own M and Z agree with the recomputed M*, z* (1e-9) at the end of the run
  no-internal-error  the run neither raises nor prints the internal-exception marker (a float collapse - the new point
                     rounding onto an end of an interval narrower than 1e-12 - legitimately ends the run: counted in
                     stats['float_collapse_stops'], all clauses still tested on the history reached)
"""
import os
import sys
import random

_D = os.path.dirname(os.path.abspath(__file__))
for _p in (os.path.dirname(_D), _D):
    if _p not in sys.path:
        sys.path.insert(0, _p)
import o1_common as oc
import numpy as np

PROP = "C02"
RULE = ("random objective (objectives.gen_spec incl. plateau/step/needle/const), random box (streams.gen_box), N=1..5, "
        "density 2..12 (N*m<=50), r in (1.05,6], eps in {1e-4..1.5}, itersLimit in {1..400}; run by Solve or by "
        "DoGlobalIteration batches; every iteration index of the run is tested. A case is distinct by its full "
        "parameter set and non-trivial if it has >= 4 trials, >= 2 distinct objective values and M grew above 1 or "
        "the best value changed at least once (so the re-computation paths were exercised). 4% overflow-band objectives (penalty 1e155..inf on a "
        "band): argmax with a NaN characteristic counting as the lowest one, no formula clause.")


def close(a, b, scale=0.0):
    return abs(a - b) <= 1e-9 * max(abs(a), abs(b), scale) + 1e-12


def spec_replay(hist, n, r, overflow=False):
    """independent AGP specification on the (x, z) history; returns (failures, info).
    overflow=True (objectives with values beyond 1e154: their squared differences overflow): the characteristics are evaluated with the
    very floating-point expressions of the statement as the library writes them, a characteristic that comes out as NaN (inf/inf) counts as
    the LOWEST one (the library's convention since the repairs F11/F13: such an interval is taken only when nothing better exists), and
    only the clauses first-point / strictly-inside / no-repeat / argmax are tested (the new-point formula is about exact arithmetic)"""
    nan_low = (lambda v: float("-inf") if v != v else v) if overflow else (lambda v: v)
    bad = []
    info = {"M_grew": 0, "best_changed": 0, "boundary_chosen": 0, "ties": 0, "iterations": 0}
    xs = [0.0, 1.0]               # sorted coordinates
    zs = [None, None]             # values (None = never evaluated end)
    M = 1.0
    zstar = None
    import bisect
    for k, (x, z, _pt) in enumerate(hist, start=1):
        if k == 1:
            if x != 0.5:
                bad.append(("first-point", {"x1": x}))
        else:
            info["iterations"] += 1
            if not (0.0 < x < 1.0):
                bad.append(("strictly-inside", {"k": k, "x": x}))
                return bad, info, M, zstar
            pos = bisect.bisect_left(xs, x)
            if xs[pos] == x:
                bad.append(("no-repeat", {"k": k, "x": x}))
                return bad, info, M, zstar
            # characteristics of every interval [xs[i-1], xs[i]] with the M*, z* known before trial k
            rm = r * M
            best_R, chosen_R = None, None
            nbest = 0
            for i in range(1, len(xs)):
                D = pow(xs[i] - xs[i - 1], 1.0 / n)
                zl, zr = zs[i - 1], zs[i]
                if zl is not None and zr is not None:
                    if overflow:
                        R = nan_low(D + (zr - zl) * (zr - zl) / (D * M * M * r * r) - 2 * (zr + zl - 2 * zstar) / (r * M))
                    else:
                        R = D + (zr - zl) * (zr - zl) / (rm * rm * D) - 2.0 * (zr + zl - 2.0 * zstar) / rm
                elif zl is None and zr is None:
                    continue           # impossible after the first trial
                else:
                    zz = zr if zl is None else zl
                    R = nan_low(2 * D - 4 * (zz - zstar) / (r * M)) if overflow else 2.0 * D - 4.0 * (zz - zstar) / rm
                if i == pos:
                    chosen_R = R
                if best_R is None or R > best_R:
                    best_R = R
            xl, xr = xs[pos - 1], xs[pos]
            zl, zr = zs[pos - 1], zs[pos]
            if overflow and (chosen_R == best_R or best_R == float("-inf")):
                pass
            elif not close(chosen_R, best_R, 1.0) and chosen_R < best_R:
                bad.append(("argmax", {"k": k, "x": x, "interval": [xl, xr], "R_chosen": chosen_R, "R_max": best_R,
                                       "M": M, "zstar": zstar}))
            if zl is None or zr is None:
                info["boundary_chosen"] += 1
                xf = 0.5 * (xl + xr)
            else:
                dz = zr - zl
                sg = 1.0 if dz > 0 else (-1.0 if dz < 0 else 0.0)
                xf = 0.5 * (xl + xr) - sg * pow(abs(dz) / M, n) / (2.0 * r)
            if not overflow and not close(x, xf):
                bad.append(("new-point-formula", {"k": k, "x": x, "formula": xf, "interval": [xl, xr], "zl": zl, "zr": zr,
                                                  "M": M}))
            if not (xl < x < xr):
                bad.append(("strictly-inside", {"k": k, "x": x, "interval": [xl, xr]}))
        # insert and update M*, z*
        pos = bisect.bisect_left(xs, x)
        xs.insert(pos, x)
        zs.insert(pos, z)
        for a, b in ((pos - 1, pos), (pos, pos + 1)):
            if zs[a] is not None and zs[b] is not None:
                s = abs(zs[b] - zs[a]) / pow(xs[b] - xs[a], 1.0 / n)
                if s > M:
                    M = s
                    info["M_grew"] += 1
        if zstar is None or z < zstar:
            if zstar is not None:
                info["best_changed"] += 1
            zstar = z
        if len(bad) > 5:
            break
    return bad, info, M, zstar


def check_case(case):
    vs = []
    info = {}
    run = oc.Run(case)
    err = None
    try:
        for j, b in enumerate(case.get("batches", [])):
            if not run.iterate(b):
                break
            if case.get("mid_refine") is not None and j == case["mid_refine"] and run.glog():
                # a local refinement in the MIDDLE of the global search: the search then continues; the decision rule is
                # about the values the objective took at the trial points (the log), which a refinement does not change
                import contextlib
                with contextlib.redirect_stdout(run.out):
                    run.solver.DoLocalRefinement(-1)
        if case.get("solve", True):
            run.solve()
    except BaseException as e:                # noqa - an escaping exception is itself a finding
        err = repr(e)
    if run.trouble(err):
        vs.append(oc.violation(PROP, case, "no-internal-error", run.trouble(err)))
    info["float_collapse"] = bool(run.collapsed)
    hist, nitems, nlog = run.history()
    info["trials"] = len(hist)
    if nitems != nlog:
        vs.append(oc.violation(PROP, case, "history-complete", {"stored_trials": nitems, "logged_calls": nlog}))
    if not hist:
        return vs, info
    # the evaluation points are the images of the coordinates (first one: image of 0.5)
    for k, (x, z, pt) in enumerate(hist, start=1):
        y = run.fresh_image(x)
        if tuple(float(v) for v in y) != pt:
            vs.append(oc.violation(PROP, case, "first-point" if k == 1 else "point-is-image",
                                   {"k": k, "x": x, "evaluated": pt, "image": [float(v) for v in y]}))
            break
    y05 = tuple(float(v) for v in run.fresh_image(0.5))
    if hist[0][2] != y05:
        vs.append(oc.violation(PROP, case, "first-point", {"evaluated": hist[0][2], "image_of_0.5": y05}))
    ovf = case["spec"].get("kind") == "band"
    with np.errstate(all="ignore"):
        bad, sinfo, M, zstar = spec_replay(hist, case["n"], case["r"], overflow=ovf)
    info.update(sinfo)
    for clause, obs in bad:
        vs.append(oc.violation(PROP, case, clause, obs))
    m = run.solver.method
    if ovf and not (M == M and abs(M) != float("inf") and abs(zstar) != float("inf")):
        pass            # (infinite values: M and z* are infinite or undefined on both sides)
    elif not close(float(m.M[0]), M) or not close(float(m.Z[0]), zstar):
        vs.append(oc.violation(PROP, case, "M-and-zstar", {"solver_M": float(m.M[0]), "spec_M": M, "solver_Z": float(m.Z[0]),
                                                           "spec_zstar": zstar}))
    info["values"] = len({z for _, z, _ in hist})
    return vs, info


def gen(r):
    if r.random() < 0.03:
        return dict(oc.collapse_prone_case(r), solve=False)
    if r.random() < 0.04:
        # a huge penalty value on a band of the box: squared differences overflow and characteristics come out as NaN
        return oc.band_case(r)
    u = r.random()
    spec = None
    n = r.choice((1, 1, 2, 2, 3, 4, 5))
    if u < 0.15:
        spec = oc.step_spec(r, n)
    case = oc.gen_case(r, n=n, spec=spec, lim=r.choice([3, 5, 8, 17, 40, 80, 150, 400, 400]))
    v = r.random()
    if v < 0.35:
        bs, tot = [], 0
        while tot < case["lim"] and len(bs) < 6 and r.random() < 0.8:
            b = r.choice([1, 1, 2, 3, 5, 9])
            bs.append(b)
            tot += b
        case["batches"] = bs
        case["solve"] = r.random() < 0.7
        if bs and r.random() < 0.2:
            case["mid_refine"] = r.randrange(len(bs))
    return case


def run(tier, r):
    oc.reset_hangs()
    ncases = 1000 if tier == "quick" else 15000
    vs, stats, samples, keys = [], {}, [], set()
    nontrivial = 0
    explored = 0
    for i in range(ncases):
        if oc.too_many_hangs(stats):
            break
        case = gen(r)
        v, info = oc.safe(check_case, PROP)(case)
        explored += 1
        vs += v
        oc.bump(stats, "dim%d" % case["n"])
        oc.bump(stats, "kind_" + case["spec"]["kind"])
        oc.bump(stats, "float_collapse_stops", 1 if info.get("float_collapse") else 0)
        for k in ("iterations", "M_grew", "best_changed", "boundary_chosen"):
            oc.bump(stats, k, info.get(k, 0))
        key = oc.case_key(case)
        if key not in keys:
            keys.add(key)
            if info.get("trials", 0) >= 4 and info.get("values", 0) >= 2 and (info.get("M_grew") or info.get("best_changed")):
                nontrivial += 1
        if i < 3:
            samples.append({"case": case, "info": info})
    return oc.finish(PROP, RULE, explored, nontrivial, vs, stats, samples)


def replay(v):
    return oc.generic_replay(check_case, v)


if __name__ == "__main__":
    import json, time
    t = time.time()
    tier = sys.argv[1] if len(sys.argv) > 1 else "quick"
    res = run(tier, oc.common.rng("oracle:" + PROP))
    res["wall_s"] = round(time.time() - t, 1)
    print(json.dumps({k: res[k] for k in res if k != "samples"}, indent=1)[:6000])
