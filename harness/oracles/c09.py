"""C09 - Inverse image is consistent with the image.

Clauses tested literally on Evolvent.GetImage / GetInverseImage / GetPreimages:
 (a) N >= 2: inverse(image(x)) == floor(x*2^(N m)) / 2^(N m) EXACTLY (x = 1 -> the last subinterval), for x uniform,
     dyadic grid points and their float neighbours, x = 0, x = 1, x within 4e-9 of 1; exhaustive over all
     subintervals for N*m <= 10 (quick) / 14 (thorough).
 (b) N >= 2, y in the box (uniform, on cell boundaries of several levels, box corners / faces, cell centres):
     x = inverse(y) is a left end of a subinterval (x*2^(N m) is an integer in [0, 2^(N m))), image(x) is within
     half a cell width per axis of y (+ the rounding allowance below), and whenever y is at least `delta` cell widths
     away from its cell's faces, image(x) lies in exactly y's cell (exact integer cell arithmetic) and is its centre.
     Rounding allowance: the box->cube map divides by the side, so a coordinate error of 4*2^-52*max(|lo|,|hi|) may move
     y across a face; delta = 8*2^-52*max(|lo|,|hi|)/side*2^m + 1e-9 cell widths.
 (c) GetPreimages(y) == GetInverseImage(y) bitwise; the inverse does not depend on the representation of y (double
     array, python list, int64 array for integer points - regression for the integer-dtype truncation fix).
 (d) N = 1: both maps affine: inverse(y) = (y-lo)/(hi-lo), image(x) = lo + x(hi-lo) and both round trips, within
     1e-12 relative (relative to max(|lo|,|hi|) for y and to the conditioning max(1, max(|lo|,|hi|)/side) for x)."""
import os
import sys

_H = os.path.dirname(os.path.dirname(os.path.abspath(__file__)))
if _H not in sys.path:
    sys.path.insert(0, _H)
from oracles import o2_common as oc  # noqa: E402
from oracles.o2_common import np, Fraction  # noqa: E402

RULE = ("exhaustive: every (N, m), N in 2..5, N*m <= 10 (quick) / 14 (thorough), random box, every subinterval (left end "
        "and an interior point) for clause (a) and the centre of its cell perturbed inside the cell for (b); random: "
        "(N, m), N in 1..5, N*m <= 50, random box, x from {uniform, k/2^(N m) and nextafter neighbours, 0, 1, "
        "1 - 4e-9*u}, y from {uniform, multiples of side/2^j (cell faces of level j <= m), corners, faces of the box}. "
        "A case is one x (clause a/d) or one y (clause b/c/d). Non-trivial: x not in the first subinterval resp. y not "
        "in the cell of subinterval 0; N = 1 cases are non-trivial when x resp. y is not an end point. Distinct by value.")


def _expect_floor(x, n, m):
    i = oc.subinterval(x, n, m)
    return i, oc.left_end(i, n, m)


def check_x(ev, n, m, x, ctx, viol):
    y = ev.GetImage(x)
    xi = ev.GetInverseImage(y)
    xp = ev.GetPreimages(y)
    i, want = _expect_floor(x, n, m)
    if not (float(xi) == want):
        viol.append(dict(ctx, what="inverse(image(x)) is not x rounded down to the subinterval grid", x=float(x).hex(),
                         got=float(xi).hex(), want=want.hex(), subinterval=i, y=oc.lst(y)))
    if not (float(xp) == float(xi)):
        viol.append(dict(ctx, what="GetPreimages differs from GetInverseImage", x=float(x).hex(), y=oc.lst(y),
                         preimages=float(xp).hex(), inverse=float(xi).hex()))
    return i


def delta_cells(g, a):
    return 8 * oc.U * g.M[a] / g.side[a] * 2 ** g.m + 1e-9


_BUF = {}


def check_y(ev, g, n, m, y, ctx, viol):
    # the caller's coordinate buffer: ONE ndarray per object, overwritten in place with each new point (a query must be
    # answered for what the array holds now, whatever it held at the previous query)
    key = id(ev)
    if key not in _BUF or _BUF[key][0] is not ev or len(_BUF[key][1]) != len(y):
        _BUF.clear()
        _BUF[key] = (ev, np.array(y, dtype=np.double))
    ya = _BUF[key][1]
    ya[:] = y
    x = ev.GetInverseImage(ya)
    xp = ev.GetPreimages(np.array(y, dtype=np.double))
    x = float(x)
    tot = 2 ** (n * m)
    if float(xp) != x:
        viol.append(dict(ctx, what="GetPreimages differs from GetInverseImage", y=list(y), preimages=float(xp).hex(),
                         inverse=x.hex()))
    # the same box point in other representations (python list; integer dtype when all coordinates are integers)
    alts = [("list", [float(v) for v in y])]
    if all(float(v).is_integer() and abs(v) < 2 ** 53 for v in y):
        alts.append(("int64 array", np.array([int(v) for v in y], dtype=np.int64)))
    for name, alt in alts:
        xa = float(ev.GetInverseImage(alt))
        if xa != x:
            viol.append(dict(ctx, what="inverse depends on the representation of the point (" + name + ")", y=list(y),
                             inverse=x.hex(), inverse_alt=xa.hex()))
    sc = Fraction(x) * tot
    if not (0.0 <= x < 1.0) or sc.denominator != 1:
        viol.append(dict(ctx, what="inverse(y) is not the left end of a subinterval", y=list(y), inverse=x.hex()))
        return None
    y2 = ev.GetImage(x)
    c2, devs = g.cell_and_dev(y2)
    nontrivial = int(sc) != 0
    for a in range(n):
        d = abs(Fraction(float(y2[a])) - Fraction(float(y[a])))
        dl = delta_cells(g, a)
        if d > g.width[a] * (0.5 + dl) + g.tol[a]:
            viol.append(dict(ctx, what="image(inverse(y)) is farther than half a cell width from y", axis=a, y=list(y),
                             inverse=x.hex(), image=oc.lst(y2), distance=float(d), half_width=g.width[a] / 2))
        if devs[a] > g.tol[a]:
            viol.append(dict(ctx, what="image(inverse(y)) is not a cell centre", axis=a, y=list(y), inverse=x.hex(),
                             image=oc.lst(y2)))
        k, fr = g.frac(y[a], a)
        if dl <= fr <= 1 - dl and k != c2[a]:
            viol.append(dict(ctx, what="image(inverse(y)) is not in the cell that contains y", axis=a, y=list(y),
                             inverse=x.hex(), image=oc.lst(y2), cell_of_y=k, cell_of_image=c2[a], position_in_cell=fr))
    return nontrivial


def gen_y(r, g, n, m):
    y = []
    style = r.random()
    for a in range(n):
        lo, hi = g.lo[a], g.hi[a]
        u = r.random()
        if style < 0.3 or u < 0.3:
            v = lo + r.random() * (hi - lo)
        elif u < 0.65:
            j = r.randint(0, m)
            v = lo + (hi - lo) * (r.randrange(2 ** j + 1) / 2 ** j)           # a face of level j (rounded)
            if r.random() < 0.3:
                v = oc.math.nextafter(v, r.choice([-oc.math.inf, oc.math.inf]))
        elif u < 0.8:
            v = r.choice([lo, hi])
        else:
            k = r.randrange(2 ** m)
            v = lo + (hi - lo) * ((k + 0.5 + r.uniform(-0.49, 0.49)) / 2 ** m)
        y.append(min(max(float(v), lo), hi))
    return y


def gen_x(r, n, m):
    tot = 2 ** (n * m)
    u = r.random()
    if u < 0.3:
        return r.random()
    if u < 0.6:
        x = r.randrange(tot + 1) / float(tot)
        v = r.random()
        if v < 0.3:
            x = oc.math.nextafter(x, 0.0)
        elif v < 0.5:
            x = oc.math.nextafter(x, 2.0)
        return min(max(x, 0.0), 1.0)
    if u < 0.7:
        return r.choice([0.0, 1.0, 0.5, 0.25, 0.75])
    if u < 0.85:
        return min(1.0, 1.0 - r.random() * 4e-9)
    return r.random() * 2.0 ** -r.randint(1, 40)


def check_n1(ev, lo, hi, r, ctx, viol):
    L, H = lo[0], hi[0]
    M = max(abs(L), abs(H))
    side = H - L
    cond = max(1.0, M / side)
    k = 0
    for x in [0.0, 1.0, 0.5] + [gen_x(r, 1, r.randint(1, 50)) for _ in range(5)]:
        y = ev.GetImage(x)
        want_y = Fraction(L) + Fraction(x) * (Fraction(H) - Fraction(L))
        if abs(Fraction(float(y[0])) - want_y) > 1e-12 * M:
            viol.append(dict(ctx, what="N = 1 image is not the affine image", x=float(x).hex(), y=oc.lst(y)))
        xi = float(ev.GetInverseImage(y))
        xp = float(ev.GetPreimages(y))
        if abs(xi - x) > 1e-12 * cond:
            viol.append(dict(ctx, what="N = 1 round trip x -> y -> x is not the identity", x=float(x).hex(), got=xi.hex(),
                             y=oc.lst(y)))
        if xp != xi:
            viol.append(dict(ctx, what="GetPreimages differs from GetInverseImage", x=float(x).hex(), y=oc.lst(y),
                             preimages=xp.hex(), inverse=xi.hex()))
        k += 1
    for _ in range(6):
        yv = r.choice([L, H, L + r.random() * side, L + r.random() * side])
        ya = np.array([yv], dtype=np.double)
        xi = float(ev.GetInverseImage(ya))
        want_x = (Fraction(yv) - Fraction(L)) / (Fraction(H) - Fraction(L))
        if abs(Fraction(xi) - want_x) > 1e-12 * cond:
            viol.append(dict(ctx, what="N = 1 inverse is not the affine inverse", y=[yv], got=xi.hex(), want=float(want_x)))
        y2 = ev.GetImage(xi)
        if abs(float(y2[0]) - yv) > 1e-12 * M:
            viol.append(dict(ctx, what="N = 1 round trip y -> x -> y is not the identity", y=[yv], x=xi.hex(), got=oc.lst(y2)))
        k += 1
    return k


def _exhaustive(n, m, lo, hi, r, viol):
    ev = oc.mk_ev(lo, hi, n, m)
    g = oc.Grid(lo, hi, m)
    tot = 2 ** (n * m)
    ctx = {"mode": "exhaustive", "N": n, "m": m, "lower": lo, "upper": hi}
    cells = set()
    for i in range(tot):
        a = oc.left_end(i, n, m)
        check_x(ev, n, m, a, ctx, viol)
        check_x(ev, n, m, (i + 0.5 + 0.49 * r.uniform(-1, 1)) / tot, ctx, viol)
        # every cell once, through a point strictly inside it: its inverse must be a distinct subinterval
        c = g.centre(g.cell(ev.GetImage(a)))
        y = [c[k] + g.width[k] * r.uniform(-0.45, 0.45) for k in range(n)]
        y = [min(max(v, l), h) for v, l, h in zip(y, g.lo, g.hi)]
        check_y(ev, g, n, m, y, ctx, viol)
        xi = float(ev.GetInverseImage(np.array(y)))
        if xi != a:
            viol.append(dict(ctx, what="inverse of a point of the cell of subinterval i is not its left end", subinterval=i,
                             y=y, got=xi.hex(), want=a.hex()))
        cells.add(xi)
        if len(viol) >= 20:
            return 3 * (i + 1)
    check_x(ev, n, m, 1.0, ctx, viol)
    if len(cells) != tot:
        viol.append(dict(ctx, what="inverse images of the cells are not all distinct", distinct=len(cells), cells=tot))
    return 3 * tot + 1


def run(tier, r):
    bud = oc.Budget(oc.tier_seconds(tier, 90.0, 1500.0))   # safety cap only; counts are fixed
    nrandom = 7000 if tier == "quick" else 120000
    lim = 10 if tier == "quick" else 14
    viol, samples = [], []
    stats = {"exhaustive_configs": [], "dims": {}, "nm_hist": {}, "x_cases": 0, "y_cases": 0, "n1_cases": 0,
             "y_on_face_or_near": 0}
    explored = nontriv = 0
    cfgs = sorted([(n, m) for n in (2, 3, 4, 5, 6, 7) for m in range(1, 26) if n * m <= lim], key=lambda c: c[0] * c[1])
    for n, m in cfgs:
        if bud.over(0.8):
            stats.setdefault("exhaustive_skipped_for_time", []).append([n, m])
            continue
        lo, hi = oc.gen_box(r, n)
        k = oc.contained(lambda: _exhaustive(n, m, lo, hi, r, viol), viol, {"mode": "exhaustive", "N": n, "m": m, "lower": lo, "upper": hi}) or 0
        explored += k
        nontriv += max(0, k - 4)
        stats["exhaustive_configs"].append([n, m, k])
        if not samples:
            samples.append({"mode": "exhaustive", "N": n, "m": m, "lower": lo, "upper": hi})
        if len(viol) >= 20:
            break
    cfgn = 0
    while cfgn < nrandom and len(viol) < 40:
        if bud.over():
            stats["truncated_by_time"] = True
            break
        cfgn += 1
        n, m = oc.gen_nm(r, 50, 1)
        lo, hi = oc.gen_box(r, n)
        m = oc.common.cap_density(lo, hi, m)
        ev = oc.mk_ev(lo, hi, n, m)
        ctx = {"mode": "random", "N": n, "m": m, "lower": lo, "upper": hi}
        stats["dims"][str(n)] = stats["dims"].get(str(n), 0) + 1
        stats["nm_hist"][str(n * m // 10 * 10)] = stats["nm_hist"].get(str(n * m // 10 * 10), 0) + 1
        if n == 1:
            k = oc.contained(lambda: check_n1(ev, lo, hi, r, ctx, viol), viol, ctx) or 4
            explored += k
            nontriv += k - 4
            stats["n1_cases"] += k
            continue
        g = oc.Grid(lo, hi, m)
        xs, ys = [], []
        for _ in range(5):
            x = gen_x(r, n, m)
            i = oc.contained(lambda: check_x(ev, n, m, x, ctx, viol), viol, ctx, x=x.hex()) or 0
            explored += 1
            nontriv += 1 if i != 0 else 0
            stats["x_cases"] += 1
            xs.append(x.hex())
        for _ in range(5):
            y = gen_y(r, g, n, m)
            nt = oc.contained(lambda: check_y(ev, g, n, m, y, ctx, viol), viol, ctx, y=list(y))
            explored += 1
            nontriv += 1 if nt else 0
            stats["y_cases"] += 1
            if any(not (delta_cells(g, a) <= g.frac(y[a], a)[1] <= 1 - delta_cells(g, a)) for a in range(n)):
                stats["y_on_face_or_near"] += 1
            ys.append(y)
        if len(samples) < 3:
            samples.append({"N": n, "m": m, "lower": lo, "upper": hi, "xs": xs, "ys": ys[:2]})
    stats["random_configs"] = cfgn
    for v in viol:
        v["property"] = "C09"
    return {"explored": explored, "distinct_nontrivial": nontriv, "rule": RULE, "violations": viol[:40], "known": [],
            "stats": stats, "samples": samples}


def replay(case):
    n, m, lo, hi = case["N"], case["m"], case["lower"], case["upper"]
    ev = oc.mk_ev(lo, hi, n, m)
    viol = []
    ctx = {}
    if n == 1:
        import random
        check_n1(ev, lo, hi, random.Random(0), ctx, viol)
        if "x" in case:
            x = float.fromhex(case["x"])
            xi = float(ev.GetInverseImage(ev.GetImage(x)))
            return {"reproduced": bool(viol) or xi.hex() == case.get("got"), "detail": {"inverse(image(x))": xi.hex(), "other": viol[:2]}}
        return {"reproduced": bool(viol), "detail": viol[:2]}
    g = oc.Grid(lo, hi, m)
    if "subinterval" in case and "y" in case and "want" in case and "x" not in case:
        xi = float(ev.GetInverseImage(np.array(case["y"], dtype=np.double)))
        return {"reproduced": xi.hex() != case["want"], "detail": {"inverse": xi.hex(), "want": case["want"]}}
    if "x" in case:
        oc.contained(lambda: check_x(ev, n, m, float.fromhex(case["x"]), ctx, viol), viol, ctx, x=case["x"])
    elif "y" in case:
        oc.contained(lambda: check_y(ev, g, n, m, case["y"], ctx, viol), viol, ctx, y=case["y"])
    same = [v for v in viol if v["what"] == case.get("what")]
    return {"reproduced": bool(same), "detail": (same or viol)[:2]}
