"""C18 - problem metadata is well-formed and the published Hill / Shekel tables agree with the functions.

Part "metadata" (every member: Hill 0..999, Shekel 0..999, Shekel4 1..3, GKLS 2..5 x 1..100, Grishagin 1..100 (a seeded
sample of 30 in quick), StronginC3, Rastrigin and XSquared n = 1..30), on the real constructed object:
  lengths      dimension == numberOfFloatVariables == len(floatVariableNames) == len(lower) == len(upper) >= 1
  bounds       lower[i] < upper[i] for all i (finite)
  objectives   numberOfObjectives == 1
  known_optimum  knownOptimum has exactly one trial, its point has `dimension` finite coordinates inside the box
Part "handled" (a seeded sample of members): see handled_member - evaluating the objective at the instance's own bound / optimum vectors, and
an owner modifying the declared optimum of ITS instance in place, change neither what that / a later instance declares nor a table row.
Part "table" (rows: 70 seeded function numbers per family in quick, all 1000 in thorough; for each the three tables
min*, max*, lConstant* of hill_generation / shekel_generation - in shekel_generation the max and Lipschitz tables are
named maxHill and lConstantHill):
  min_value / max_value   |table value - extremum| <= 1e-4, extremum = dense grid (20 001 points) + bounded scalar
                          refinement through the real Calculate from the 6 best grid extrema (end points included)
  min_location / max_location   some true extremiser (refined local extremum whose value is within 1e-6 of the
                          extremum) lies within 1e-4*(upper-lower) of the table location
  lipschitz               |table constant - max|f'|| <= 1e-3*max|f'|, analytic derivative (validated against central
                          differences of the real Calculate, else those differences are used) on the dense grid +
                          refinement
"""
import os
import sys
import math
import random
import time

sys.path.insert(0, os.path.dirname(os.path.abspath(__file__)))
import o3_common as oc  # noqa: E402
import numpy as np  # noqa: E402

VAL_TOL = 1e-4
LOC_TOL = 1e-4
LIP_TOL = 1e-3
TIE_TOL = 1e-6
LOC_SLACK = 1e-6   # accuracy of the refined extremiser itself, relative to the range


# ---------------------------------------------------------------------------------------------------------------
# metadata
# ---------------------------------------------------------------------------------------------------------------
def _len(x):
    try:
        return len(x)
    except Exception:
        return None


def check_metadata(fam, args):
    viol, info = [], {}

    def v(clause, **obs):
        viol.append({"property": "C18", "part": "metadata", "family": fam, "args": list(args), "clause": clause,
                     "observed": obs})
    p = oc.construct(fam, args)
    n = getattr(p, "dimension", None)
    lens = {"dimension": n, "numberOfFloatVariables": p.numberOfFloatVariables,
            "len(floatVariableNames)": _len(p.floatVariableNames),
            "len(lowerBoundOfFloatVariables)": _len(p.lowerBoundOfFloatVariables),
            "len(upperBoundOfFloatVariables)": _len(p.upperBoundOfFloatVariables)}
    info["n"] = n
    ok_len = all(isinstance(t, (int, np.integer)) and not isinstance(t, bool) for t in lens.values()) and \
        len(set(int(t) for t in lens.values())) == 1 and int(n) >= 1
    if not ok_len:
        v("lengths", **{k: (int(t) if isinstance(t, (int, np.integer)) else repr(t)) for k, t in lens.items()})
    if fam in ("rastrigin", "xsquared") and ok_len and int(n) != args[0]:
        v("lengths", what="dimension differs from the constructor argument", dimension=int(n))
    try:
        lo = [float(t) for t in p.lowerBoundOfFloatVariables]
        hi = [float(t) for t in p.upperBoundOfFloatVariables]
    except Exception as e:
        v("bounds", what="bounds are not numbers", error=repr(e))
        return viol, info
    if len(lo) != len(hi) or not all(math.isfinite(a) and math.isfinite(b) and a < b for a, b in zip(lo, hi)):
        v("bounds", lower=lo, upper=hi)
    if p.numberOfObjectives != 1:
        v("objectives", numberOfObjectives=repr(p.numberOfObjectives))
    ko = p.knownOptimum
    if _len(ko) != 1:
        v("known_optimum", what="not exactly one trial", count=_len(ko))
    else:
        try:
            x = [float(t) for t in ko[0].point.floatVariables]
        except Exception as e:
            x = None
            v("known_optimum", what="point is not a vector of numbers", error=repr(e))
        if x is not None:
            if len(x) != len(lo) or (ok_len and len(x) != int(n)):
                v("known_optimum", what="point length differs from the dimension", point=x)
            elif not all(math.isfinite(t) and a <= t <= b for t, a, b in zip(x, lo, hi)):
                v("known_optimum", what="point outside the box", point=x, lower=lo, upper=hi)
    names = [str(t) for t in p.floatVariableNames] if _len(p.floatVariableNames) else []
    info["duplicate_names"] = len(set(names)) != len(names)
    return viol, info


def _snapshot(fam, args, p):
    ko = p.knownOptimum
    snap = {"dimension": int(p.dimension), "lower": [float(t) for t in p.lowerBoundOfFloatVariables],
            "upper": [float(t) for t in p.upperBoundOfFloatVariables],
            "optimum_point": [float(t) for t in ko[0].point.floatVariables],
            "optimum_value": float(ko[0].functionValues[0].value)}
    if fam in ("hill", "shekel"):
        g, tmin, tmax, tlip, names = _tables(fam)
        i = args[0]
        snap["table_rows"] = [[float(t) for t in np.ravel(tmin[i])], [float(t) for t in np.ravel(tmax[i])], [float(t) for t in np.ravel(tlip[i])]]
    return snap


def handled_member(fam, args):
    """Part "handled": what a caller does WITH one instance's metadata must not change what the library declares.
      evaluated-at-metadata   the objective is evaluated at the instance's own bound vectors and declared optimum (the arrays THEMSELVES,
                              as a plotting script does: f at the box corners, f at the optimum): afterwards the instance declares what it
                              declared before (bounds, optimum), and a published table row is what it was
      scribbled-metadata      the caller then post-processes the declared optimum of that instance IN PLACE (its own object: shifted for a
                              plot): an instance of the same member built afterwards declares the original metadata, the table row is intact"""
    from iOpt.trial import Point, FunctionValue
    viol = []

    def v(clause, **obs):
        viol.append({"property": "C18", "part": "handled", "family": fam, "args": list(args), "clause": clause, "observed": obs})
    ref = _snapshot(fam, args, oc.construct(fam, args))
    a = oc.construct(fam, args)
    for what, arr in (("lower bound", a.lowerBoundOfFloatVariables), ("upper bound", a.upperBoundOfFloatVariables),
                      ("declared optimum", a.knownOptimum[0].point.floatVariables)):
        try:
            a.Calculate(Point(arr, []), FunctionValue())
        except Exception as e:      # noqa: BLE001
            v("evaluated-at-metadata", what="evaluating at the " + what + " vector raised", error=repr(e)[:200])
    now = _snapshot(fam, args, a)
    if now != ref:
        k = next(k for k in ref if now.get(k) != ref[k])
        v("evaluated-at-metadata", changed=k, before=ref[k], after=now.get(k))
        return viol
    arr = a.knownOptimum[0].point.floatVariables
    try:
        if isinstance(arr, np.ndarray):
            arr -= 1.2345
        else:
            for j in range(len(arr)):
                arr[j] = arr[j] - 1.2345
        a.knownOptimum[0].functionValues[0].value += 7.0
    except Exception:       # noqa: BLE001 - read-only metadata is fine
        pass
    b = oc.construct(fam, args)
    now = _snapshot(fam, args, b)
    if now != ref:
        k = next(k for k in ref if now.get(k) != ref[k])
        v("scribbled-metadata", changed=k, before=ref[k], after=now.get(k),
          what="after the declared optimum of ANOTHER instance of this member was modified in place by its owner")
    return viol


# ---------------------------------------------------------------------------------------------------------------
# tables
# ---------------------------------------------------------------------------------------------------------------
def _tables(fam):
    if fam == "hill":
        import iOpt.problems.Hill.hill_generation as g
        return g, g.minHill, g.maxHill, g.lConstantHill, ("minHill", "maxHill", "lConstantHill")
    import iOpt.problems.Shekel.shekel_generation as g
    return g, g.minShekel, g.maxHill, g.lConstantHill, ("minShekel", "maxHill", "lConstantHill")


def _derivative(fam, g, i):
    if fam == "hill":
        a = np.array(g.aHill[i], dtype=float)
        b = np.array(g.bHill[i], dtype=float)
        w = 2 * np.pi * np.arange(len(a))

        def d(x):
            ph = np.outer(np.atleast_1d(x), w)
            return np.cos(ph) @ (a * w) - np.sin(ph) @ (b * w)
        return d
    k = np.array(g.kShekel[i], dtype=float)
    a = np.array(g.aShekel[i], dtype=float)
    c = np.array(g.cShekel[i], dtype=float)

    def d(x):
        x = np.atleast_1d(x)[:, None]
        return (2 * k * (x - a) / (k * (x - a) ** 2 + c) ** 2).sum(1)
    return d


def _refined_minima(g_real, dense_x, dense_v, k=6):
    """refined local minima [(x, value)] of g_real started from the k lowest grid minima"""
    from scipy.optimize import minimize_scalar
    out = []
    N = len(dense_x)
    for i in oc.grid_local_minima(dense_v, k):
        l, h, c = float(dense_x[max(i - 1, 0)]), float(dense_x[min(i + 1, N - 1)]), float(dense_x[i])
        cand = [(l, g_real(l)), (h, g_real(h)), (c, g_real(c))]
        if h > l:
            res = minimize_scalar(g_real, bounds=(l, h), method="bounded", options={"xatol": 1e-12, "maxiter": 200})
            cand.append((float(res.x), g_real(float(res.x))))
        out.append(min(cand, key=lambda t: t[1]))
    return out


def check_rows(fam, i, cseed):
    """the three table rows of function number i of `fam`; deterministic given cseed"""
    r = random.Random(cseed)
    viol, info = [], {"family": fam, "row": i}
    g, tmin, tmax, tlip, names = _tables(fam)

    def v(table, clause, **obs):
        viol.append({"property": "C18", "part": "table", "family": fam, "row": i, "cseed": cseed, "table": table,
                     "clause": clause, "observed": obs})
    p = oc.construct(fam, (i,))
    lo, hi = oc.box(p)
    a, b = float(lo[0]), float(hi[0])
    rng_ = b - a
    f_real = lambda t: oc.real_eval(p, [t])  # noqa: E731
    fast = oc.validated_fast(fam, (i,), p, r, lambda x: f_real(float(np.ravel(x)[0])))
    info["fast_path"] = fast is not None
    if fast is not None:
        xs = np.linspace(a, b, 20001)
        vs = fast(xs[:, None])
    else:
        xs = np.linspace(a, b, 4001)
        vs = np.array([f_real(float(t)) for t in xs])
    for sign, table, name in ((1.0, tmin, names[0]), (-1.0, tmax, names[1])):
        tv, tx = float(table[i][0]), float(table[i][1])
        ext = _refined_minima(lambda t: sign * f_real(t), xs, sign * vs)
        best = min(e[1] for e in ext)
        what = "min" if sign > 0 else "max"
        info[what] = sign * best
        if not abs(tv - sign * best) <= VAL_TOL:
            v(name, what + "_value", table_value=tv, extremum=sign * best, difference=tv - sign * best)
        true_x = [e[0] for e in ext if e[1] <= best + TIE_TOL]
        dist = min(abs(tx - x) for x in true_x)
        info[what + "_loc_err"] = dist
        if not dist <= (LOC_TOL + LOC_SLACK) * rng_:
            v(name, what + "_location", table_location=tx, true_extremisers=true_x, distance=dist,
              tolerance=LOC_TOL * rng_)
    # Lipschitz constant ---------------------------------------------------------------------------------------
    d_an = _derivative(fam, g, i)
    hstep = 1e-6 * rng_

    def d_fd(t):
        t = min(max(t, a + hstep), b - hstep)
        return (f_real(t + hstep) - f_real(t - hstep)) / (2 * hstep)
    ok = True
    for _ in range(8):
        t = r.uniform(a + hstep, b - hstep)
        if not abs(float(d_an(t)[0]) - d_fd(t)) <= 1e-5 * abs(d_fd(t)) + 1e-5:
            ok = False
    info["analytic_derivative"] = ok
    if ok:
        dv = -np.abs(d_an(xs))
        neg_abs = lambda t: -abs(float(d_an(t)[0]))  # noqa: E731
    else:
        xs = np.linspace(a, b, 4001)
        dv = -np.abs(np.array([d_fd(float(t)) for t in xs]))
        neg_abs = lambda t: -abs(d_fd(t))  # noqa: E731
    L = -min(e[1] for e in _refined_minima(neg_abs, xs, dv))
    tl = float(tlip[i])
    info["L"] = L
    info["L_rel_err"] = abs(tl - L) / L if L > 0 else math.inf
    if not abs(tl - L) <= LIP_TOL * L:
        v(names[2], "lipschitz", table_constant=tl, max_abs_derivative=L, relative_error=info["L_rel_err"])
    return viol, info


def coexisting_rows(fam, rows, tier):
    """the value clauses of the tables once more with MANY members alive at the same time: all objects of the batch are constructed
    first (a benchmark list built up-front), then each is evaluated at its published argmin / argmax; state shared between the
    instances of a family (class-level coefficient buffers) shows here and nowhere in a one-at-a-time sweep"""
    g, tmin, tmax, tlip, names = _tables(fam)
    objs = [(i, oc.guarded(oc.construct, fam, (i,))) for i in rows]
    viol = []
    for i, (p, err) in objs:
        if err is not None or p is None:
            continue
        for tab, name in ((tmin, names[0]), (tmax, names[1])):
            tv, tx = float(tab[i][0]), float(tab[i][1])
            val, e = oc.guarded(lambda: oc.real_eval(p, [tx]))
            if e is not None or not abs(val - tv) <= 1e-3:
                viol.append({"property": "C18", "part": "table", "family": fam, "row": i, "table": name, "tier": tier,
                             "clause": "value_when_coexisting", "batch_rows": list(rows),
                             "observed": {"published_value": tv, "published_point": tx, "value_of_this_instance_there": val if e is None else e,
                                          "note": "all %d instances of the batch were constructed before any was evaluated" % len(objs)}})
                break
    return viol


# ---------------------------------------------------------------------------------------------------------------
def run(tier, r):
    t0 = time.time()
    full = tier == "thorough"
    mem = [("hill", (i,)) for i in range(1000)] + [("shekel", (i,)) for i in range(1000)]
    mem += [("shekel4", (i,)) for i in (1, 2, 3)]
    mem += [("gkls", (d, k)) for d in (2, 3, 4, 5) for k in range(1, 101)]
    mem += [("grishagin", (k,)) for k in (range(1, 101) if full else sorted(r.sample(range(1, 101), 30)))]
    mem += [("stronginc3", ())]
    mem += [("rastrigin", (n,)) for n in range(1, 31)] + [("xsquared", (n,)) for n in range(1, 31)]
    violations, samples = [], []
    stats = {"metadata_members": {}, "dimensions": {}, "members_with_empty_or_duplicate_variable_names": 0,
             "table_rows": {}, "fast_path_rejected": 0, "analytic_derivative_rejected": 0,
             "max_value_err": {}, "max_loc_err_over_range": {}, "max_L_rel_err": {}}
    for fam, args in mem:
        if oc.common.past_oracle_cap() or len(violations) >= 60:
            stats["stopped_early"] = "deep-search time cap or enough violations"
            break
        res, err = oc.guarded(check_metadata, fam, args)
        if err is not None:
            violations.append({"property": "C18", "part": "metadata", "family": fam, "args": list(args), "tier": tier,
                               "clause": "exception", "observed": err})
            stats["exceptions"] = stats.get("exceptions", 0) + 1
            continue
        viol, info = res
        for c in viol:
            c["tier"] = tier
        violations += viol
        stats["metadata_members"][fam] = stats["metadata_members"].get(fam, 0) + 1
        stats["dimensions"][str(info.get("n"))] = stats["dimensions"].get(str(info.get("n")), 0) + 1
        stats["members_with_empty_or_duplicate_variable_names"] += 1 if info.get("duplicate_names") else 0
    # part "handled" (a seeded sample of members; the LAST step before the table part reads the tables)
    hm = [("hill", (i,)) for i in sorted(r.sample(range(1000), 30 if not full else 300))] + \
         [("shekel", (i,)) for i in sorted(r.sample(range(1000), 30 if not full else 300))] + \
         [("shekel4", (i,)) for i in (1, 2, 3)] + [("gkls", (d, k)) for d in (2, 3, 4, 5) for k in sorted(r.sample(range(1, 101), 3 if not full else 25))] + \
         [("grishagin", (k,)) for k in sorted(r.sample(range(1, 101), 4 if not full else 30))] + [("stronginc3", ())] + \
         [("rastrigin", (n,)) for n in (1, 2, 5)] + [("xsquared", (n,)) for n in (1, 3)]
    for fam, args in hm:
        if oc.common.past_oracle_cap() or len(violations) >= 60:
            break
        res, err = oc.guarded(handled_member, fam, args)
        if err is not None:
            violations.append({"property": "C18", "part": "handled", "family": fam, "args": list(args), "tier": tier,
                               "clause": "exception", "observed": err})
            continue
        for c in res:
            c["tier"] = tier
        violations += res
        stats["handled_members"] = stats.get("handled_members", 0) + 1
    n_meta = len(mem) + len(hm)
    n_rows = 0
    for fam in ("hill", "shekel"):
        rows_c = sorted(r.sample(range(1000), 40 if not full else 400))
        cv, ce = oc.guarded(coexisting_rows, fam, rows_c, tier)
        violations += (cv or [])[:10]
        stats.setdefault("coexisting_instances_checked", 0)
        stats["coexisting_instances_checked"] += len(rows_c)
    for fam in ("hill", "shekel"):
        rows = range(1000) if full else sorted(r.sample(range(1000), 70))
        g, tmin, tmax, tlip, names = _tables(fam)
        rng_ = 1.0 if fam == "hill" else 10.0
        for i in rows:
            cseed = r.getrandbits(48)
            n_rows += 3
            res, err = oc.guarded(check_rows, fam, i, cseed)
            if err is not None:
                violations.append({"property": "C18", "part": "table", "family": fam, "row": i, "cseed": cseed,
                                   "table": "*", "tier": tier, "clause": "exception", "observed": err})
                stats["exceptions"] = stats.get("exceptions", 0) + 1
                continue
            viol, info = res
            for c in viol:
                c["tier"] = tier
            violations += viol
            stats["table_rows"][fam] = stats["table_rows"].get(fam, 0) + 3
            stats["fast_path_rejected"] += 0 if info["fast_path"] else 1
            stats["analytic_derivative_rejected"] += 0 if info["analytic_derivative"] else 1
            ve = max(abs(float(tmin[i][0]) - info["min"]), abs(float(tmax[i][0]) - info["max"]))
            stats["max_value_err"][fam] = max(stats["max_value_err"].get(fam, 0.0), ve)
            le = max(info["min_loc_err"], info["max_loc_err"]) / rng_
            stats["max_loc_err_over_range"][fam] = max(stats["max_loc_err_over_range"].get(fam, 0.0), le)
            stats["max_L_rel_err"][fam] = max(stats["max_L_rel_err"].get(fam, 0.0), info["L_rel_err"])
            if len(samples) < 3 and not any(s.get("family") == fam for s in samples):
                samples.append(info)
    res, err = oc.guarded(check_metadata, "gkls", (3, 7))
    samples.append({"metadata_example": {"family": "gkls", "args": [3, 7],
                                         "violations": res[0] if err is None else [err]}})
    stats["wall_s"] = round(time.time() - t0, 1)
    return {"explored": n_meta + n_rows, "distinct_nontrivial": n_meta + n_rows,
            "rule": "cases = constructed members (metadata part: every member listed in the module docstring, all "
                    "distinct constructor arguments) + table rows (3 tables x 70 seeded function numbers per family in "
                    "quick, x 1000 in thorough). Every case is non-trivial: a member has >= 1 variable and a table "
                    "row is compared with an extremum computed from >= 20 000 grid values and real refinements.",
            "violations": violations, "known": [], "stats": stats, "samples": samples}


def replay(case):
    if case.get("clause") == "value_when_coexisting":
        viol = coexisting_rows(case["family"], case["batch_rows"], case.get("tier", "quick"))
        hit = [c for c in viol if c["row"] == case["row"] and c["table"] == case["table"]]
        return {"reproduced": bool(hit), "detail": hit[0]["observed"] if hit else {"violations_found": len(viol)}}
    if case["part"] == "handled":
        res, err = oc.guarded(handled_member, case["family"], tuple(case["args"]))
        if err is not None:
            return {"reproduced": case["clause"] == "exception", "detail": err}
        hit = [c for c in res if c["clause"] == case["clause"]]
        return {"reproduced": bool(hit), "detail": hit[0]["observed"] if hit else {"violations_found": len(res)}}
    if case["part"] == "metadata":
        res, err = oc.guarded(check_metadata, case["family"], tuple(case["args"]))
    else:
        res, err = oc.guarded(check_rows, case["family"], case["row"], case["cseed"])
    if err is not None:
        return {"reproduced": case["clause"] == "exception", "detail": err}
    viol, info = res
    if case["part"] == "metadata":
        hit = [c for c in viol if c["clause"] == case["clause"]]
    else:
        hit = [c for c in viol if c["clause"] == case["clause"] and c["table"] == case["table"]]
    return {"reproduced": bool(hit), "detail": hit[0]["observed"] if hit else {"info": info}}
