"""C05 - all evaluations and the result stay inside the box; refinement never worsens.

Real Solve() runs with refineSolution in {False, True} on objectives whose unconstrained minimum lies
outside / on the boundary of the box (linear, quadratics centred outside or on a face, corner cones)
and on the general families.  Clauses (containment is tested EXACTLY; only global-phase points of 1-D problems get 4 ulps, see `outside`):
  global-point-in-box    every global-phase evaluation point lies in [lower, upper]
  local-point-in-box     every local-phase (refinement) evaluation point lies in [lower, upper]
  result-in-box          the returned Solution point lies in [lower, upper] (and has N finite coordinates)
  refine-not-worse       returned value <= best value of the global phase
  value-is-objective     returned value == objective(returned point), recomputed
  refinement-ran         refineSolution=True really made local calls and reports their number; False made none
Observation (no clause): stats['record_changed_by_refinement_runs'] counts the refined runs after which the best item of the
search record no longer carries the evolvent image of its coordinate / its GetZ() (DoLocalRefinement overwrites it in place).
"""
import os
import sys
import math

_D = os.path.dirname(os.path.abspath(__file__))
for _p in (os.path.dirname(_D), _D):
    if _p not in sys.path:
        sys.path.insert(0, _p)
import o1_common as oc

PROP = "C05"
RULE = ("55% boundary objectives (linear, quad with centre outside/on a face, cone at a corner, single-axis linear), 45% general "
        "families; random boxes incl. tiny/huge/non-symmetric; N=1..5; refineSolution True in 65% of the cases; itersLimit "
        "in {3..400} (so that the Nelder-Mead budget 0.05*itersLimit varies from <1 to 20 iterations). Distinct by parameter "
        "set; non-trivial if refinement ran and evaluated a point different from its start, or (refine False) >= 3 trials.")


def outside(pt, lower, upper, ulps=0):
    """EXACT containment (ulps = 0): for N >= 2 the images of the evolvent are cell centres at least side*2^-13 inside the box,
    far more than the rounding of the affine map for every generated box, and the bounded Nelder-Mead clips to the bounds
    exactly.  For N = 1 there is no grid: the image is the affine map of x in (0,1), and once the search has converged to an end
    of the segment (x within ~1e-16 of 0 or 1) that map can round ONE ulp beyond the bound - the floating-point rounding of
    the cube-to-box map that the evolvent properties allow; global-phase points of 1-D problems get `ulps` = 4 of slack."""
    out = []
    for i, (v, lo, up) in enumerate(zip(pt, lower, upper)):
        tol = ulps * math.ulp(max(abs(lo), abs(up)))
        if not (lo - tol <= v <= up + tol) or not math.isfinite(v):
            out.append({"coordinate": i, "value": v, "lower": lo, "upper": up})
    return out


def check_case(case):
    vs = []
    info = {}
    run = oc.Run(case, cap=40 * max(case["lim"], 16) + 2000)
    err, sol = None, None
    try:
        if case.get("pre_refine"):
            # global iterations, a local refinement, MORE global iterations (then Solve, possibly refining again)
            import contextlib
            k1, n1, k2 = case["pre_refine"]
            if run.iterate(k1) and run.glog():
                with contextlib.redirect_stdout(run.out):
                    run.solver.DoLocalRefinement(n1)
                run.iterate(k2)
        sol = run.solve()
    except BaseException as e:                 # noqa
        err = repr(e)
    if run.trouble(err):
        vs.append(oc.violation(PROP, case, "no-internal-error", run.trouble(err)))
    info["float_collapse"] = bool(run.collapsed)
    lower, upper = case["lower"], case["upper"]
    nbad = 0
    g_ulps = 4 if case["n"] == 1 else 0
    for j, e in enumerate(run.problem.log):
        o = outside(e[1], lower, upper, g_ulps if e[0] == "global" else 0)
        if o or len(e[1]) != case["n"]:
            nbad += 1
            if nbad <= 3:
                vs.append(oc.violation(PROP, case, "global-point-in-box" if e[0] == "global" else "local-point-in-box",
                                       {"call": j + 1, "phase": e[0], "point": e[1], "outside": o}))
    info["points_outside"] = nbad
    g, l = run.glog(), run.llog()
    info.update(trials=len(g), local=len(l))
    if sol is None:
        return vs, info
    point, value = oc.best_of(sol)
    r_ulps = g_ulps if (point is not None and any(e[1] == point for e in g)) else 0     # the result is a global-phase point
    if point is None or len(point) != case["n"] or outside(point, lower, upper, r_ulps):
        vs.append(oc.violation(PROP, case, "result-in-box", {"point": point, "outside": outside(point or (), lower, upper, r_ulps)}))
    if g:
        # (1-D rounding caveat, see `outside`: a global trial one ulp beyond a bound is clipped back by the bounded refinement; the
        # refinement is compared with the best global trial that lies exactly inside the box)
        g_in = [e for e in g if not outside(e[1], lower, upper)] or g
        gbest = min(e[2] for e in g_in)
        if not (value <= gbest):
            vs.append(oc.violation(PROP, case, "refine-not-worse", {"returned_value": value, "best_global_value": gbest,
                                                                    "returned_point": point}))
        info["improved"] = value < gbest
    if point is not None and len(point) == case["n"]:
        f = run.pure(point)
        if value != f:
            vs.append(oc.violation(PROP, case, "value-is-objective", {"returned_value": value, "objective_at_point": f,
                                                                      "returned_point": point}))
    if case["refine"] or case.get("pre_refine"):
        # (a run that ended by the legitimate float collapse is not given a Solve() call by this oracle - Run.solve only asks for the
        # results then - so no refinement was requested and none is expected)
        if case["refine"] and not run.collapsed and (not l or sol.numberOfLocalTrials <= 0):
            vs.append(oc.violation(PROP, case, "refinement-ran", {"local_calls": len(l), "reported": sol.numberOfLocalTrials}))
    elif l or sol.numberOfLocalTrials != 0:
        vs.append(oc.violation(PROP, case, "refinement-ran", {"local_calls": len(l), "reported": sol.numberOfLocalTrials,
                                                              "refineSolution": False}))
    info["moved"] = len({e[1] for e in l}) > 1
    # observation only (not a clause of C05/C06): the refinement writes its result in place into the best item of the
    # search record, whose point then is no longer the evolvent image of its coordinate / whose value differs from GetZ()
    mb = run.solver.method.best
    if case["refine"] and mb is not None:
        img = tuple(float(v) for v in run.fresh_image(float(mb.GetX())))
        now = tuple(float(v) for v in mb.point.floatVariables)
        info["record_changed"] = now != img or mb.GetZ() != mb.functionValues[0].value
    return vs, info


def gen(r):
    if r.random() < 0.04:
        return oc.band_case(r, refine=r.random() < 0.6)      # overflowing objective values (F11, F13)
    n = r.choice((1, 1, 2, 2, 3, 3, 4, 5))
    spec = oc.boundary_spec(r, n) if r.random() < 0.55 else None
    case = oc.gen_case(r, n=n, spec=spec, refine=r.random() < 0.65, lim=r.choice([3, 5, 8, 17, 20, 40, 80, 150, 400]))
    if r.random() < 0.2:
        case["fresh_holder"] = True       # the objective returns a NEW value holder instead of filling in the one it was given
    if r.random() < 0.12:
        case["pre_refine"] = [r.choice([2, 5, 15, 40]), r.choice([-1, 3, 10]), r.choice([1, 10, 60, 150])]
        case["lim"] = max(case["lim"], 40)
    return case


def run(tier, r):
    oc.reset_hangs()
    ncases = 3000 if tier == "quick" else 42000
    vs, stats, samples, keys = [], {}, [], set()
    nontrivial = explored = 0
    for i in range(ncases):
        if oc.too_many_hangs(stats):
            break
        case = gen(r)
        v, info = oc.safe(check_case, PROP)(case)
        explored += 1
        vs += v
        oc.bump(stats, "dim%d" % case["n"])
        oc.bump(stats, "kind_" + case["spec"]["kind"])
        oc.bump(stats, "refine_true" if case["refine"] else "refine_false")
        oc.bump(stats, "global_points", info.get("trials", 0))
        oc.bump(stats, "float_collapse_stops", 1 if info.get("float_collapse") else 0)
        oc.bump(stats, "local_points", info.get("local", 0))
        oc.bump(stats, "refinement_improved", 1 if info.get("improved") else 0)
        oc.bump(stats, "record_changed_by_refinement_runs", 1 if info.get("record_changed") else 0)
        key = oc.case_key(case)
        if key not in keys:
            keys.add(key)
            if (case["refine"] and info.get("moved")) or (not case["refine"] and info.get("trials", 0) >= 3):
                nontrivial += 1
        if i < 3:
            samples.append({"case": case, "info": info})
    return oc.finish(PROP, RULE, explored, nontrivial, vs, stats, samples)


def replay(v):
    return oc.generic_replay(check_case, v)


if __name__ == "__main__":
    import json, time
    t = time.time()
    tier = sys.argv[1] if len(sys.argv) > 1 else "quick"
    res = run(tier, oc.common.rng("oracle:" + PROP))
    res["wall_s"] = round(time.time() - t, 1)
    print(json.dumps({k: res[k] for k in res if k not in ("samples", "rule")}, indent=1)[:6000])
