"""Shared helpers of the o1 oracles (C01, C02, C03, C04, C05, C06, C11, C16, C20): drive the real
iOpt.solver.Solver on LoggedProblem objectives and recompute everything a property talks about from
the observable history alone (independently of any model).

Nothing here writes to disk; all randomness comes from the random.Random handed in by the caller."""
import os
import sys

os.environ.setdefault("MPLBACKEND", "Agg")
_HERE = os.path.dirname(os.path.abspath(__file__))
_HARNESS = os.path.dirname(_HERE)
for _p in (_HARNESS, _HERE):
    if _p not in sys.path:
        sys.path.insert(0, _p)

import io
import json
import math
import bisect
import contextlib
import re
import signal
import threading
import traceback

import common
common.ensure_repo_on_path()
import numpy as np
import objectives
from impl import LoggedProblem
from streams import gen_box

_COLLAPSE = re.compile(r"x is outside of interval (\S+) (\S+) (\S+)")
MAX_VIOLATIONS = 25          # recorded per run (the total count is kept in stats)


class Runaway(BaseException):
    """raised by the guarded objective when the solver evaluates far more often than any budget allows
    (turns a non-terminating search into a reportable failure instead of a hang)"""


class Hang(BaseException):
    """raised by the watchdog when one call into the solver does not return (e.g. a loop that never evaluates the objective)"""


WATCHDOG_S = 30.0            # one Solve()/DoGlobalIteration() call normally takes well under a second
MAX_HANGS = 3                # after that many watchdog hits a run() stops exploring (each costs WATCHDOG_S)
_HANGS = [0]


def reset_hangs():
    _NVIOL[0] = 0
    _reset_hangs()


def _reset_hangs():
    _HANGS[0] = 0


_NVIOL = [0]


def too_many_hangs(stats=None):
    """also the place where a run() loop learns that it should stop generating cases: the deep-search time cap has passed, or
    enough violations have been collected already"""
    if common.past_oracle_cap():
        if stats is not None:
            stats["stopped_at_deep_search_cap_s"] = common.ORACLE_CAP[0][1]
        return True
    if common.ORACLE_CAP[0] is not None and _NVIOL[0] >= 60:      # (deep search only: known findings count here too)
        if stats is not None:
            stats["stopped_after_violations"] = _NVIOL[0]
        return True
    if _HANGS[0] >= MAX_HANGS:
        if stats is not None:
            stats["aborted_after_hangs"] = _HANGS[0]
        return True
    return False


@contextlib.contextmanager
def watchdog(run, seconds=None):
    """CPU-time based (ITIMER_PROF / SIGPROF: the seconds are seconds of THIS process's CPU time, so a heavily loaded machine cannot
    make a healthy call look like a hang); only active in the main thread (elsewhere it is a no-op)"""
    seconds = seconds or WATCHDOG_S
    if threading.current_thread() is not threading.main_thread() or not hasattr(signal, "setitimer"):
        yield
        return

    def handler(signum, frame):
        run.hang = True
        _HANGS[0] += 1
        raise Hang("a solver call did not return within %g s" % seconds)
    try:
        old = signal.signal(signal.SIGPROF, handler)
    except ValueError:
        yield
        return
    old_timer = signal.setitimer(signal.ITIMER_PROF, seconds)
    try:
        yield
    finally:
        signal.setitimer(signal.ITIMER_PROF, 0)
        signal.signal(signal.SIGPROF, old)
        if old_timer[0] > 0:
            signal.setitimer(signal.ITIMER_PROF, *old_timer)


class OracleFailure(BaseException):
    """the custom BaseException subclass used by the fault-injection oracle (C16)"""


EXC = {"ValueError": ValueError, "KeyboardInterrupt": KeyboardInterrupt, "OracleFailure": OracleFailure,
       # failures a numerical objective really produces, and control-flow exceptions an embedding application may raise
       "ZeroDivisionError": ZeroDivisionError, "OverflowError": OverflowError, "FloatingPointError": FloatingPointError,
       "RuntimeError": RuntimeError, "MemoryError": MemoryError, "StopIteration": StopIteration, "SystemExit": SystemExit,
       "GeneratorExit": GeneratorExit, "AssertionError": AssertionError, "TypeError": TypeError, "IndexError": IndexError}


# ---------------------------------------------------------------------------------------------
# case generation
# ---------------------------------------------------------------------------------------------
DENSITIES = [2, 3, 4, 5, 6, 8, 10, 12]
LIMITS = [1, 2, 3, 4, 5, 8, 17, 40, 80, 150, 400]
EPSS = [1.5, 1.0, 0.5, 0.2, 0.1, 0.05, 0.02, 0.01, 0.003, 1e-3, 1e-4]


def gen_density(r, n):
    m = r.choice(DENSITIES)
    while n * m > 50:
        m -= 1
    return m


def gen_case(r, n=None, dims=(1, 1, 2, 2, 3, 4, 5), exact_only=False, spec=None, box=None, m=None, lim=None,
             eps=None, rr=None, refine=False):
    """one JSON-able problem + parameter set"""
    n = n or r.choice(dims)
    spec = spec if spec is not None else objectives.gen_spec(r, n, exact_only)
    if not exact_only and spec["kind"] not in ("offset", "band") and r.random() < 0.05:
        # values that are LARGE compared with their variation (a comparison with a relative tolerance would blur them)
        spec = {"kind": "offset", "c": r.choice([1e10, 1e6, -1e9, 12345678.5]), "s": r.choice([1.0, 1.0, 1e-4]), "of": spec}
    lower, upper = box if box is not None else gen_box(r, n)
    m = m if m is not None else gen_density(r, n)
    m = common.cap_density(lower, upper, m)
    lim = lim if lim is not None else r.choice(LIMITS)
    eps = eps if eps is not None else r.choice(EPSS)
    rr = rr if rr is not None else round(r.uniform(1.05, 6.0), 2)
    case = {"n": n, "m": m, "lim": lim, "eps": eps, "r": rr, "lower": [float(v) for v in lower],
            "upper": [float(v) for v in upper], "spec": spec, "refine": bool(refine)}
    if all(float(v).is_integer() for v in case["lower"] + case["upper"]) and r.random() < 0.3:
        case["int_bounds"] = r.choice(("list", "int64"))     # integer-valued box given with integer-typed bounds
    if r.random() < 0.06:
        case["fresh_holder"] = True     # the objective returns a NEW value holder instead of filling in the one it was given
    if r.random() < 0.04:
        case["discrete"] = r.choice((1, 2))   # the problem declares discrete parameters (ignored by this solver version)
    if r.random() < 0.08:
        case["ev_probe"] = r.choice(("inverse", "both", "stored", "rebound", "walk", "peek"))    # the solver's evolvent is queried by the caller between the calls
    if r.random() < 0.04:
        case["np_params"] = r.choice(("int64", "int32"))    # the parameters are given as numpy scalars
    if case["lim"] <= 60 and r.random() < 0.05:
        case["shipped"] = gen_shipped(r, case["n"])    # a listener shipped with the library watches the run
    if r.random() < 0.08:
        nb = r.choice((1, 2, 3))
        blo, bhi = gen_box(r, nb)
        case["bg"] = {"spec": objectives.gen_spec(r, nb), "lower": [float(v) for v in blo], "upper": [float(v) for v in bhi],
                      "r": round(r.uniform(1.5, 5.0), 2), "m": r.randint(2, 10)}
    return case


_HEADLESS = {}


def shipped_listener(sh):
    """an instance of a listener class of iOpt/method/listener.py, usable without a display: matplotlib on the Agg backend,
    plt.show / plt.pause are no-ops for the rest of this process, figures go to one scratch directory removed at exit"""
    import iOpt.method.listener as lm
    name, kw = sh
    if name.startswith("Console"):
        return getattr(lm, name)(**kw)
    if not _HEADLESS:
        os.environ.setdefault("MPLBACKEND", "Agg")
        import atexit, shutil, tempfile, warnings
        import matplotlib
        matplotlib.use("Agg", force=True)
        import matplotlib.pyplot as plt
        plt.show = lambda *a, **k: None
        plt.pause = lambda *a, **k: None
        warnings.filterwarnings("ignore", module="matplotlib")
        _HEADLESS["dir"] = tempfile.mkdtemp(prefix="iopt-oracle-fig-")
        _HEADLESS["plt"] = plt
        atexit.register(shutil.rmtree, _HEADLESS["dir"], True)
    _HEADLESS["plt"].close("all")
    return getattr(lm, name)("fig.png", _HEADLESS["dir"], **kw)


def gen_shipped(r, n):
    fam = [("ConsoleFullOutputListener", {"mode": r.choice(["full", "custom", "result"])}),
           ("StaticPaintListener", {"mode": "objective function", "indx": r.randrange(n)}),
           ("StaticPaintListener", {"mode": "only points", "indx": r.randrange(n), "isPointsAtBottom": r.random() < 0.5})]
    if n == 1:
        fam.append(("AnimationPaintListener", {"toPaintObjFunc": r.random() < 0.7}))
    if n >= 2:
        ax = r.sample(range(n), 2)
        fam += [("StaticNDPaintListener", {"mode": "lines layers", "calc": "objective function", "varsIndxs": ax}),
                ("AnimationNDPaintListener", {"toPaintObjFunc": r.random() < 0.7, "varsIndxs": ax})]
    return list(r.choice(fam))


def band_case(r, **kw):
    """a HUGE penalty value (1e155 .. inf) on a band of the box: differences of such values overflow and characteristics become
    NaN (repaired defects F11, F13); every clause that does not itself compute with the huge values is still claimed"""
    n = kw.pop("n", None) or r.choice((1, 1, 2, 3))
    case = gen_case(r, n=n, lim=kw.pop("lim", None) or r.choice([8, 17, 40]), **kw)
    case["spec"] = {"kind": "band", "a": round(r.uniform(0.1, 0.8), 3), "w": round(r.uniform(0.05, 0.5), 3),
                    "big": r.choice([1e155, 1e200, 1.7976931348623157e308, float("inf"), float("-inf"), -1e200]), "of": case["spec"]}
    for k_ in ("shipped", "bg"):
        case.pop(k_, None)
    return case


def boundary_spec(r, n):
    """objectives whose unconstrained minimum lies outside or on the boundary of the box"""
    k = r.choice(["linear", "quad_out", "quad_edge", "cone_corner", "linear_axis"])
    if k == "linear":
        return {"kind": "linear", "c": [r.choice([-1, 1]) * round(r.uniform(0.2, 3), 2) for _ in range(n)]}
    if k == "linear_axis":
        c = [0.0] * n
        c[r.randrange(n)] = r.choice([-1.0, 1.0, 2.5])
        return {"kind": "linear", "c": c}
    if k == "quad_out":
        return {"kind": "quad", "p": [r.choice([round(r.uniform(-0.8, -0.05), 3), round(r.uniform(1.05, 1.8), 3)])
                                      for _ in range(n)]}
    if k == "quad_edge":
        return {"kind": "quad", "p": [r.choice([0.0, 1.0, round(r.uniform(-0.5, 1.5), 3)]) for _ in range(n)]}
    return {"kind": "cone", "p": [float(r.choice([0, 1])) for _ in range(n)], "c": round(r.uniform(0.2, 4), 2)}


def step_spec(r, n):
    """plateau / step objectives: many exactly equal values"""
    return {"kind": "plateau", "q": r.choice([1, 1, 2, 4]), "of": objectives.gen_spec_trig(r, n)}


def scale_spec(spec, s):
    """multiply an exact-family objective by s > 0 (minimum and Lipschitz constant scale with it)"""
    k = spec["kind"]
    if k == "linear":
        return {"kind": k, "c": [c * s for c in spec["c"]]}
    if k == "cone":
        return {"kind": k, "p": list(spec["p"]), "c": spec["c"] * s}
    if k in ("pwlsum", "pwlmax"):
        return {"kind": k, "knots": [[(t, v * s) for t, v in kk] for kk in spec["knots"]]}
    if k == "needle":
        return {"kind": k, "spikes": [(c, w, h * s) for c, w, h in spec["spikes"]], "trend": spec.get("trend", 1.0) * s}
    if k == "const":
        return {"kind": k, "c": spec["c"] * s}
    raise ValueError(k)


def collapse_prone_case(r):
    """N = 1, a cone (exactly linear on both sides of its minimum) and a small r: the search converges geometrically and,
    if iterations are issued past the accuracy stop, reaches the float collapse within ~40-80 iterations"""
    spec = {"kind": "cone", "p": [round(r.uniform(0.05, 0.95), 3)], "c": round(r.uniform(0.5, 4), 2)}
    case = gen_case(r, n=1, spec=spec, lim=400, eps=r.choice([1e-4, 1e-3, 0.01]), rr=round(r.uniform(1.1, 1.6), 2), m=10)
    case["batches"] = [r.choice([1, 1, 2, 5, 9]) for _ in range(120)]
    return case


def case_key(case):
    return json.dumps(case, sort_keys=True, default=str)


# ---------------------------------------------------------------------------------------------
# building and running the real solver
# ---------------------------------------------------------------------------------------------
class Run:
    """a real Solver on a LoggedProblem for one case"""

    def __init__(self, case, fail_at=None, exc=None, listeners=(), cap=None, params=None):
        from iOpt.solver import Solver
        from iOpt.solver_parametrs import SolverParameters
        self.case = case
        self.n = case["n"]
        self.lower, self.upper = list(case["lower"]), list(case["upper"])
        self.pure = objectives.make(case["spec"], self.lower, self.upper)
        self.cap = cap if cap is not None else 4 * max(case["lim"], 16) + 64
        self.calls = 0
        self.runaway = False

        def guarded(pt):
            self.calls += 1
            if self.calls > self.cap:
                self.runaway = True
                raise Runaway("objective evaluated %d times" % self.calls)
            return self.pure(pt)
        self.problem = LoggedProblem.make(guarded, self.lower, self.upper, fail_at, exc,
                                          fresh_holder=bool(case.get("fresh_holder")),
                                          n_discrete=int(case.get("discrete", 0)), int_bounds=case.get("int_bounds"))
        self.problem.keep_other = False     # evaluations made by a painter to draw the objective are not trials of the search
        pk = dict(eps=case["eps"], r=case["r"], itersLimit=case["lim"], evolventDensity=case["m"], refineSolution=case.get("refine", False))
        if case.get("np_params"):
            # the same numbers as numpy scalars (values taken from an array, np.arange, a loaded configuration): int64 / int32 counts,
            # float64 reals, numpy bool
            pk = dict(eps=np.float64(pk["eps"]), r=np.float64(pk["r"]), itersLimit=np.int64(pk["itersLimit"]),
                      evolventDensity=(np.int32 if case["np_params"] == "int32" else np.int64)(pk["evolventDensity"]),
                      refineSolution=np.bool_(pk["refineSolution"]))
        # (params: an existing SolverParameters OBJECT to be used as it is - e.g. the one an earlier solver was built with)
        self.solver = Solver(self.problem, params if params is not None else SolverParameters(**pk))
        # case["shipped"]: one of the listeners shipped with the library (console output, painters) is attached in front of the
        # oracle's own: the properties of a run are claimed whatever listeners watch it, and the painters probe the objective and
        # are handed the live search data and solution in OnMethodStop
        # (not in runs where an evaluation is made to fail or a zero-length batch is issued before the first trial: the shipped
        # painters are written for the plain Solve / DoGlobalIteration(k >= 1) usage and raise on an empty record - recorded in
        # DESIGN.md, not a property of this list)
        self.shipped = bool(case.get("shipped")) and (fail_at is None or fail_at >= 2) and not case.get("first_fails") \
            and case["spec"].get("kind") != "band" \
            and 0 not in case.get("batches", ()) and not any(0 in c for c in case.get("compositions", ()))
        if self.shipped:
            self.cap += 200000
            self.solver.AddListener(shipped_listener(case["shipped"]))
        for l in listeners:
            self.solver.AddListener(l)
        # case["bg"]: a second, unrelated solver lives in the same process and makes one iteration before and after every call
        # into this one (the properties of one solver are claimed whatever other solver instances exist or do)
        self.bg = None
        if case.get("bg"):
            b = case["bg"]
            fn = objectives.make(b["spec"], b["lower"], b["upper"])
            self.bg = Solver(LoggedProblem.make(fn, b["lower"], b["upper"]),
                             SolverParameters(eps=1e-9, r=b["r"], itersLimit=10 ** 6, evolventDensity=b["m"]))
            self.bg_steps = 0
        self.out = io.StringIO()
        self.collapsed = None      # info on the float collapse that ended the run
        self.bad_marker = False    # 'Exception was thrown' printed for any other reason
        self.hang = False          # the watchdog fired during a solver call
        self.peek_differs = None   # probe "peek": two consecutive GetImage(x) of the solver's evolvent returned different points

    # every call into the solver goes through one of these (stdout captured).
    #
    # Float collapse: once an interval has shrunk to a few ulps, the new point computed by
    # CalculateNextPointCoordinate rounds onto an end point and the code raises
    # Exception('... x is outside of interval') (unreachable in exact arithmetic).  That is the legitimate end of
    # the run: `collapsed` is set, no further iteration is issued (iterate/solve become no-ops) and every
    # clause is still tested on the state reached.  It is legitimate only if the interval really was tiny:
    # x_r - x_l <= 1e-12*max(1,|x_r|); otherwise it is reported (`trouble`).
    def _scan(self):
        txt = self.out.getvalue()
        return len(_COLLAPSE.findall(txt)), txt.count("Exception was thrown")

    def collapse_info(self):
        ms = _COLLAPSE.findall(self.out.getvalue())
        if not ms:
            return None
        try:
            x, xl, xr = (float(v) for v in ms[-1])
        except ValueError:
            return {"unparsed": ms[-1], "tiny": False}
        return {"x": x, "xl": xl, "xr": xr, "width": xr - xl, "tiny": (xr - xl) <= 1e-12 * max(1.0, abs(xr))}

    def _bg_step(self):
        if self.case.get("ev_probe"):
            # the caller queries the solver's own evolvent between the calls (queries are pure: C17), e.g. to locate a known point
            try:
                ev = self.solver.evolvent
                mid = [l + 0.37 * (u - l) for l, u in zip(self.lower, self.upper)]
                ev.GetInverseImage(np.array(mid, dtype=np.double))
                if self.case["ev_probe"] == "both":
                    ev.GetImage(0.61)
                if self.case["ev_probe"] == "peek":
                    # "where will the search start / where on the curve was this trial made?": the caller asks for the image of the very
                    # coordinates the solver uses itself - the centre 0.5 before the first trial, afterwards those of recorded trials
                    # (asked twice in a row: a query is a function of its argument)
                    sd = self.solver.searchData
                    if sd.GetCount() <= 2:
                        a_, b_ = ev.GetImage(0.5), ev.GetImage(0.5)
                    else:
                        its = [it for it in sd]
                        t_ = its[len(its) // 2].GetX()
                        a_, b_ = ev.GetImage(t_), ev.GetImage(t_)
                        ev.GetImage(its[-2].GetX())
                    if not np.array_equal(a_, b_):
                        self.peek_differs = (a_.tolist(), b_.tolist())
                if self.case["ev_probe"] == "walk":
                    # the caller LOOKS at the search data between the calls and leaves the loop early (any(...), a `for` with
                    # `break`, the read-only lookup by coordinate): a half-finished walk must not disturb the next iteration
                    sd = self.solver.searchData
                    if sd.GetCount() > 2:
                        for k_, it in enumerate(sd):
                            if k_ >= 1 + sd.GetCount() // 3:
                                break
                        any(it.GetX() > 0.4 for it in sd)
                        sd.FindDataItemByOneDimensionalPoint(0.37)
                if self.case["ev_probe"] == "rebound":
                    # the caller re-applies the SAME box through the public SetBounds (e.g. after editing the problem's bounds and
                    # deciding to keep them): nothing about the evolvent may change
                    ev.SetBounds(np.array(self.lower, dtype=np.double), np.array(self.upper, dtype=np.double))
                if self.case["ev_probe"] == "stored":
                    # ... with the point objects of the record / of the current best trial THEMSELVES (the stored float64 arrays,
                    # not copies): "where on the curve is this trial?" must not disturb what is stored
                    sd = self.solver.searchData
                    if sd.GetCount() > 2:
                        its = [it for it in sd]
                        for it in (its[len(its) // 2], its[-2], its[1]):
                            ev.GetPreimages(it.GetY().floatVariables)
                            ev.GetInverseImage(it.GetY().floatVariables)
                        b = getattr(self.solver.method, "best", None)
                        if b is not None:
                            ev.GetPreimages(b.point.floatVariables)
            except Exception:      # noqa: BLE001
                pass
        if self.bg is not None and self.bg_steps < 400:
            self.bg_steps += 1
            try:
                with contextlib.redirect_stdout(io.StringIO()):
                    self.bg.DoGlobalIteration(1)
            except Exception:       # noqa: BLE001 - the companion is not under test (float collapse of its own run)
                self.bg = None

    def solve(self):
        """Solve(); on a run that already ended by float collapse only GetResults()"""
        if self.collapsed:
            return self.solver.GetResults()
        c0, m0 = self._scan()
        common.beat("oracle: Solve()", {"case": self.case})
        self._bg_step()
        with contextlib.redirect_stdout(self.out), watchdog(self):
            sol = self.solver.Solve()
        self._bg_step()
        c1, m1 = self._scan()
        if m1 > m0:
            col = self.collapse_info() if c1 > c0 else None
            if col and col["tiny"]:
                self.collapsed = col
            else:
                self.bad_marker = True
        return sol

    def iterate(self, k=1):
        """DoGlobalIteration(k); returns False (and does nothing more) once the run ended by float collapse"""
        if self.collapsed:
            return False
        c0, _ = self._scan()
        common.beat("oracle: DoGlobalIteration(%d)" % k, {"case": self.case})
        self._bg_step()
        try:
            with contextlib.redirect_stdout(self.out), watchdog(self):
                self.solver.DoGlobalIteration(k)
            self._bg_step()
        except Exception as e:
            c1, _ = self._scan()
            col = self.collapse_info() if c1 > c0 else None
            if "x is outside of interval" in str(e) and col and col["tiny"]:
                self.collapsed = col
                return False
            raise
        return True

    def refine(self, k=-1):
        """DoLocalRefinement(k) called by the user between global phases (k = -1: the default local budget)"""
        if self.collapsed:
            return
        common.beat("oracle: DoLocalRefinement(%d)" % k, {"case": self.case})
        # the evaluations of the local phase do not count against the runaway cap of the global search (scipy bounds them itself;
        # a call that never returns is the hang watchdog's business)
        c0, old = self.calls, self.cap
        self.cap = float("inf")
        try:
            with contextlib.redirect_stdout(self.out), watchdog(self):
                self.solver.DoLocalRefinement(k)
        finally:
            self.cap = old + (self.calls - c0)

    def trouble(self, err=None):
        """None, or what went wrong inside the solver other than a legitimate float collapse"""
        if self.peek_differs:
            return {"evolvent_image_of_the_same_x_differs": self.peek_differs}
        if self.case["spec"].get("kind") == "band" and not (err or self.runaway or self.hang):
            # objectives with overflowing values: the new point of an interval with an infinite end value is NaN and the run ends by
            # "x is outside of interval" on a non-tiny interval (contained by Solve) - outside exact arithmetic, not an internal error
            return None
        if err or self.bad_marker or self.runaway or self.hang:
            return {"raised": err, "unexpected_exception_marker": self.bad_marker, "runaway": self.runaway,
                    "hang": self.hang,
                    "outside_of_interval": self.collapse_info()}
        return None

    def stopped(self):
        return self.solver.method.CheckStopCondition()

    @property
    def printed_exception(self):
        return "Exception was thrown" in self.out.getvalue()

    def glog(self):
        return [e for e in self.problem.log if e[0] == "global"]

    def llog(self):
        return [e for e in self.problem.log if e[0] == "local"]

    def history(self):
        """[(x, z, point)] in order of evaluation: x from the stored items (insertion order), point and
        value from the Calculate log"""
        g = self.glog()
        items = self.solver.searchData._allTrials[2:]
        return [(float(it.GetX()), e[2], e[1]) for it, e in zip(items, g)], len(items), len(g)

    def fresh_image(self, x):
        from iOpt.evolvent.evolvent import Evolvent
        ev = Evolvent(np.array(self.lower, dtype=np.double), np.array(self.upper, dtype=np.double), self.n,
                      self.case["m"])
        return ev.GetImage(x)


def best_of(solution):
    b = solution.bestTrials[0]
    pt = b.point
    fv = getattr(pt, "floatVariables", None) if pt is not None and not isinstance(pt, list) else None
    point = None if fv is None else tuple(float(v) for v in fv)
    value = b.functionValues[0].value if len(b.functionValues) else None
    return point, value


# ---------------------------------------------------------------------------------------------
# the partition of [0,1] recomputed from the x history
# ---------------------------------------------------------------------------------------------
def holder(xl, xr, n):
    """the Hölder length of [xl, xr]: the same expression as the stored one, hence bit-for-bit"""
    return pow(xr - xl, 1.0 / n)


def chosen_intervals(xs, n):
    """out[k-1] for trial k (1-based): the interval (xl, xr, delta) of the partition made by trials 1..k-1 that
    contains x_k (out[0] is the whole segment, seeded by the first trial); None if x_k coincides with an
    existing coordinate or is not strictly inside (0,1) (such a point is not added to the partition)"""
    srt = [0.0, 1.0]
    out = []
    for x in xs:
        if not (0.0 < x < 1.0):
            out.append(None)
            continue
        pos = bisect.bisect_left(srt, x)
        if srt[pos] == x:
            out.append(None)
            continue
        xl, xr = srt[pos - 1], srt[pos]
        out.append((xl, xr, holder(xl, xr, n)))
        srt.insert(pos, x)
    return out


# ---------------------------------------------------------------------------------------------
# record rules (C06; reused by C16)
# ---------------------------------------------------------------------------------------------
class RecordChecker:
    """tests the search information of a Run against the Calculate log, a fresh evolvent and the objective"""

    def __init__(self, run):
        self.run = run
        self.img = {}
        self.val = {}

    def _image(self, x):
        if x not in self.img:
            self.img[x] = np.array(self.run.fresh_image(x), dtype=np.double)
        return self.img[x]

    def _value(self, x, pt):
        if x not in self.val:
            self.val[x] = self.run.pure(pt)
        return self.val[x]

    def check(self):
        """list of (clause, observed) for every rule that fails now"""
        bad = []
        run = self.run
        sd = run.solver.searchData
        n = run.n
        allt = list(sd._allTrials)
        items = []
        try:
            for it in sd:
                items.append(it)
                if len(items) > len(allt) + 5:
                    bad.append(("traversal-terminates", {"visited": len(items), "stored": len(allt)}))
                    return bad
        except BaseException as e:          # noqa
            bad.append(("traversal-raises", {"error": repr(e)}))
            return bad
        g = run.glog()
        xs = [float(it.GetX()) for it in items]
        if not items or xs[0] != 0.0 or xs[-1] != 1.0:
            bad.append(("ends-are-0-and-1", {"first": xs[:1], "last": xs[-1:]}))
        for a, b in zip(xs, xs[1:]):
            if not a < b:
                bad.append(("strictly-increasing", {"x": a, "next": b}))
                break
        if sd.GetCount() != len(items) or len(allt) != len(items) or {id(i) for i in allt} != {id(i) for i in items}:
            bad.append(("count-and-membership", {"GetCount": sd.GetCount(), "traversed": len(items), "stored": len(allt)}))
        # links
        if items:
            if items[0].GetLeft() is not None or items[-1].GetRight() is not None:
                bad.append(("links-ends", {"first.left": repr(items[0].GetLeft()), "last.right": repr(items[-1].GetRight())}))
            for a, b in zip(items, items[1:]):
                if a.GetRight() is not b or b.GetLeft() is not a:
                    bad.append(("links-mutual", {"x": float(a.GetX()), "next": float(b.GetX())}))
                    break
        # evaluated / not evaluated
        for it in items[:1] + items[-1:]:
            if it.GetIndex() != -2:
                bad.append(("end-not-evaluated", {"x": float(it.GetX()), "index": it.GetIndex()}))
        inner = items[1:-1]
        for it in inner:
            if it.GetIndex() != 0:
                bad.append(("inner-evaluated", {"x": float(it.GetX()), "index": it.GetIndex()}))
                break
        if len(inner) != len(g):
            bad.append(("trials-equal-log", {"record": len(inner), "log": len(g)}))
        # insertion order == evaluation order: points, values and the very value holders
        ins = allt[2:]
        for j, (it, e) in enumerate(zip(ins, g)):
            pt = tuple(float(v) for v in it.point.floatVariables)
            if pt != e[1] or it.functionValues[0].value != e[2] or id(it.functionValues[0]) != e[3]:
                bad.append(("evaluated-exactly-once-in-order", {"trial": j + 1, "record_point": pt, "log_point": e[1],
                                                                "record_value": it.functionValues[0].value,
                                                                "log_value": e[2],
                                                                "same_holder": id(it.functionValues[0]) == e[3]}))
                break
        if len({e[3] for e in g}) != len(g):
            bad.append(("value-holders-distinct", {"log": len(g), "distinct": len({e[3] for e in g})}))
        if sorted(tuple(float(v) for v in it.point.floatVariables) for it in inner) != sorted(e[1] for e in g):
            bad.append(("record-points-are-the-logged-points", {"record": len(inner), "log": len(g)}))
        # lengths, images, values
        for a, b in zip(items, items[1:]):
            d = holder(float(a.GetX()), float(b.GetX()), n)
            if b.delta != d:
                bad.append(("delta", {"x": float(b.GetX()), "x_left": float(a.GetX()), "stored": float(b.delta), "expected": d}))
                break
        for it in items:
            x = float(it.GetX())
            y = self._image(x)
            if not np.array_equal(np.asarray(it.point.floatVariables, dtype=np.double), y):
                bad.append(("point-is-image", {"x": x, "stored": [float(v) for v in it.point.floatVariables],
                                               "image": [float(v) for v in y]}))
                break
        for it in inner:
            x = float(it.GetX())
            pt = tuple(float(v) for v in it.point.floatVariables)
            v = self._value(x, pt)
            if it.functionValues[0].value != v or it.GetZ() != v:
                bad.append(("value-is-objective", {"x": x, "point": pt, "stored_value": it.functionValues[0].value,
                                                   "stored_z": it.GetZ(), "objective": v}))
                break
        return bad


# ---------------------------------------------------------------------------------------------
# reporting helpers
# ---------------------------------------------------------------------------------------------
def violation(prop, case, clause, observed):
    _NVIOL[0] += 1
    return {"property": prop, "clause": clause, "case": case, "observed": observed}


def jsonable(x):
    return json.loads(json.dumps(x, default=lambda o: float(o) if isinstance(o, (np.floating,)) else str(o)))


def safe(check_case, prop):
    """wrap a check so that a crash of the checking code on a badly broken solver state is reported, not raised"""
    def wrapped(case):
        try:
            return check_case(case)
        except Exception as e:                 # noqa
            return [violation(prop, case, "check-crashed", {"error": repr(e), "traceback": traceback.format_exc()[-1500:]})], {}
    return wrapped


def generic_replay(check_case, v):
    """re-run the recorded case; reproduced iff the same clause fails again"""
    vs = check_case(v["case"])[0]
    same = [x for x in vs if x["clause"] == v["clause"]]
    return {"reproduced": bool(same), "detail": jsonable((same or vs)[:1]) if (same or vs) else "no violation on replay"}


def finish(prop, rule, explored, nontrivial, violations, stats, samples, known=None):
    stats = dict(stats)
    stats["violations_total"] = len(violations)
    return {"property": prop, "explored": explored, "distinct_nontrivial": nontrivial, "rule": rule,
            "violations": jsonable(violations[:MAX_VIOLATIONS]), "known": jsonable((known or [])[:MAX_VIOLATIONS]),
            "stats": jsonable(stats), "samples": jsonable(samples[:3])}


def bump(d, k, by=1):
    d[k] = d.get(k, 0) + by


def K_N(n):
    return 2.0 if n == 1 else 2.0 ** (3.0 - 1.0 / n) * math.sqrt(n + 3.0)
