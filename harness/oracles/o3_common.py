"""Helpers shared by the o3 oracles (C10, C14, C15, C18): the benchmark problem families of iOpt.

Everything here drives the REAL classes under iOpt/problems.  The vectorised evaluators (`fast_evaluator`) are only a
search accelerator: they are built from the instance / module tables of the real objects, are validated per instance
against `Problem.Calculate` on random points (`validated_fast`) and every value that enters a verdict is re-evaluated
through the real `Calculate` (class `Tracker`).
"""
import os
import sys
import math
import hashlib
import random

os.environ.setdefault("MPLBACKEND", "Agg")
_HARNESS = os.path.dirname(os.path.dirname(os.path.abspath(__file__)))
if _HARNESS not in sys.path:
    sys.path.insert(0, _HARNESS)
import common  # noqa: E402
from common import f2h, h2f, VERIF, Infra  # noqa: E402,F401

common.ensure_repo_on_path()
import numpy as np  # noqa: E402

GOLDEN_GKLS = os.path.join(VERIF, "golden", "gkls_reference.json")

# class parameters of the "simple" GKLS classes used by iOpt (dimension -> (distance, radius)), Sergeyev & Kvasov
GKLS_CLASS = {2: (0.9, 0.2), 3: (0.66, 0.2), 4: (0.66, 0.2), 5: (0.66, 0.3)}


# ------------------------------------------------------------------------------------------------------------------
# construction / real evaluation
# ------------------------------------------------------------------------------------------------------------------
def construct(fam, args):
    common.beat("oracle: constructing a problem", {"family": fam, "args": list(args)})
    return _construct(fam, args)


def _construct(fam, args):
    args = tuple(args)
    if fam == "hill":
        from iOpt.problems.hill import Hill
        return Hill(*args)
    if fam == "shekel":
        from iOpt.problems.shekel import Shekel
        return Shekel(*args)
    if fam == "shekel4":
        from iOpt.problems.shekel4 import Shekel4
        return Shekel4(*args)
    if fam == "grishagin":
        from iOpt.problems.grishagin import Grishagin
        return Grishagin(*args)
    if fam == "gkls":
        from iOpt.problems.GKLS import GKLS
        return GKLS(*args)
    if fam == "rastrigin":
        from iOpt.problems.rastrigin import Rastrigin
        return Rastrigin(*args)
    if fam == "xsquared":
        from iOpt.problems.xsquared import XSquared
        return XSquared(*args)
    if fam == "stronginc3":
        from iOpt.problems.stronginC3 import StronginC3
        return StronginC3()
    raise ValueError(fam)


FAMILIES = ("hill", "shekel", "shekel4", "grishagin", "gkls", "rastrigin", "xsquared", "stronginc3")


def finite_members():
    """the 2 503 finite members (+ StronginC3)"""
    mem = [("hill", (i,)) for i in range(1000)] + [("shekel", (i,)) for i in range(1000)]
    mem += [("shekel4", (i,)) for i in (1, 2, 3)]
    mem += [("grishagin", (i,)) for i in range(1, 101)]
    mem += [("gkls", (d, k)) for d in (2, 3, 4, 5) for k in range(1, 101)]
    mem += [("stronginc3", ())]
    return mem


_EVAL_BUF = {}
_EVAL_FV = {}


def real_eval(p, x, constraint=None):
    """value of the objective (constraint=None) or of constraint number `constraint` through the real Calculate"""
    from iOpt.trial import Point, FunctionValue, FunctionType
    common.beat("oracle: Problem.Calculate")
    # the caller's coordinate buffer: ONE ndarray per problem object, overwritten in place with each new point (an evaluation must
    # be answered for what the array holds now, whatever it held at the previous call)
    ent = _EVAL_BUF.get(id(p))
    if ent is None or ent[0] is not p or len(ent[1]) != len(x):
        if len(_EVAL_BUF) > 4096:
            _EVAL_BUF.clear()
        ent = _EVAL_BUF[id(p)] = (p, np.array(x, dtype=np.double))
    arr = ent[1]
    arr[:] = x
    # ... and the caller's value holder: one FunctionValue per (problem, function), reused, holding a stale number from before
    hk = (id(p), constraint)
    hent = _EVAL_FV.get(hk)
    if hent is None or hent[0] is not p:
        if len(_EVAL_FV) > 8192:
            _EVAL_FV.clear()
        hent = _EVAL_FV[hk] = (p, FunctionValue() if constraint is None else FunctionValue(FunctionType.CONSTRAINT, constraint))
    fv = hent[1]
    fv.value = 12345.678
    out = p.Calculate(Point(arr, []), fv)
    return float(out.value)


def box(p):
    lo = np.array([float(v) for v in p.lowerBoundOfFloatVariables], dtype=np.double)
    hi = np.array([float(v) for v in p.upperBoundOfFloatVariables], dtype=np.double)
    return lo, hi


def declared(p):
    tr = p.knownOptimum[0]
    x = np.array([float(v) for v in tr.point.floatVariables], dtype=np.double)
    return x, float(tr.functionValues[0].value)


def guarded(fn, *a):
    """(result, None), or (None, description) when the implementation raised: the oracles report that as a violation
    (clause "exception") instead of crashing"""
    import traceback
    try:
        return fn(*a), None
    except Infra:
        raise
    except Exception as e:  # noqa: BLE001
        tb = traceback.extract_tb(e.__traceback__)[-3:]
        return None, {"error": repr(e), "traceback": [f"{f.filename}:{f.lineno} in {f.name}" for f in tb]}


def nprs(r):
    """numpy generator seeded from the python generator `r` (all randomness comes from r)"""
    return np.random.RandomState(r.getrandbits(32))


def close(a, b, rel=1e-9, ab=1e-12):
    return abs(a - b) <= max(ab, rel * max(abs(a), abs(b)))


def sha(*arrays):
    h = hashlib.sha256()
    for a in arrays:
        h.update(np.ascontiguousarray(np.asarray(a), dtype="<f8").tobytes())
    return h.hexdigest()


def jl(x):
    """JSON-able list of floats"""
    return [float(v) for v in np.asarray(x, dtype=np.double).ravel()]


# ------------------------------------------------------------------------------------------------------------------
# vectorised evaluators (search accelerators only)
# ------------------------------------------------------------------------------------------------------------------
def stronginc3_feasible_fast(X):
    X = np.atleast_2d(X)
    x1, x2 = X[:, 0], X[:, 1]
    g1 = 0.01 * ((x1 - 2.2) ** 2 + (x2 - 1.2) ** 2 - 2.25)
    g2 = 100.0 * (1.0 - ((x1 - 2.0) / 1.2) ** 2 - (x2 / 2.0) ** 2)
    g3 = 10.0 * (x2 - 1.5 - 1.5 * np.sin(6.283 * (x1 - 1.75)))
    return np.stack([g1, g2, g3], axis=1)


def fast_evaluator(fam, args, p):
    """X (m, n) -> values (m,), built from the tables the real object uses"""
    if fam == "hill":
        import iOpt.problems.Hill.hill_generation as g
        a = np.array(g.aHill[args[0]], dtype=float)
        b = np.array(g.bHill[args[0]], dtype=float)
        i = np.arange(len(a))

        def fn(X):
            ph = 2 * np.pi * np.outer(np.atleast_2d(X)[:, 0], i)
            return np.sin(ph) @ a + np.cos(ph) @ b
        return fn
    if fam == "shekel":
        import iOpt.problems.Shekel.shekel_generation as g
        k = np.array(g.kShekel[args[0]], dtype=float)
        a = np.array(g.aShekel[args[0]], dtype=float)
        c = np.array(g.cShekel[args[0]], dtype=float)

        def fn(X):
            x = np.atleast_2d(X)[:, :1]
            return -(1.0 / (k * (x - a) ** 2 + c)).sum(1)
        return fn
    if fam == "shekel4":
        import iOpt.problems.Shekel4.shekel4_generation as g
        rows = int(g.maxI[args[0] - 1])
        A = np.array(g.a[:rows], dtype=float)
        c = np.array(g.c[:rows], dtype=float)

        def fn(X):
            X = np.atleast_2d(X)
            den = ((X[:, None, :] - A[None, :, :]) ** 2).sum(2) + c
            return -(1.0 / den).sum(1)
        return fn
    if fam == "grishagin":
        f = p.function
        af, bf, cf, df = (np.array(m, dtype=float) for m in (f.af, f.bf, f.cf, f.df))
        k = np.arange(1, 8)

        def fn(X):
            X = np.atleast_2d(X)
            sx, cx = np.sin(np.pi * np.outer(X[:, 0], k)), np.cos(np.pi * np.outer(X[:, 0], k))
            sy, cy = np.sin(np.pi * np.outer(X[:, 1], k)), np.cos(np.pi * np.outer(X[:, 1], k))
            d1 = ((sx @ af) * sy).sum(1) + ((cx @ bf) * cy).sum(1)
            d2 = ((sx @ cf) * sy).sum(1) - ((cx @ df) * cy).sum(1)
            return -np.sqrt(d1 * d1 + d2 * d2)
        return fn
    if fam == "gkls":
        m = p.function.GKLS_minima
        M = np.array(m.local_min, dtype=float)
        rho = np.array(m.rho, dtype=float)
        f = np.array(m.f, dtype=float)
        T = M[0]
        dT = np.sqrt(((M - T) ** 2).sum(1))

        def fn(X):
            X = np.atleast_2d(X)
            out = ((X - T) ** 2).sum(1) + f[0]
            done = np.zeros(len(X), dtype=bool)
            for i in range(1, len(M)):
                d = X - M[i]
                nrm = np.sqrt((d * d).sum(1))
                sel = (~done) & (nrm <= rho[i])
                if sel.any():
                    nr = nrm[sel]
                    scal = (d[sel] * (T - M[i])).sum(1)
                    a = dT[i] ** 2 + f[0] - f[i]
                    r_ = rho[i]
                    with np.errstate(all="ignore"):
                        val = (2.0 / r_ / r_ * scal / nr - 2.0 * a / r_ / r_ / r_) * nr ** 3 + \
                              (1.0 - 4.0 * scal / nr / r_ + 3.0 * a / r_ / r_) * nr * nr + f[i]
                    out[sel] = np.where(nr < 1e-10, f[i], val)
                    done |= sel
            outside = ((X < -1 - 1e-10) | (X > 1 + 1e-10)).any(1)
            out[outside] = 1e100
            return out
        return fn
    if fam == "rastrigin":
        def fn(X):
            X = np.atleast_2d(X)
            return (X * X - 10 * np.cos(2 * np.pi * X) + 10).sum(1)
        return fn
    if fam == "xsquared":
        def fn(X):
            X = np.atleast_2d(X)
            return (X * X).sum(1)
        return fn
    if fam == "stronginc3":
        def fn(X):
            X = np.atleast_2d(X)
            x1, x2 = X[:, 0], X[:, 1]
            t1 = (0.5 * x1 - 0.5) ** 4
            t2 = (x2 - 1.0) ** 4
            v = -(1.5 * x1 * x1 * np.exp(1.0 - x1 * x1 - 20.25 * (x1 - x2) ** 2) + t1 * t2 * np.exp(2.0 - t1 - t2))
            g = stronginc3_feasible_fast(X)
            return np.where((g <= 0).all(1), v, np.inf)
        return fn
    raise ValueError(fam)


def validated_fast(fam, args, p, r, real, npts=32, extra=()):
    """fast evaluator if it agrees (1e-9) with `real` (callable x -> float, +inf when infeasible) on random points
    of the box, the declared point and `extra`; otherwise None (the caller then scans with the real Calculate)"""
    try:
        fn = fast_evaluator(fam, args, p)
        lo, hi = box(p)
        rs = nprs(r)
        X = lo + (hi - lo) * rs.rand(npts, len(lo))
        X = np.vstack([X, declared(p)[0][None, :]] + [np.atleast_2d(e) for e in extra])
        v = fn(X)
        for x, fv in zip(X, v):
            rv = real(x)
            if math.isinf(rv) or math.isinf(fv):
                if rv != fv:
                    return None
            elif not close(rv, float(fv), 1e-9, 1e-11):
                return None
        return fn
    except Exception:
        return None


# ------------------------------------------------------------------------------------------------------------------
# tracked real evaluation and local refinement
# ------------------------------------------------------------------------------------------------------------------
class Tracker:
    """objective through the real Calculate; remembers the lowest value seen (restricted to the feasible set for
    StronginC3: all constraints <= 0, constraints evaluated through FunctionValue(CONSTRAINT, j))"""

    def __init__(self, p, lo, hi, n_constraints=0):
        self.p, self.lo, self.hi, self.nc = p, lo, hi, n_constraints
        self.best = math.inf
        self.bestx = None
        self.n = 0
        self.pred = None       # optional predicate restricting which points may become "best" of the sub-tracker
        self.sub_best = math.inf
        self.sub_bestx = None

    def feasible(self, x):
        return all(real_eval(self.p, x, j) <= 0 for j in range(self.nc))

    def __call__(self, x):
        x = np.minimum(np.maximum(np.asarray(x, dtype=np.double).ravel(), self.lo), self.hi)
        self.n += 1
        if self.nc and not self.feasible(x):
            return math.inf
        v = real_eval(self.p, x)
        if v != v:
            return math.inf
        if v < self.best:
            self.best, self.bestx = v, x.copy()
        if self.pred is not None and v < self.sub_best and self.pred(x):
            self.sub_best, self.sub_bestx = v, x.copy()
        return v

    def start_sub(self, pred):
        self.pred, self.sub_best, self.sub_bestx = pred, math.inf, None

    def stop_sub(self):
        self.pred = None
        return self.sub_best, self.sub_bestx


def refine_1d(tr, a, b, xc):
    from scipy.optimize import minimize_scalar
    tr([a]); tr([b]); tr([xc])
    if b > a:
        minimize_scalar(lambda t: tr([t]), bounds=(a, b), method="bounded", options={"xatol": 1e-11, "maxiter": 200})


def refine_nd(tr, lo, hi, x0, smooth=True, nm_iter=None):
    from scipy.optimize import minimize
    import warnings
    n = len(lo)
    x0 = np.minimum(np.maximum(np.asarray(x0, dtype=np.double), lo), hi)
    bounds = list(zip(lo, hi))
    x1 = x0
    with warnings.catch_warnings():
        warnings.simplefilter("ignore")
        if smooth:
            try:
                res = minimize(tr, x0, method="L-BFGS-B", bounds=bounds,
                               options={"maxiter": 100, "ftol": 1e-15, "gtol": 1e-10})
                if np.all(np.isfinite(res.x)) and tr(res.x) <= tr(x0):
                    x1 = res.x
            except Exception:
                pass
        # Nelder-Mead polish with a small initial simplex inside the bounds
        h = 1e-3 * (hi - lo)
        sim = [x1.copy()]
        for i in range(n):
            y = x1.copy()
            y[i] = y[i] + h[i] if y[i] + h[i] <= hi[i] else y[i] - h[i]
            sim.append(y)
        try:
            minimize(tr, x1, method="Nelder-Mead", bounds=bounds,
                     options={"xatol": 1e-10, "fatol": 1e-13, "maxiter": nm_iter or 150 * n,
                              "initial_simplex": np.array(sim)})
        except Exception:
            pass


def zoom_2d(tr, lo, hi, xc, h, levels=10, m=11):
    """derivative-free zoom (works with +inf outside the feasible set): (2m+1)^2 lattice of half-width h around the
    running best, shrunk by 4 each level"""
    c = np.minimum(np.maximum(np.asarray(xc, dtype=np.double), lo), hi)
    cv = tr(c)
    h = np.asarray(h, dtype=np.double)
    for _ in range(levels):
        cbest = None
        for i in range(-m, m + 1):
            for j in range(-m, m + 1):
                y = c + h * np.array([i, j]) / m
                if np.any(y < lo) or np.any(y > hi):
                    continue
                v = tr(y)
                if v < cv:
                    cv, cbest = v, y
        if cbest is not None:
            c = cbest
        h = h / 4.0
    return c, cv


def grid_local_minima(vals, k):
    """indices of the k lowest local minima (plateaus count once) of a 1-D array, end points included"""
    n = len(vals)
    left = np.r_[np.inf, vals[:-1]]
    right = np.r_[vals[1:], np.inf]
    idx = np.where((vals <= left) & (vals <= right) & np.isfinite(vals))[0]
    idx = idx[np.argsort(vals[idx], kind="stable")]
    out = []
    for i in idx:
        if all(abs(int(i) - j) > 1 for j in out):
            out.append(int(i))
        if len(out) >= k:
            break
    return out


def top_distinct(X, v, k, mindist):
    """k lowest points of (X, v) that are pairwise further apart than mindist (max-norm)"""
    order = np.argsort(v, kind="stable")
    out = []
    for i in order:
        if not np.isfinite(v[i]):
            break
        if all(np.max(np.abs(X[i] - X[j])) > mindist for j in out):
            out.append(int(i))
        if len(out) >= k:
            break
    return out


# ------------------------------------------------------------------------------------------------------------------
# GKLS tables, golden reference
# ------------------------------------------------------------------------------------------------------------------
def gkls_tables(p):
    m = p.function.GKLS_minima
    return (np.array(m.local_min, dtype=np.double), np.array(m.rho, dtype=np.double),
            np.array(m.f, dtype=np.double), np.array(m.peak, dtype=np.double))


def gkls_digest(p):
    return sha(*gkls_tables(p))


def golden_points(n, k, M, rho):
    """the 10 fixed pseudo-random reference points of GKLS(n, k): 4 uniform in the box, 6 inside attraction balls
    (1, 2, 3, 5, 7, 9); generated once (when the golden file is written) and stored in the file"""
    g = random.Random(int.from_bytes(hashlib.sha256(f"gkls-golden:{n}:{k}".encode()).digest()[:8], "big"))
    pts = [[g.uniform(-1, 1) for _ in range(n)] for _ in range(4)]
    for i in (1, 2, 3, 5, 7, 9):
        u = [g.gauss(0, 1) for _ in range(n)]
        nu = math.sqrt(sum(t * t for t in u))
        frac = g.uniform(0.05, 0.95)
        for _ in range(60):
            q = [float(M[i][j]) + frac * float(rho[i]) * u[j] / nu for j in range(n)]
            if all(-1.0 <= t <= 1.0 for t in q):
                break
            frac *= 0.5
        pts.append(q)
    return pts


def write_gkls_golden(path=GOLDEN_GKLS):
    """creates the golden reference from the CURRENT code (run once, by hand: python o3_common.py --write-golden)"""
    import json
    entries = {}
    for n in (2, 3, 4, 5):
        for k in range(1, 101):
            p = construct("gkls", (n, k))
            M, rho, f, peak = gkls_tables(p)
            pts = golden_points(n, k, M, rho)
            entries[f"{n},{k}"] = {
                "tables_sha256": sha(M, rho, f, peak),
                "points": [" ".join(f2h(t) for t in q) for q in pts],
                "values": [f2h(real_eval(p, q)) for q in pts],
            }
    doc = {"format": 1,
           "what": "GKLS(dimension, number) reference: sha256 over the little-endian float64 bytes of "
                   "GKLS_minima.local_min, rho, f, peak (in this order) and the value bit patterns at 10 fixed points "
                   "(4 uniform in the box, 6 inside the attraction balls 1,2,3,5,7,9); floats are IEEE-754 hex",
           "entries": entries}
    os.makedirs(os.path.dirname(path), exist_ok=True)
    with open(path, "w") as fh:
        json.dump(doc, fh, indent=0, sort_keys=True)
    return len(entries)


_GOLD = None


def load_gkls_golden():
    global _GOLD
    if _GOLD is None:
        import json
        if not os.path.exists(GOLDEN_GKLS):
            raise Infra("golden reference missing: " + GOLDEN_GKLS)
        _GOLD = json.load(open(GOLDEN_GKLS))["entries"]
    return _GOLD


if __name__ == "__main__":
    if "--write-golden" in sys.argv:
        print("entries written:", write_gkls_golden())
