"""C20 - the configured evolvent density is honoured.

Real Solve() runs with SolverParameters.evolventDensity = m in 2..12, N in 2..5 (N*m <= 60).  For every
global-phase trial point y (from the Calculate log) and every coordinate i:
  on-grid            t = (y_i - lower_i)/(upper_i - lower_i) * 2^m - 1/2 is within 1e-6 of an integer j, 0 <= j < 2^m
  on-grid-exact      dyadic boxes ([0,1]^N, [-1,1]^N): with fractions.Fraction, t is exactly an integer in [0, 2^m)
  resolution-changes the same problem run with a second density m2 != m: its points are on the m2 grid (exactly, dyadic
                     boxes) and none of its coordinates is on the m grid (cell-centre grids of different densities are
                     disjoint); the two runs do not evaluate the same first point
  evolvent-density   the Solver's evolvent object reports the configured density
  stored-on-grid     (runs driven as iterations / refinement / more iterations / GetResults) at most ONE stored trial - the one the
                     local refinement improved in place - carries a point off the grid
  all-cells-small-m  (informative clause for m = 2, N = 2, long runs) the number of distinct points never exceeds (2^m)^N
"""
import os
import sys
from fractions import Fraction

_D = os.path.dirname(os.path.abspath(__file__))
for _p in (os.path.dirname(_D), _D):
    if _p not in sys.path:
        sys.path.insert(0, _p)
import o1_common as oc

PROP = "C20"
RULE = ("random objective, N=2..5, density m uniformly in 2..12 subject to N*m<=60, box: 50% dyadic ([0,1]^N or [-1,1]^N, "
        "tested exactly with Fractions) else streams.gen_box (incl. tiny/huge/non-symmetric, tested to 1e-6 of a cell); "
        "itersLimit in {5..200}; a second density m2 != m is run on the same problem; 15% of the cases driven as DoGlobalIteration(k1), "
        "DoLocalRefinement, DoGlobalIteration(k2), GetResults() - then also the STORED trials are tested (clause stored-on-grid: all but the one "
        "refined trial still carry their grid point). Distinct by parameter set; non-trivial "
        "if the run has >= 5 trials and visits >= 3 distinct cells.")


def grid_index(v, lo, up, m):
    return (v - lo) / (up - lo) * 2 ** m - 0.5


def exact_on_grid(v, lo, up, m):
    t = (Fraction(v) - Fraction(lo)) / (Fraction(up) - Fraction(lo)) * 2 ** m - Fraction(1, 2)
    return t.denominator == 1 and 0 <= t < 2 ** m, t


def check_points(case, m, pts, dyadic, vs, tag):
    lower, upper = case["lower"], case["upper"]
    nbad = 0
    for j, pt in enumerate(pts):
        for i, v in enumerate(pt):
            t = grid_index(v, lower[i], upper[i], m)
            k = round(t)
            if abs(t - k) > grid_tol(lower[i], upper[i], m) or not (0 <= k < 2 ** m):
                nbad += 1
                if nbad <= 2:
                    vs.append(oc.violation(PROP, case, "on-grid", {"run": tag, "density": m, "trial": j + 1, "coordinate": i,
                                                                   "value": v, "grid_index": t}))
            if dyadic:
                ok, tt = exact_on_grid(v, lower[i], upper[i], m)
                if not ok:
                    nbad += 1
                    if nbad <= 2:
                        vs.append(oc.violation(PROP, case, "on-grid-exact", {"run": tag, "density": m, "trial": j + 1,
                                                                             "coordinate": i, "value": v, "grid_index": str(tt)}))
    return nbad


def grid_tol(lo, up, m):
    """how far (in cells) the computed grid index of an exactly placed point may be from an integer: 1e-6, or - on a thin side far
    from the origin - the rounding of the coordinate itself (a few ulps of the bound) expressed in cells"""
    import math
    big = max(abs(lo), abs(up))
    return max(1e-6, 8 * math.ulp(big) / (up - lo) * 2 ** m) if big > 0 else 1e-6


def check_case(case):
    vs = []
    info = {}
    n, m, m2 = case["n"], case["m"], case["m2"]
    dyadic = all(lo in (0.0, -1.0) and up == 1.0 for lo, up in zip(case["lower"], case["upper"]))
    runs = {}
    for tag, mm in (("m", m), ("m2", m2)):
        c = {k: v for k, v in case.items() if k != "m2"}
        c["m"] = mm
        run = oc.Run(c)
        err = None
        try:
            if case.get("steps"):
                # the user drives the phases: global iterations, a local refinement, MORE global iterations, GetResults()
                k1, k2 = case["steps"]
                if run.iterate(k1):
                    run.refine(-1)
                    run.iterate(k2)
                run.solver.GetResults()
            else:
                run.solve()
        except BaseException as e:             # noqa
            err = repr(e)
        if run.trouble(err):
            vs.append(oc.violation(PROP, case, "no-internal-error", dict(run.trouble(err), run=tag)))
        if run.collapsed:
            info["float_collapse"] = True
        if run.solver.evolvent.evolventDensity != mm:
            vs.append(oc.violation(PROP, case, "evolvent-density", {"configured": mm, "evolvent": run.solver.evolvent.evolventDensity}))
        pts = [e[1] for e in run.glog()]
        runs[tag] = pts
        check_points(case, mm, pts, dyadic, vs, tag)
        if case.get("steps") and not err:
            # the trials the solver KEEPS (search information; what listeners are handed) still carry the grid point they were made at -
            # except the single trial a local refinement improved in place
            off = []
            for j, it in enumerate(run.solver.searchData._allTrials[2:]):
                y = [float(v) for v in it.GetY().floatVariables]
                if any(abs(grid_index(v, case["lower"][i], case["upper"][i], mm) - round(grid_index(v, case["lower"][i], case["upper"][i], mm)))
                       > grid_tol(case["lower"][i], case["upper"][i], mm) for i, v in enumerate(y)):
                    off.append({"trial": j + 1, "stored_point": y, "evaluated_at": list(pts[j]) if j < len(pts) else None})
            if len(off) > 1:
                vs.append(oc.violation(PROP, case, "stored-on-grid", {"run": tag, "density": mm, "off_grid_stored_trials": off[:3],
                                                                      "count": len(off), "allowed": "1 (the refined trial)"}))
        if len(set(pts)) > (2 ** mm) ** n:
            vs.append(oc.violation(PROP, case, "all-cells-small-m", {"density": mm, "distinct_points": len(set(pts))}))
    # the second density is really a different grid
    lower, upper = case["lower"], case["upper"]
    on_other = 0
    for pt in runs["m2"]:
        for i, v in enumerate(pt):
            if dyadic:
                if exact_on_grid(v, lower[i], upper[i], m)[0]:
                    on_other += 1
            else:
                t = grid_index(v, lower[i], upper[i], m)
                if abs(t - round(t)) <= grid_tol(lower[i], upper[i], m):
                    on_other += 1
    if on_other or (runs["m"] and runs["m2"] and runs["m"][0] == runs["m2"][0]):
        vs.append(oc.violation(PROP, case, "resolution-changes", {"m": m, "m2": m2, "coordinates_of_m2_run_on_m_grid": on_other,
                                                                  "first_point_m": runs["m"][:1], "first_point_m2": runs["m2"][:1]}))
    info.update(trials=len(runs["m"]), cells=len(set(runs["m"])), dyadic=dyadic)
    return vs, info


def gen(r):
    n = r.choice((2, 2, 3, 4, 5))
    ms = [m for m in range(2, 13) if n * m <= 60]      # N*m > 52 exhausts the mantissa of x: the grid must still be the configured one
    m = r.choice(ms)
    m2 = r.choice([x for x in ms if x != m])
    box = None
    u = r.random()
    if u < 0.3:
        box = ([0.0] * n, [1.0] * n)
    elif u < 0.5:
        box = ([-1.0] * n, [1.0] * n)
    case = oc.gen_case(r, n=n, m=m, box=box, lim=r.choice([5, 8, 17, 40, 80, 200]))
    # (a thin box far from the origin resolves only the coarser grids: both densities within what doubles can represent there)
    cap = oc.common.cap_density(case["lower"], case["upper"], 12)
    if m2 > cap or case["m"] == min(m2, cap):
        m2 = next((x for x in range(cap, 1, -1) if x != case["m"]), 2 if case["m"] != 2 else 3)
    case["m2"] = m2
    if r.random() < 0.15:
        case["steps"] = [r.choice([3, 8, 20]), r.choice([5, 15, 40])]
        for k_ in ("shipped",):
            case.pop(k_, None)
    return case


def run(tier, r):
    oc.reset_hangs()
    ncases = 850 if tier == "quick" else 13000
    vs, stats, samples, keys = [], {}, [], set()
    nontrivial = explored = 0
    for i in range(ncases):
        if oc.too_many_hangs(stats):
            break
        case = gen(r)
        v, info = oc.safe(check_case, PROP)(case)
        explored += 1
        vs += v
        oc.bump(stats, "dim%d" % case["n"])
        oc.bump(stats, "density%d" % case["m"])
        oc.bump(stats, "dyadic_box_exact" if info.get("dyadic") else "general_box")
        oc.bump(stats, "points_tested", info.get("trials", 0))
        oc.bump(stats, "float_collapse_stops", 1 if info.get("float_collapse") else 0)
        key = oc.case_key(case)
        if key not in keys:
            keys.add(key)
            if info.get("trials", 0) >= 5 and info.get("cells", 0) >= 3:
                nontrivial += 1
        if i < 3:
            samples.append({"case": case, "info": info})
    return oc.finish(PROP, RULE, explored, nontrivial, vs, stats, samples)


def replay(v):
    return oc.generic_replay(check_case, v)


if __name__ == "__main__":
    import json, time
    t = time.time()
    tier = sys.argv[1] if len(sys.argv) > 1 else "quick"
    res = run(tier, oc.common.rng("oracle:" + PROP))
    res["wall_s"] = round(time.time() - t, 1)
    print(json.dumps({k: res[k] for k in res if k not in ("samples", "rule")}, indent=1)[:6000])
