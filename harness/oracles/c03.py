"""C03 - termination, stop criterion and trial budget.

For every case the real Solve() is run on a fresh solver, in part of the cases after some DoGlobalIteration calls and/or a
second time after the parameters were changed in place (the objective is guarded: more than
4*itersLimit+64 calls raise, so a search that does not terminate is reported instead of hanging).
From the x history alone the Hoelder length delta_k = (x_r - x_l)^(1/N) of the interval subdivided by
trial k (k >= 2; trial 1 only seeds the partition {[0,.5],[.5,1]}) is recomputed (same expression as the
stored one => exact comparison with eps).  Clauses:
  terminates               Solve returned, no runaway, no escaping exception, no internal-exception marker (except the
                           float collapse of an interval narrower than 1e-12, a legitimate end: stats['float_collapse_stops'];
                           never-earlier / stop-flag are then not applicable, all other clauses are)
  evals-equal-reported     #global Calculate calls == Solution.numberOfGlobalTrials == #stored trials
  budget                   1 <= #evaluations <= itersLimit
  never-earlier            the run did not stop although no delta_k < eps yet and budget left
  never-later              the run continued after the first k with delta_k < eps / beyond the budget
  accuracy-is-min-delta    Solution.solutionAccuracy == min_k delta_k (inf when only trial 1 was made)
  stop-flag                CheckStopCondition() is True after Solve
  idempotent-count         a second look at the counters (GetResults) gives the same numbers
"""
import os
import sys
import math

_D = os.path.dirname(os.path.abspath(__file__))
for _p in (os.path.dirname(_D), _D):
    if _p not in sys.path:
        sys.path.insert(0, _p)
import o1_common as oc

PROP = "C03"
RULE = ("random objective/box/N=1..5/density/r; eps in {1e-4..1.5} (incl. eps >= 1) and itersLimit in {1,2,3,4,5,8,...,400} "
        "with 40% of the cases forced to itersLimit in {1,2,3} or eps in {1.0,1.5}; 15% with refineSolution=True (local-phase "
        "calls must not be counted); 25% with 1..60 iterations made through DoGlobalIteration calls before Solve (below, at and above "
        "the budget; in 30% of these the user then calls DoLocalRefinement before Solve and the global search must go on unimpaired; "
        "Solve must end at the first moment the rule holds, at once if it already does), 20% with a second Solve after "
        "itersLimit/eps of the shared parameters object were changed in place (it must continue to the new criterion); 3% objectives with "
        "a huge penalty value (1e100 .. 1.8e308, inf) on a band: Solve must terminate. Distinct by parameter set; non-trivial if the run has >= 2 trials; the stats split the "
        "runs into accuracy stops, budget stops and both.")


def expected_T(deltas, t_start, lim, eps, t_max):
    """smallest T >= t_start (T >= 1) at which CheckStopCondition holds: T >= lim or some delta_k < eps with k <= T;
    None if that is beyond the t_max trials actually made"""
    for T in range(max(t_start, 1), t_max + 1):
        if T >= lim or any(d is not None and d < eps for d in deltas[:max(0, T - 1)]):
            return T
    return None


def check_overflow_case(case):
    """objectives with a HUGE penalty value on a band (1e155 .. 1.8e308, inf): differences of such values overflow, the
    characteristic becomes NaN, and the search cannot go on.  Claimed here: Solve TERMINATES (returns within the watchdog time,
    no runaway), never exceeds the budget, and reports exactly the evaluations it made.  (Repaired defect F11: it used to hang
    forever inside the priority queue.)"""
    vs, info = [], {"overflow_family": True}
    run = oc.Run(case)
    err, sol = None, None
    try:
        sol = run.solve()
    except BaseException as e:                # noqa
        err = repr(e)
    if err or run.runaway or run.hang or sol is None:
        vs.append(oc.violation(PROP, case, "terminates", {"raised": err, "runaway": run.runaway, "hang": run.hang,
                                                          "calls": run.calls}))
        return vs, info
    T = len(run.glog())
    info["trials"] = T
    info["ended_by_exception"] = bool(run.printed_exception)
    if not (1 <= T <= case["lim"]):
        vs.append(oc.violation(PROP, case, "budget", {"global_calls": T, "itersLimit": case["lim"]}))
    if sol.numberOfGlobalTrials != T:
        vs.append(oc.violation(PROP, case, "evals-equal-reported", {"global_calls": T, "reported": sol.numberOfGlobalTrials}))
    return vs, info


def check_failing_case(case):
    """the objective raises at its k-th global evaluation - once, or from then on at every call.  Claimed here (C03): Solve TERMINATES
    (also when every further evaluation would raise), the objective is not called beyond the budget (attempted calls <= itersLimit,
    completed ones <= attempted) and the reported number of trials is the number of completed evaluations"""
    vs, info = [], {"failing_family": True}
    k, how = case["fail"]
    run = oc.Run(case, fail_at=k, exc=ValueError)
    run.problem.fail_forever = how == "forever"
    err, sol = None, None
    try:
        sol = run.solve()
    except BaseException as e:                # noqa
        err = repr(e)
    if err or run.runaway or run.hang or sol is None:
        vs.append(oc.violation(PROP, case, "terminates", {"raised": err, "runaway": run.runaway, "hang": run.hang, "calls": run.calls}))
        return vs, info
    T, attempted = len(run.glog()), run.problem.ncalls_global
    info["trials"] = T
    if attempted > case["lim"] or T > attempted:
        vs.append(oc.violation(PROP, case, "budget", {"attempted_global_calls": attempted, "completed": T, "itersLimit": case["lim"]}))
    if sol.numberOfGlobalTrials != T:
        vs.append(oc.violation(PROP, case, "evals-equal-reported", {"global_calls": T, "reported": sol.numberOfGlobalTrials}))
    return vs, info


def check_case(case):
    if case["spec"]["kind"] == "band":
        return check_overflow_case(case)
    if case.get("fail"):
        return check_failing_case(case)
    return _check_case(case)


def _check_case(case):
    """optional keys: "pre" = sizes of DoGlobalIteration calls made before Solve (they ignore the stop rule, Solve must then
    end at the first moment the rule holds - possibly at once); "again" = {"lim": L2, "eps": E2}: after the first Solve the
    parameters object is changed in place and Solve is called a second time (it must continue to the new criterion)"""
    vs = []
    info = {}
    run = oc.Run(case)
    lim, eps, n = case["lim"], case["eps"], case["n"]
    pre, again = case.get("pre") or [], case.get("again")
    err, sol = None, None
    A = []                      # number of global trials after each phase
    try:
        for k in pre:
            if not run.iterate(k):
                break
        if case.get("mid_refine") and pre:
            run.refine(case["mid_refine"])      # the user polishes the current optimum, then lets Solve() continue the global search
        T0 = len(run.glog())
        sol = run.solve()
        A.append(len(run.glog()))
        if again and not run.collapsed:
            run.solver.parameters.itersLimit = again["lim"]
            run.solver.parameters.eps = again["eps"]
            sol = run.solve()
            A.append(len(run.glog()))
    except BaseException as e:                # noqa
        err = repr(e)
    if run.trouble(err):
        vs.append(oc.violation(PROP, case, "terminates", dict(run.trouble(err), calls=run.calls)))
    col = run.collapsed          # legitimate end by float collapse: the stop clauses below do not apply to this run
    info["float_collapse"] = bool(col)
    g = run.glog()
    T = len(g)
    info["trials"] = T
    hist, nitems, nlog = run.history()
    rep = run.solver.GetResults()
    if not (T == rep.numberOfGlobalTrials == nitems) or (sol is not None and sol.numberOfGlobalTrials != T):
        vs.append(oc.violation(PROP, case, "evals-equal-reported", {"global_calls": T, "reported": rep.numberOfGlobalTrials,
                                                                    "stored_trials": nitems}))
    xs = [h[0] for h in hist]
    ch = oc.chosen_intervals(xs, n)
    deltas = [c[2] if c is not None else None for c in ch[1:]]      # k = 2..
    phases = [(lim, eps)] + ([(again["lim"], again["eps"])] if again else [])
    t_start = T0 if not err and "T0" in dir() else 0
    if not (1 <= T <= max(max(l for l, _ in phases[:len(A)] or [(lim, eps)]), sum(pre))):
        vs.append(oc.violation(PROP, case, "budget", {"global_calls": T, "itersLimit": lim, "pre_iterations": sum(pre),
                                                      "again": again}))
    for ph, (a, (l_, e_)) in enumerate(zip(A, phases)):
        if col:
            break
        exp = expected_T(deltas, t_start, l_, e_, T)
        obs = {"phase": ph + 1, "trials_after_phase": a, "expected": exp, "trials_before_phase": t_start, "itersLimit": l_,
               "eps": e_, "pre_iterations": sum(pre), "deltas_head": deltas[:12]}
        if exp is None or a < exp:
            vs.append(oc.violation(PROP, case, "never-earlier", obs))
        elif a > exp:
            vs.append(oc.violation(PROP, case, "never-later", obs))
        t_start = a
    good = [d for d in deltas if d is not None]
    exp_acc = min(good) if good else math.inf
    if col:                      # the interval taken last (and not subdivided) was already accounted for
        exp_acc = min(exp_acc, oc.holder(col["xl"], col["xr"], n))
    acc = rep.solutionAccuracy
    if not (acc == exp_acc):
        vs.append(oc.violation(PROP, case, "accuracy-is-min-delta", {"reported": float(acc), "expected": exp_acc, "trials": T}))
    if not run.stopped() and not col and not err:
        vs.append(oc.violation(PROP, case, "stop-flag", {"trials": T, "iterationsCount": run.solver.method.iterationsCount}))
    rep2 = run.solver.GetResults()
    if rep2.numberOfGlobalTrials != rep.numberOfGlobalTrials or len(run.glog()) != T:
        vs.append(oc.violation(PROP, case, "idempotent-count", {"before": T, "after": len(run.glog())}))
    l_, e_ = phases[len(A) - 1] if A else (lim, eps)
    kacc = next((k for k, d in enumerate(deltas, start=2) if d is not None and d < e_), None)
    info["accuracy_stop"] = kacc is not None and kacc == T
    info["budget_stop"] = T == l_
    info["pre"] = bool(pre)
    info["again"] = bool(again)
    return vs, info


def gen(r):
    if r.random() < 0.03:
        n = r.choice([1, 1, 2, 3])
        spec = {"kind": "band", "a": round(r.uniform(0.0, 0.9), 3), "w": r.choice([0.05, 0.2, 0.5, 1.0]),
                "big": r.choice([1e155, 1e200, 1e300, 1.7976931348623157e308, float("inf"), -1e200, 1e100]),
                "of": oc.objectives.gen_spec(r, n)}
        return oc.gen_case(r, n=n, spec=spec, lim=r.choice([5, 17, 40, 150]))
    if r.random() < 0.03:
        case = oc.gen_case(r, lim=r.choice([5, 8, 17, 40]))
        case["fail"] = [r.randint(1, max(1, case["lim"] - 1)), r.choice(["once", "forever"])]
        for k_ in ("shipped", "bg"):
            case.pop(k_, None)
        return case
    u = r.random()
    kw = {}
    if u < 0.2:
        kw["lim"] = r.choice([1, 2, 3])
    elif u < 0.4:
        kw["eps"] = r.choice([1.0, 1.5, 1.0000001, 0.999])
    elif u < 0.5:
        # eps exactly equal to a reachable Hoelder length: (1/2^j)^(1/N) - the '<' of the rule is decisive
        kw["n"] = r.choice([1, 2, 3, 4, 5])
        kw["eps"] = pow(1.0 / 2 ** r.randint(1, 6), 1.0 / kw["n"])
    if "lim" not in kw and r.random() < 0.75:
        kw["lim"] = r.choice([4, 5, 8, 17, 40, 80, 150, 400])
    case = oc.gen_case(r, refine=r.random() < 0.15, **kw)
    v = r.random()
    if v < 0.25 and not case["refine"]:
        # iterations made through DoGlobalIteration before Solve: fewer than, exactly, or more than the budget allows
        tot = r.choice([1, 2, 3, case["lim"] - 1, case["lim"], case["lim"] + 1, case["lim"] + 3, r.randint(1, 30)])
        tot = max(1, min(tot, 60))
        pre = []
        while tot > 0:
            k = r.randint(1, tot)
            pre.append(k); tot -= k
        case["pre"] = pre
        if r.random() < 0.3:
            case["mid_refine"] = r.choice([-1, -1, 5, 40])
    if 0.2 < v < 0.4:
        # a second Solve after the parameters object was changed in place (larger budget and/or smaller eps, or unchanged)
        case["again"] = {"lim": case["lim"] + r.choice([0, 1, 2, 7, 30]), "eps": case["eps"] * r.choice([1.0, 1.0, 0.5, 0.1])}
    return case


def run(tier, r):
    oc.reset_hangs()
    ncases = 4000 if tier == "quick" else 60000
    vs, stats, samples, keys = [], {}, [], set()
    nontrivial = explored = 0
    for i in range(ncases):
        if oc.too_many_hangs(stats):
            break
        case = gen(r)
        v, info = oc.safe(check_case, PROP)(case)
        explored += 1
        vs += v
        oc.bump(stats, "dim%d" % case["n"])
        oc.bump(stats, "lim<=3", 1 if case["lim"] <= 3 else 0)
        oc.bump(stats, "float_collapse_stops", 1 if info.get("float_collapse") else 0)
        oc.bump(stats, "eps>=1", 1 if case["eps"] >= 1 else 0)
        oc.bump(stats, "accuracy_stop", 1 if info.get("accuracy_stop") else 0)
        oc.bump(stats, "budget_stop", 1 if info.get("budget_stop") else 0)
        oc.bump(stats, "both", 1 if info.get("budget_stop") and info.get("accuracy_stop") else 0)
        oc.bump(stats, "trials_total", info.get("trials", 0))
        oc.bump(stats, "with_pre_iterations", 1 if info.get("pre") else 0)
        oc.bump(stats, "with_second_solve", 1 if info.get("again") else 0)
        key = oc.case_key(case)
        if key not in keys:
            keys.add(key)
            if info.get("trials", 0) >= 2:
                nontrivial += 1
        if i < 3:
            samples.append({"case": case, "info": info})
    return oc.finish(PROP, RULE, explored, nontrivial, vs, stats, samples)


def replay(v):
    return oc.generic_replay(check_case, v)


if __name__ == "__main__":
    import json, time
    t = time.time()
    tier = sys.argv[1] if len(sys.argv) > 1 else "quick"
    res = run(tier, oc.common.rng("oracle:" + PROP))
    res["wall_s"] = round(time.time() - t, 1)
    print(json.dumps({k: res[k] for k in res if k != "samples"}, indent=1)[:6000])
