"""C11 - determinism and independence from how iterations are batched.

For one problem + parameter set:
  (a) reference: a fresh solver run by Solve() alone -> trial sequence S (points and values, compared bitwise), T = len(S);
  (a') a second fresh solver run by Solve() alone must reproduce S bitwise                          [repeat-run]
  (e) extended reference: a fresh solver stepped by DoGlobalIteration(1) K times, K = max(T, k_max):
      its first T trials must be S                                                                   [single-steps-prefix]
  (b) for compositions (b_1..b_j) of k (k <= 7 by default; all of them for short runs in thorough, random ones in quick;
      also random longer ones and ones containing DoGlobalIteration(0)): DoGlobalIteration(b_i) for each part, then Solve():
        batches-are-prefix      after the batches exactly k trials were made and they are E[:k]
        solve-after-batches     after Solve the sequence is E[:max(T, k)] - Solve ends at the same stop index T, or makes
                                no trial at all if the batches already overshot it
        returned-result         point, value, trial count and accuracy of the returned Solution equal those of the reference
                                (when k <= T)
        second-solve-no-trials  a second Solve() makes no further global Calculate call and returns the same result
A run that ends by float collapse (the new point rounds onto an end of an interval narrower than 1e-12; legitimate) is not
continued: it must have made exactly the trials of E up to the collapse, and every run that reaches that iteration index
must collapse there too (stats['float_collapse_stops']).
"""
import os
import sys
import math

_D = os.path.dirname(os.path.abspath(__file__))
for _p in (os.path.dirname(_D), _D):
    if _p not in sys.path:
        sys.path.insert(0, _p)
import o1_common as oc

PROP = "C11"
RULE = ("random objective/box/N=1..5/density/r/eps/itersLimit (limits biased to short runs so that batches overshoot the stop "
        "in part of the cases); per problem a set of compositions of k<=7 (all 2^(k-1) of them for every k in thorough when the "
        "run is short, else random ones), plus random long compositions with parts up to 40 and zero-size batches. explored "
        "counts (problem, composition) pairs; distinct by that pair; non-trivial if the composition has >= 2 parts or "
        "overshoots the stop index, and the run has >= 3 trials; in 20% of the problems a second live solver is stepped between the batches.")


def seq(run):
    return [(e[1], oc.common.f2h(e[2])) for e in run.glog()]


def result_tuple(sol):
    p, v = oc.best_of(sol)
    acc = sol.solutionAccuracy
    return (p, None if v is None else oc.common.f2h(v), sol.numberOfGlobalTrials, "inf" if acc == math.inf else oc.common.f2h(acc))


def compositions(k):
    if k == 0:
        yield ()
        return
    for first in range(1, k + 1):
        for rest in compositions(k - first):
            yield (first,) + rest


def first_diff(a, b):
    for i, (x, y) in enumerate(zip(a, b)):
        if x != y:
            return {"index": i + 1, "got": x, "expected": y}
    return {"length_got": len(a), "length_expected": len(b)}


def check_case(case):
    """case["compositions"]: list of lists of batch sizes"""
    vs = []
    info = {"compositions": 0, "overshoot": 0, "float_collapse": 0}
    base = {k: v for k, v in case.items() if k not in ("compositions", "companion")}
    comps = [list(c) for c in case["compositions"]]
    if base.get("shipped") and any(0 in c for c in comps):
        base.pop("shipped")       # the shipped listeners raise on a zero-length batch (see o1_common.Run)
    kmax = max([sum(c) for c in comps] + [0])
    cap = 4 * max(case["lim"], kmax, 16) + 64

    longest = max(comps, key=sum) if comps else None

    def fail(clause, obs, comp=None):
        # a reference-stage failure is replayed with the longest composition (it fixes the length of the single-step run)
        c = dict(base, compositions=[comp] if comp is not None else ([longest] if longest is not None else []))
        if case.get("companion"):
            c["companion"] = case["companion"]
        vs.append(oc.violation(PROP, c, clause, obs))

    try:
        ref = oc.Run(base, cap=cap)
        sol_ref = ref.solve()
        S = seq(ref)
        T = len(S)
        R = result_tuple(sol_ref)
        if case.get("reuse_params"):
            # the repeated run is given the very SolverParameters OBJECT of the first one; in between, the caller builds (and never runs)
            # a solver for another, higher-dimensional problem with the same object - "the same parameters" must mean the same search
            from iOpt.solver import Solver
            import impl as _impl
            nb = case["reuse_params"]
            other = Solver(_impl.LoggedProblem.make(lambda pt: float(sum(pt)), [0.0] * nb, [1.0] * nb), ref.solver.parameters)
            rep = oc.Run(base, cap=cap, params=ref.solver.parameters)
            del other
        else:
            rep = oc.Run(base, cap=cap)
        sol_rep = rep.solve()
        if seq(rep) != S or result_tuple(sol_rep) != R or bool(rep.collapsed) != bool(ref.collapsed):
            fail("repeat-run", first_diff(seq(rep), S))
        if ref.trouble():
            fail("no-internal-error", ref.trouble())
        if ref.collapsed:
            # the reference itself ended by float collapse before its stop criterion: only determinism is claimed
            info["float_collapse"] += 1
            info["T"] = T
            return vs, info
        K = max(T, kmax)
        ext = oc.Run(base, cap=cap)
        for _ in range(K):
            if not ext.iterate(1):
                break
        E = seq(ext)
        Kc = len(E)                      # Kc < K only if the single-step run ended by float collapse after Kc trials
        if (Kc != K and not ext.collapsed) or E[:T] != S:
            fail("single-steps-prefix", dict(first_diff(E[:T], S), steps=K, trials=Kc))
        if ext.trouble():
            fail("no-internal-error", ext.trouble())
        if ext.collapsed:
            info["float_collapse"] += 1
    except BaseException as e:                 # noqa
        fail("no-internal-error", {"raised": repr(e), "stage": "reference"})
        return vs, info
    info["T"] = T
    for comp in comps:
        info["compositions"] += 1
        k = sum(comp)
        if k > T:
            info["overshoot"] += 1
        try:
            run = oc.Run(base, cap=cap)
            mate = oc.Run(case["companion"]) if case.get("companion") else None
            for b in comp:
                if not run.iterate(b):
                    break
                if mate is not None:       # another live solver moves between the batches: the sequence must not notice
                    mate.iterate(1)
            s1 = seq(run)
            kk = min(k, Kc)
            if s1 != E[:kk] or bool(run.collapsed) != (k > Kc):
                fail("batches-are-prefix", dict(first_diff(s1, E[:kk]), k=k, float_collapse=bool(run.collapsed),
                                                expected_float_collapse=k > Kc), comp)
                continue
            if run.collapsed:              # legitimate end of this run: no further iterations are issued
                info["float_collapse"] += 1
                continue
            sol = run.solve()
            s2 = seq(run)
            if s2 != E[:max(T, k)] or run.collapsed:
                fail("solve-after-batches", dict(first_diff(s2, E[:max(T, k)]), k=k, T=T), comp)
                continue
            if k <= T and result_tuple(sol) != R:
                fail("returned-result", {"got": result_tuple(sol), "expected": R}, comp)
            r1 = result_tuple(sol)
            if sol.numberOfGlobalTrials != len(s2):
                fail("reported-global-trials", {"reported": sol.numberOfGlobalTrials, "global_evaluations": len(s2)}, comp)
            sol2 = run.solve()
            r2 = result_tuple(sol2)
            if base.get("refine"):
                # a second Solve refines again, starting from the refined point: point and value may improve further, the global
                # search (trial count, accuracy) must not move
                r1, r2 = r1[2:], r2[2:]
            if len(run.glog()) != len(s2) or r2 != r1:
                fail("second-solve-no-trials", {"calls_before": len(s2), "calls_after": len(run.glog()),
                                                "result_before": r1, "result_after": result_tuple(sol2)}, comp)
            if not base.get("refine") and not run.collapsed and len(s2) == base["lim"] and len(E) > len(s2):
                # the run stopped on its budget: the budget is raised IN PLACE and Solve is called again - the search goes on along the
                # same sequence (the trial sequence is a function of the problem and r only)
                run.solver.parameters.itersLimit = base["lim"] + 3
                run.solve()
                s3 = seq(run)
                acc = run.solver.method.min_delta < base["eps"]
                L_ = min(len(s3), len(E))
                if s3[:len(s2)] != s2 or s3[:L_] != E[:L_] or (len(s3) == len(s2) and not acc and not run.collapsed):
                    fail("resumed-solve-continues-the-sequence", dict(first_diff(s3, E[:len(s3)]), trials_before=len(s2), trials_after=len(s3),
                                                                      raised_budget=base["lim"] + 3, accuracy_reached=bool(acc)), comp)
                run.solver.parameters.itersLimit = base["lim"]
            if run.trouble():
                fail("no-internal-error", run.trouble(), comp)
        except BaseException as e:             # noqa
            fail("no-internal-error", {"raised": repr(e)}, comp)
        if len(vs) > 10:
            break
    return vs, info


def gen(r, tier):
    if r.random() < 0.04:
        case = oc.collapse_prone_case(r)
        del case["batches"]
        case["compositions"] = [[r.choice([1, 2, 5, 9, 40]) for _ in range(r.randint(1, 12))] for _ in range(8)]
        return case
    case = oc.gen_case(r, lim=r.choice([1, 2, 3, 4, 5, 6, 8, 12, 17, 40, 80, 150]),
                       eps=r.choice([1.5, 1.0, 0.5, 0.5, 0.3, 0.2, 0.1, 0.05, 0.02, 0.01, 1e-3]), refine=r.random() < 0.15)
    comps = []
    if tier == "thorough" and r.random() < 0.5:
        for k in range(0, 8):
            comps += [list(c) for c in compositions(k)]
    else:
        for _ in range(10):
            k = r.randint(1, 7)
            c = r.choice(list(compositions(k)))
            comps.append(list(c))
    for _ in range(3):          # long / irregular ones, zero-size batches included
        comps.append([r.choice([0, 1, 2, 3, 5, 8, 13, 40]) for _ in range(r.randint(1, 6))])
    case["compositions"] = comps
    if r.random() < 0.2:
        case["companion"] = oc.gen_case(r, lim=200)     # a second solver that is stepped between the batches of the first
    if r.random() < 0.12 and not case.get("np_params"):
        case["reuse_params"] = r.choice([6, 7, 3])      # dimension of the problem another solver is built for with the same parameters object
    return case


def run(tier, r):
    oc.reset_hangs()
    ncases = 330 if tier == "quick" else 1900
    vs, stats, samples, keys = [], {}, [], set()
    nontrivial = explored = 0
    for i in range(ncases):
        if oc.too_many_hangs(stats):
            break
        case = gen(r, tier)
        v, info = oc.safe(check_case, PROP)(case)
        vs += v
        explored += info.get("compositions", 0)
        oc.bump(stats, "problems")
        oc.bump(stats, "dim%d" % case["n"])
        oc.bump(stats, "overshooting_compositions", info.get("overshoot", 0))
        oc.bump(stats, "float_collapse_stops", info.get("float_collapse", 0))
        oc.bump(stats, "exhaustive_problems", 1 if len(case["compositions"]) > 100 else 0)
        oc.bump(stats, "reference_trials_total", info.get("T", 0))
        base = oc.case_key({k: v for k, v in case.items() if k != "compositions"})
        T = info.get("T", 0)
        for c in case["compositions"]:
            key = (base, tuple(c))
            if key not in keys:
                keys.add(key)
                if T >= 3 and (len(c) >= 2 or sum(c) > T):
                    nontrivial += 1
        if i < 3:
            samples.append({"case": dict(case, compositions=case["compositions"][:5]), "info": info})
    return oc.finish(PROP, RULE, explored, nontrivial, vs, stats, samples)


def replay(v):
    return oc.generic_replay(check_case, v)


if __name__ == "__main__":
    import json, time
    t = time.time()
    tier = sys.argv[1] if len(sys.argv) > 1 else "quick"
    res = run(tier, oc.common.rng("oracle:" + PROP))
    res["wall_s"] = round(time.time() - t, 1)
    print(json.dumps({k: res[k] for k in res if k not in ("samples", "rule")}, indent=1)[:6000])
