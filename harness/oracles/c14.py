"""C14 - GKLS functions have the promised structure and are reproducible.

Per (dimension n, number k) the real `GKLS(n, k)` object is built and the clauses of the statement are tested literally
on its public tables (function.GKLS_minima: local_min, rho, f, peak) and on values returned by `GKLS.Calculate`:
  minimisers   10 minimisers, all inside [-1,1]^n, radii > 0
  disjoint     ||M_i - M_j|| >= rho_i + rho_j for 1 <= i < j <= 9
  value_at_minimiser   Calculate(M_i) == f_i exactly, i = 0..9 (M_0 = T, the paraboloid vertex)
  paraboloid   at every probe point lying outside all balls the value equals ||x-T||^2 + f_0 (1e-9 relative; the
               bitwise agreement with the re-computation is counted in stats)
  basin_floor  inside ball i no value is below f_i (M_i really is the minimiser of its basin)
  continuity   (axis scans: along every coordinate axis through the centres of the 4 largest balls the largest step between 33 samples is
               bisected to ~1e-14 and must shrink below 1e-6)
  continuity   across every sphere (radius rho(1 -/+ 1e-9), same direction): jump < 1e-6; near the centres
               (5e-11 .. 1e-6 away, inside/outside the PRECISION guard): |f - f_i| < 1e-6; random pairs of points
               1e-9 apart (box and basin interiors): jump < 1e-6
  global       f_1 == -1 exactly, every other f_i > -1, exactly one global minimiser (index 1), ||M_1 - T|| equals the
               class distance (1e-9), rho_1 equals the class radius, knownOptimum == (M_1, -1)
  reference    tables digest and 10 value bit patterns equal to /verif/golden/gkls_reference.json
  reproducible a second construction of (n,k) after constructing and evaluating other instances has identical tables
               and bitwise identical values; the first object still returns the same values
"""
import os
import sys
import math
import random
import time

sys.path.insert(0, os.path.dirname(os.path.abspath(__file__)))
import o3_common as oc  # noqa: E402
import numpy as np  # noqa: E402

JUMP = 1e-6


def _dist(a, b):
    return math.sqrt(sum((float(x) - float(y)) ** 2 for x, y in zip(a, b)))


def _paraboloid_bitwise(T, f0, x):
    """the same floating-point expression as the code: sqrt(sum (T_i-x_i)^2) squared plus f_0"""
    s = 0.0
    for t, xi in zip(T, x):
        s += (float(t) - float(xi)) * (float(t) - float(xi))
    nrm = math.sqrt(s)
    return nrm * nrm + float(f0)


def _unit(r, n):
    while True:
        u = [r.gauss(0, 1) for _ in range(n)]
        nu = math.sqrt(sum(t * t for t in u))
        if nu > 1e-6:
            return [t / nu for t in u]


def _inbox(x):
    return all(-1.0 <= t <= 1.0 for t in x)


def check_instance(n, k, iseed, nbox, ndir):
    r = random.Random(iseed)
    viol = []
    info = {"n": n, "k": k, "branches": {"paraboloid": 0, "basin": 0, "centre_guard": 0, "ambiguous": 0},
            "bitwise_paraboloid": 0, "sphere_probes": 0, "directions_rejected": 0, "max_jump": 0.0}

    def v(clause, **obs):
        viol.append({"property": "C14", "n": n, "k": k, "iseed": iseed, "nbox": nbox, "ndir": ndir,
                     "clause": clause, "observed": obs})

    p = oc.construct("gkls", (n, k))
    fn = p.function
    M, rho, f, peak = oc.gkls_tables(p)
    T = M[0]
    ev = lambda x: oc.real_eval(p, x)  # noqa: E731

    # ---- minimisers inside the box, radii ---------------------------------------------------------------------
    if M.shape != (10, n) or len(rho) != 10 or len(f) != 10 or int(fn.GKLS_num_minima) != 10:
        v("minimisers", shape=list(M.shape), num_minima=int(fn.GKLS_num_minima))
        return viol, info
    for i in range(10):
        if not _inbox(M[i]):
            v("minimisers", index=i, point=oc.jl(M[i]), what="minimiser outside the box")
        if not rho[i] > 0:
            v("minimisers", index=i, rho=float(rho[i]), what="non-positive radius")
    # ---- disjoint balls ---------------------------------------------------------------------------------------
    min_gap = math.inf
    for i in range(1, 10):
        for j in range(i + 1, 10):
            gap = _dist(M[i], M[j]) - (rho[i] + rho[j])
            min_gap = min(min_gap, gap)
            if gap < -1e-12:
                v("disjoint", i=i, j=j, distance=_dist(M[i], M[j]), rho_i=float(rho[i]), rho_j=float(rho[j]))
    info["min_gap"] = min_gap
    # ---- values at the minimisers -----------------------------------------------------------------------------
    for i in range(10):
        val = ev(M[i])
        if val != float(f[i]):
            v("value_at_minimiser", index=i, value=val, prescribed=float(f[i]))
    # ---- global minimiser -------------------------------------------------------------------------------------
    cd, cr = oc.GKLS_CLASS[n]
    if float(f[1]) != -1.0:
        v("global", what="f_1 != -1", f_1=float(f[1]))
    for i in range(10):
        if i != 1 and not float(f[i]) > -1.0:
            v("global", what="another minimum is not strictly higher than -1", index=i, f_i=float(f[i]))
    d1 = _dist(M[1], T)
    if not oc.close(d1, cd, 1e-9, 0.0):
        v("global", what="global minimiser not at the class distance", distance=d1, class_distance=cd)
    if not oc.close(float(rho[1]), cr, 1e-12, 0.0):
        v("global", what="global attraction radius is not the class radius", rho_1=float(rho[1]), class_radius=cr)
    if not (oc.close(float(p.global_dist), cd, 1e-12, 0.0) and oc.close(float(p.global_radius), cr, 1e-12, 0.0)):
        v("global", what="declared class parameters", global_dist=float(p.global_dist),
          global_radius=float(p.global_radius))
    if int(fn.GKLS_glob.num_global_minima) != 1 or int(fn.GKLS_glob.gm_index[0]) != 1:
        v("global", what="list of global minimisers", num=int(fn.GKLS_glob.num_global_minima),
          first=int(fn.GKLS_glob.gm_index[0]))
    xd, fd = oc.declared(p)
    if oc.jl(xd) != oc.jl(M[1]) or fd != -1.0 or ev(xd) != -1.0:
        v("global", what="knownOptimum", point=oc.jl(xd), value=fd, calculated=ev(xd))

    # ---- probes -----------------------------------------------------------------------------------------------
    def classify(x):
        """('out', None) outside all balls with margin, ('in', i), or ('amb', None)"""
        amb = False
        for i in range(1, 10):
            d = _dist(M[i], x)
            if d < rho[i] * (1 - 1e-12):
                return "in", i
            if d <= rho[i] * (1 + 1e-12):
                amb = True
        return ("amb", None) if amb else ("out", None)

    def probe(x, tag):
        """evaluates x and checks the paraboloid / basin-floor clause that applies"""
        val = ev(x)
        kind, i = classify(x)
        if kind == "out":
            info["branches"]["paraboloid"] += 1
            ref = _paraboloid_bitwise(T, f[0], x)
            if val == ref:
                info["bitwise_paraboloid"] += 1
            elif not oc.close(val, ref, 1e-9, 1e-12):
                v("paraboloid", point=oc.jl(x), value=val, paraboloid=ref, probe=tag)
        elif kind == "in":
            info["branches"]["basin"] += 1
            if val < float(f[i]) - 1e-12:
                v("basin_floor", point=oc.jl(x), value=val, ball=i, f_i=float(f[i]), probe=tag)
        else:
            info["branches"]["ambiguous"] += 1
        return val

    def pair(x, y, tag, **extra):
        a, b = probe(x, tag), probe(y, tag)
        info["max_jump"] = max(info["max_jump"], abs(a - b))
        if not abs(a - b) < JUMP:
            v("continuity", probe=tag, x=oc.jl(x), y=oc.jl(y), f_x=a, f_y=b, jump=abs(a - b), **extra)

    kept = []  # points re-evaluated in the reproducibility clause
    for j in range(nbox):
        x = [r.uniform(-1, 1) for _ in range(n)]
        if j % 8 == 0:
            # points ON the boundary of the box (faces, edges, corners): the function is defined and continuous there too
            for i in range(n):
                if r.random() < 0.5:
                    x[i] = r.choice([-1.0, 1.0])
        u = _unit(r, n)
        y = [min(1.0, max(-1.0, xi + 1e-9 * ui)) for xi, ui in zip(x, u)]
        if j % 8 == 0:
            y = [xi * (1 - 1e-9) for xi in x]          # the same point pulled slightly inwards
        pair(x, y, "box-boundary" if j % 8 == 0 else "box")
        if len(kept) < 12:
            kept.append(x)
    for i in range(1, 10):
        c, rh = [float(t) for t in M[i]], float(rho[i])
        done = tries = 0
        while done < ndir and tries < 40 * ndir:
            tries += 1
            u = _unit(r, n)
            xin = [ci + rh * (1 - 1e-9) * ui for ci, ui in zip(c, u)]
            xout = [ci + rh * (1 + 1e-9) * ui for ci, ui in zip(c, u)]
            if not (_inbox(xin) and _inbox(xout)):
                info["directions_rejected"] += 1
                continue
            done += 1
            info["sphere_probes"] += 1
            pair(xin, xout, "sphere", ball=i)
            if done == 1:
                kept.append(xin)
            # interior of the basin along the same direction, and a neighbour 1e-9 away
            for s in (0.999, 0.9, 0.5, 0.1):
                y = [ci + s * rh * ui for ci, ui in zip(c, u)]
                if _inbox(y):
                    w = _unit(r, n)
                    y2 = [min(1.0, max(-1.0, yi + 1e-9 * wi)) for yi, wi in zip(y, w)]
                    pair(y, y2, "interior", ball=i, fraction=s)
        if done == 0:
            info.setdefault("balls_without_sphere_probe", []).append(i)
        for delta in (5e-11, 2e-10, 1e-8, 1e-6):
            for _ in range(8):
                u = _unit(r, n)
                y = [ci + delta * ui for ci, ui in zip(c, u)]
                if _inbox(y):
                    break
            else:
                continue
            val = ev(y)
            if delta < 1e-10:
                info["branches"]["centre_guard"] += 1
            if not abs(val - float(f[i])) < JUMP:
                v("continuity", probe="centre", ball=i, delta=delta, point=oc.jl(y), value=val, f_i=float(f[i]))
            if val < float(f[i]) - 1e-12:
                v("basin_floor", point=oc.jl(y), value=val, ball=i, f_i=float(f[i]), probe="centre")

    # ---- axis scans through the large basins ----------------------------------------------------------------------
    # along every coordinate axis through the centre of each of the (up to 4) largest balls, centre -> sphere: the largest step between
    # successive samples is bisected down to ~1e-14; a jump that does not shrink is a discontinuity INSIDE the basin (a shortcut that
    # tests one coordinate against the radius shows up exactly on such lines)
    info["axis_lines"] = 0
    big = sorted(range(1, 10), key=lambda i_: -float(rho[i_]))[:4]
    for i in big:
        c, rh = [float(t) for t in M[i]], float(rho[i])
        if rh < 0.3:
            continue
        for ax in range(n):
            for sg in (1.0, -1.0):
                steps = 32
                pts = []
                for q in range(steps + 1):
                    y = list(c)
                    y[ax] = c[ax] + sg * rh * (1 - 1e-9) * q / steps
                    if not _inbox(y):
                        break
                    pts.append(y)
                if len(pts) < 3:
                    continue
                info["axis_lines"] += 1
                vals = [ev(y) for y in pts]
                q = max(range(len(pts) - 1), key=lambda q_: abs(vals[q_ + 1] - vals[q_]))
                a_, b_, fa, fb = pts[q], pts[q + 1], vals[q], vals[q + 1]
                for _ in range(46):
                    m_ = [(u1 + u2) / 2 for u1, u2 in zip(a_, b_)]
                    if m_ == a_ or m_ == b_:
                        break
                    fm = ev(m_)
                    if abs(fm - fa) >= abs(fb - fm):
                        b_, fb = m_, fm
                    else:
                        a_, fa = m_, fm
                if not abs(fa - fb) < JUMP:
                    v("continuity", probe="axis-scan", ball=i, axis=ax, x=oc.jl(a_), y=oc.jl(b_), f_x=fa, f_y=fb, jump=abs(fa - fb),
                      distance=_dist(a_, b_))

    # ---- golden reference -------------------------------------------------------------------------------------
    gold = oc.load_gkls_golden().get(f"{n},{k}")
    if gold is None:
        raise oc.Infra(f"golden reference has no entry for GKLS({n},{k})")
    dig = oc.sha(M, rho, f, peak)
    if dig != gold["tables_sha256"]:
        v("reference", what="minima tables differ from the recorded reference", digest=dig,
          recorded=gold["tables_sha256"])
    for q, hv in zip(gold["points"], gold["values"]):
        x = [oc.h2f(h) for h in q.split()]
        val = ev(x)
        if oc.f2h(val) != hv:
            v("reference", what="value differs from the recorded reference", point=oc.jl(x), value=val,
              recorded=oc.h2f(hv))
            break

    # ---- the value does not depend on the TYPE of the coordinates ------------------------------------------------
    # box points with integer coordinates (centre, corners, face / edge centres) given as a list of Python ints, a tuple, an integer
    # ndarray: the same point, so the same value as with doubles (inside a ball the cubic branch does the arithmetic)
    from iOpt.trial import Point, FunctionValue
    import itertools
    lat = list(itertools.product((-1, 0, 1), repeat=n))
    r.shuffle(lat)
    for q in lat[:30]:
        ref = oc.f2h(ev([float(t) for t in q]))
        for tname, arg in (("list of int", list(q)), ("tuple of int", tuple(q)), ("int64 ndarray", oc.np.array(q, dtype=oc.np.int64))):
            got, e = oc.guarded(lambda: float(p.Calculate(Point(arg, []), FunctionValue()).value))
            if e is not None or oc.f2h(got) != ref:
                v("argument_type", point=list(q), given_as=tname, value=got if e is None else e, value_for_doubles=oc.h2f(ref))
                break
    info["integer_typed_points"] = min(30, len(lat))

    # ---- reproducibility --------------------------------------------------------------------------------------
    before = [oc.f2h(ev(x)) for x in kept]
    others = []
    for j in range(2):
        # one other function of the same dimension, one of a random dimension
        n2 = n if j == 0 else r.choice((2, 3, 4, 5))
        k2 = r.choice([t for t in range(1, 101) if (n2, t) != (n, k)])
        q = oc.construct("gkls", (n2, k2))
        oc.real_eval(q, [r.uniform(-1, 1) for _ in range(n2)])
        others.append([n2, k2])
    if oc.gkls_digest(p) != dig:
        v("reproducible", what="tables changed after other instances were constructed", others_between=others)
    for x, hb in zip(kept, before):
        b = oc.f2h(ev(x))
        if b != hb:
            v("reproducible", what="value changed after other instances were constructed", point=oc.jl(x),
              before=oc.h2f(hb), after=oc.h2f(b), others_between=others)
            break
    p2 = oc.construct("gkls", (n, k))
    if oc.gkls_digest(p2) != dig:
        v("reproducible", what="second construction has different tables", others_between=others)
    if oc.gkls_digest(p) != dig:
        v("reproducible", what="tables of the first object changed", others_between=others)
    for x, hb in zip(kept, before):
        a, b = oc.f2h(oc.real_eval(p2, x)), oc.f2h(ev(x))
        if a != hb or b != hb:
            v("reproducible", what="value differs between constructions / over time", point=oc.jl(x),
              first=oc.h2f(hb), second_object=oc.h2f(a), first_object_again=oc.h2f(b), others_between=others)
            break
    # the generator object of p2 is re-seeded: another function number, then number k again ("function (n, k) is always the same
    # function" - also when it is generated a second time on the same generator object)
    k2 = k % 100 + 1
    _, err = oc.guarded(lambda: (p2.function.SetFunctionNumber(k2), p2.function.SetFunctionNumber(k)))
    if err is not None:
        v("reproducible", what="re-seeding the generator object raised", **err)
    else:
        if oc.gkls_digest(p2) != dig:
            v("reproducible", what="tables differ after the generator object was re-seeded (other number, then the same number again)",
              other_number=k2)
        for x, hb in zip(kept, before):
            a = oc.f2h(oc.real_eval(p2, x))
            if a != hb:
                v("reproducible", what="value differs after the generator object was re-seeded", point=oc.jl(x),
                  first=oc.h2f(hb), after_reseeding=oc.h2f(a), other_number=k2)
                break
    return viol, info


def run(tier, r):
    t0 = time.time()
    if tier == "thorough":
        inst = [(n, k) for n in (2, 3, 4, 5) for k in range(1, 101)]
        nbox, ndir = 3000, 20
    else:
        inst = [(n, k) for n in (2, 3, 4, 5) for k in sorted(r.sample(range(1, 101), 25))]
        nbox, ndir = 400, 6
    violations, samples = [], []
    stats = {"instances_per_dimension": {}, "branches": {"paraboloid": 0, "basin": 0, "centre_guard": 0, "ambiguous": 0},
             "bitwise_paraboloid": 0, "sphere_probes": 0, "directions_rejected": 0, "max_jump": 0.0,
             "min_gap_between_balls": math.inf, "balls_without_sphere_probe": 0}
    nontrivial = 0
    for n, k in inst:
        if oc.common.past_oracle_cap() or len(violations) >= 60:
            stats["stopped_early"] = "deep-search time cap or enough violations"
            break
        iseed = r.getrandbits(48)
        res, err = oc.guarded(check_instance, n, k, iseed, nbox, ndir)
        if err is not None:
            violations.append({"property": "C14", "n": n, "k": k, "iseed": iseed, "nbox": nbox, "ndir": ndir,
                               "tier": tier, "clause": "exception", "observed": err})
            stats["exceptions"] = stats.get("exceptions", 0) + 1
            continue
        viol, info = res
        for c in viol:
            c["tier"] = tier
        violations += viol
        stats["instances_per_dimension"][str(n)] = stats["instances_per_dimension"].get(str(n), 0) + 1
        for b, c in info["branches"].items():
            stats["branches"][b] += c
        for key in ("bitwise_paraboloid", "sphere_probes", "directions_rejected"):
            stats[key] += info[key]
        stats["max_jump"] = max(stats["max_jump"], info["max_jump"])
        stats["min_gap_between_balls"] = min(stats["min_gap_between_balls"], info.get("min_gap", math.inf))
        stats["balls_without_sphere_probe"] += len(info.get("balls_without_sphere_probe", []))
        br = info["branches"]
        if br["paraboloid"] > 0 and br["basin"] > 0 and br["centre_guard"] > 0 and info["sphere_probes"] >= 9:
            nontrivial += 1
        if len(samples) < 3 and n in (2, 4, 5) and not any(s["n"] == n for s in samples):
            samples.append(info)
    stats["wall_s"] = round(time.time() - t0, 1)
    return {"explored": sum(stats["instances_per_dimension"].values()) if stats.get("stopped_early") else len(inst), "distinct_nontrivial": nontrivial,
            "rule": "instances = distinct (dimension, number) pairs: 25 seeded numbers per dimension in quick, all 400 "
                    "in thorough; per instance %d/%d random box points (+ a neighbour 1e-9 away), %d/%d directions "
                    "per attraction sphere with interior and centre probes. Non-trivial: the probes hit the "
                    "paraboloid branch, the cubic branch and the centre guard and at least 9 sphere crossings." %
                    (400, 3000, 6, 20),
            "violations": violations, "known": [], "stats": stats, "samples": samples}


def replay(case):
    res, err = oc.guarded(check_instance, case["n"], case["k"], case["iseed"], case["nbox"], case["ndir"])
    if err is not None:
        return {"reproduced": case["clause"] == "exception", "detail": err}
    viol, info = res
    hit = [c for c in viol if c["clause"] == case["clause"]]
    return {"reproduced": bool(hit), "detail": hit[0]["observed"] if hit else {"info": info}}
