"""C07 - Evolvent visits every grid cell of the box exactly once.

Clauses tested literally on iOpt.evolvent.evolvent.Evolvent.GetImage (no model involved):
 (a) exhaustive, N*m <= 12 (quick) / 18 (thorough), N = 2..5: for EVERY subinterval i of the 2^(N m) equal parts of [0,1]
     the images of its left end, of an interior point and of the largest double below its right end lie in ONE cell
     of the 2^m-per-axis grid of the box (cell computed exactly with integer arithmetic on the doubles), each image
     is the cell centre up to the rounding of the affine map (8*2^-53*max(|lo|,|hi|) per axis), the three
     images are bitwise equal, different subintervals give different cells, all (2^m)^N cells are reached,
     x = 1 maps to the cell of the last subinterval, every image is strictly inside the box.
 (b) random, all N*m <= 50, N = 2..5: random subintervals (incl. the last ones: x within 4e-9 of 1, the first ones,
     and neighbours of high level boundaries): two/three points of one subinterval -> same cell, centre, strictly
     inside; distinct subintervals of one configuration (the sampled ones, their neighbours i-1, i+1, the sibling i^1
     and one subinterval differing in one random binary digit) -> distinct cells; x = 1 -> cell of the last subinterval.
 (c) N = 1 (no grid: the map is affine): image within rounding of lo + x*(hi-lo), inside [lo, hi] up to rounding,
     monotone in x."""
import os
import sys

_H = os.path.dirname(os.path.dirname(os.path.abspath(__file__)))
if _H not in sys.path:
    sys.path.insert(0, _H)
from oracles import o2_common as oc  # noqa: E402
from oracles.o2_common import np, Fraction  # noqa: E402

RULE = ("exhaustive: every (N, m) with N in 2..5 and N*m <= 12 (quick) / 18 (thorough), random box, ALL subintervals, "
        "3 points each (left end, random interior point, nextafter(right end, 0)); random: (N, m) with N*m <= 50, "
        "random box (streams.gen_box + per-axis mixed / one-signed / badly conditioned boxes), subintervals drawn from "
        "{uniform, last 2^k, first 2^k, around boundaries j*2^(N*l)}, x within 4e-9 of 1, x = 1; N = 1: random x. "
        "A case is one (configuration, subinterval); it is non-trivial when the subinterval is not 0 and N >= 2 "
        "(N = 1 cases are counted as explored but trivial); distinct = distinct (N, m, box, subinterval).")


def _check_points(ev, g, n, m, i, xs, viol, ctx):
    """images of the points xs (all in subinterval i): same cell, centre, strictly inside. Returns the cell."""
    cell0, y0 = None, None
    for x in xs:
        y = ev.GetImage(x)
        if len(y) != n or not all(np.isfinite(y)):
            viol.append(dict(ctx, what="image is not a finite N-vector", x=float(x).hex(), y=oc.lst(y)))
            return None
        cell, devs = g.cell_and_dev(y)
        for a in range(n):
            if not (g.lo[a] < y[a] < g.hi[a]):
                viol.append(dict(ctx, what="image not strictly inside the box", x=float(x).hex(), axis=a, y=oc.lst(y)))
            if devs[a] > g.tol[a]:
                viol.append(dict(ctx, what="image is not a cell centre", x=float(x).hex(), axis=a, y=oc.lst(y),
                                 deviation=devs[a], tolerance=g.tol[a], cell_width=g.width[a]))
            if not (0 <= cell[a] < 2 ** m):
                viol.append(dict(ctx, what="cell index outside the grid", x=float(x).hex(), axis=a, cell=list(cell)))
        if cell0 is None:
            cell0, y0 = cell, y
        else:
            if cell != cell0:
                viol.append(dict(ctx, what="two points of one subinterval map to different cells", subinterval=i,
                                 x0=float(xs[0]).hex(), x=float(x).hex(), cell0=list(cell0), cell=list(cell)))
            elif not np.array_equal(y, y0):
                viol.append(dict(ctx, what="two points of one subinterval map to different points of the same cell",
                                 subinterval=i, x0=float(xs[0]).hex(), x=float(x).hex(), y0=oc.lst(y0), y=oc.lst(y)))
    return cell0


def _exhaustive(n, m, lo, hi, fracs, viol, maxviol=20):
    ev = oc.mk_ev(lo, hi, n, m)
    g = oc.Grid(lo, hi, m)
    tot = 2 ** (n * m)
    ctx = {"mode": "exhaustive", "N": n, "m": m, "lower": lo, "upper": hi}
    seen = {}
    for i in range(tot):
        a = oc.left_end(i, n, m)
        b = oc.near_right_end(i, n, m)
        mid = (i + fracs[i % len(fracs)]) / float(tot)
        if not (a < mid < (i + 1) / float(tot)):
            mid = (i + 0.5) / float(tot)
        cell = _check_points(ev, g, n, m, i, (a, mid, b), viol, ctx)
        if cell is not None:
            if cell in seen:
                viol.append(dict(ctx, what="two subintervals map to the same cell", subinterval=i, other=seen[cell],
                                 cell=list(cell)))
            else:
                seen[cell] = i
        if len(viol) >= maxviol:
            return i + 1
    if len(seen) != (2 ** m) ** n:
        viol.append(dict(ctx, what="not every cell is reached", reached=len(seen), cells=(2 ** m) ** n))
    y1 = ev.GetImage(1.0)
    c1 = g.cell(y1)
    ylast = ev.GetImage(oc.left_end(tot - 1, n, m))
    if c1 != g.cell(ylast) or not np.array_equal(y1, ylast):
        viol.append(dict(ctx, what="x = 1 does not map to the last cell", y1=oc.lst(y1), ylast=oc.lst(ylast)))
    return tot


def _pick_subinterval(r, n, m):
    tot = 2 ** (n * m)
    u = r.random()
    if u < 0.25:
        return r.randrange(tot)
    if u < 0.45:
        return max(0, tot - 1 - r.randrange(min(tot, 2 ** r.randint(0, 12))))
    if u < 0.55:
        return min(tot - 1, r.randrange(min(tot, 2 ** r.randint(0, 12))))
    # neighbours of a high level boundary j * 2^(n*l)
    l = r.randint(0, m - 1) if m > 1 else 0
    blk = 2 ** (n * l)
    j = r.randrange(1, tot // blk + 1)
    return min(tot - 1, max(0, j * blk - r.choice([0, 1, 1, 2])))


def _random_case(r, viol, stats, seen_cfg):
    n, m = oc.gen_nm(r, 50, 1, ns=(2, 3, 4, 5, 6, 7))
    lo, hi = oc.gen_box(r, n)
    m = oc.common.cap_density(lo, hi, m)
    ev = oc.mk_ev(lo, hi, n, m)
    g = oc.Grid(lo, hi, m)
    tot = 2 ** (n * m)
    ctx = {"mode": "random", "N": n, "m": m, "lower": lo, "upper": hi}
    cells = {}
    cases = []
    k = r.randint(4, 12)
    for _ in range(k):
        u = r.random()
        if u < 0.2:
            # a point within 4e-9 of 1 (regression: end rule must not capture the last 1e-9 of the curve)
            x = 1.0 - r.random() * 4e-9
            if x >= 1.0:
                x = oc.math.nextafter(1.0, 0.0)
            i = oc.subinterval(x, n, m)
            xs = [x, oc.left_end(i, n, m), oc.near_right_end(i, n, m)]
            stats["near_one"] += 1
        else:
            i = _pick_subinterval(r, n, m)
            a = oc.left_end(i, n, m)
            b = oc.near_right_end(i, n, m)
            mid = (i + r.random()) / float(tot)
            xs = [a, b] if not (a < mid < (i + 1) / float(tot)) else [a, mid, b]
        for x in xs:
            if oc.subinterval(x, n, m) != i:     # generator sanity, never a violation
                raise RuntimeError("generator produced a point outside its subinterval")
        cell = _check_points(ev, g, n, m, i, xs, viol, dict(ctx, subinterval=i))
        cases.append(i)
        if cell is not None:
            # the neighbouring subintervals and the sibling i^1 must have other cells (cheap local injectivity probe)
            for i2 in {i - 1, i + 1, i ^ 1, i ^ (1 << r.randrange(n * m))} - {i}:
                if 0 <= i2 < tot:
                    c2 = g.cell(ev.GetImage(oc.left_end(i2, n, m)))
                    if c2 == cell:
                        viol.append(dict(ctx, what="two subintervals map to the same cell", subinterval=i, other=i2,
                                         cell=list(cell)))
                    elif c2 not in cells:
                        cells[c2] = i2
                    elif cells[c2] != i2:
                        viol.append(dict(ctx, what="two subintervals map to the same cell", subinterval=i2,
                                         other=cells[c2], cell=list(c2)))
            if cell in cells and cells[cell] != i:
                viol.append(dict(ctx, what="two subintervals map to the same cell", subinterval=i, other=cells[cell],
                                 cell=list(cell)))
            cells[cell] = i
    # x = 1 -> last cell
    y1 = ev.GetImage(1.0)
    ylast = ev.GetImage(oc.left_end(tot - 1, n, m))
    if g.cell(y1) != g.cell(ylast) or not np.array_equal(y1, ylast):
        viol.append(dict(ctx, what="x = 1 does not map to the last cell", y1=oc.lst(y1), ylast=oc.lst(ylast)))
    if (tot - 1) not in cases:
        c1 = g.cell(y1)
        if c1 in cells and cells[c1] != tot - 1:
            viol.append(dict(ctx, what="two subintervals map to the same cell", subinterval=tot - 1, other=cells[c1],
                             cell=list(c1)))
    stats["nm_hist"][str(n * m // 10 * 10)] = stats["nm_hist"].get(str(n * m // 10 * 10), 0) + 1
    stats["dims"][str(n)] = stats["dims"].get(str(n), 0) + 1
    return n, m, lo, hi, cases


def _n1_case(r, viol):
    lo, hi = oc.gen_box(r, 1)
    m = r.randint(1, 50)
    ev = oc.mk_ev(lo, hi, 1, m)
    L, H = lo[0], hi[0]
    tol = 8 * oc.U * max(abs(L), abs(H)) + 1e-300
    xs = sorted([0.0, 1.0] + [r.random() for _ in range(6)] + [1.0 - r.random() * 4e-9, r.random() * 1e-12])
    prev = None
    ctx = {"mode": "N=1", "N": 1, "m": m, "lower": lo, "upper": hi}
    for x in xs:
        y = ev.GetImage(x)
        want = Fraction(L) + Fraction(x) * (Fraction(H) - Fraction(L))
        if len(y) != 1 or abs(Fraction(float(y[0])) - want) > tol:
            viol.append(dict(ctx, what="N = 1 image is not the affine image", x=float(x).hex(), y=oc.lst(y), want=float(want)))
        if not (L - tol <= y[0] <= H + tol):
            viol.append(dict(ctx, what="N = 1 image outside the segment", x=float(x).hex(), y=oc.lst(y)))
        if prev is not None and y[0] < prev - tol:
            viol.append(dict(ctx, what="N = 1 image not monotone", x=float(x).hex(), y=oc.lst(y), previous=prev))
        prev = float(y[0])
    return len(xs)


def run(tier, r):
    bud = oc.Budget(oc.tier_seconds(tier, 90.0, 1500.0))     # safety cap only; the case counts below are fixed
    nrandom = 4500 if tier == "quick" else 40000
    viol = []
    stats = {"exhaustive_configs": [], "near_one": 0, "nm_hist": {}, "dims": {}, "n1_points": 0, "random_configs": 0}
    explored = 0
    nontrivial = 0
    samples = []
    lim = 12 if tier == "quick" else 18
    fracs = [r.uniform(0.01, 0.99) for _ in range(257)]
    cfgs = [(n, m) for n in (2, 3, 4, 5, 6, 7) for m in range(1, 26) if n * m <= lim]
    cfgs.sort(key=lambda c: c[0] * c[1])
    for n, m in cfgs:
        if bud.over(0.8):
            stats.setdefault("exhaustive_skipped_for_time", []).append([n, m])
            continue
        lo, hi = oc.gen_box(r, n)
        done = _exhaustive(n, m, lo, hi, fracs, viol)
        explored += done
        nontrivial += max(0, done - 1)
        stats["exhaustive_configs"].append([n, m, done])
        if len(samples) < 1:
            samples.append({"mode": "exhaustive", "N": n, "m": m, "lower": lo, "upper": hi, "subintervals": done})
        if len(viol) >= 20:
            break
    # random part
    seen_cfg = set()
    while stats["random_configs"] < nrandom and len(viol) < 40:
        if bud.over():
            stats["truncated_by_time"] = True
            break
        n, m, lo, hi, cases = _random_case(r, viol, stats, seen_cfg)
        stats["random_configs"] += 1
        for i in cases:
            key = (n, m, tuple(lo), tuple(hi), i)
            explored += 1
            if key not in seen_cfg:
                seen_cfg.add(key)
                if i != 0:
                    nontrivial += 1
        if len(samples) < 3:
            samples.append({"mode": "random", "N": n, "m": m, "lower": lo, "upper": hi, "subintervals": cases})
        if stats["random_configs"] % 8 == 0:
            k = _n1_case(r, viol)
            explored += k
            stats["n1_points"] += k
    for v in viol:
        v["property"] = "C07"
    return {"explored": explored, "distinct_nontrivial": nontrivial, "rule": RULE, "violations": viol[:40], "known": [],
            "stats": stats, "samples": samples}


def replay(case):
    """re-run the configuration of a recorded violation (exhaustively when it was exhaustive, otherwise the recorded
    subinterval) and report whether any violation of the same kind shows again"""
    n, m, lo, hi = case["N"], case["m"], case["lower"], case["upper"]
    viol = []
    if case.get("mode") == "N=1":
        ev = oc.mk_ev(lo, hi, 1, m)
        y = ev.GetImage(float.fromhex(case["x"])) if "x" in case else None
        return {"reproduced": y is not None and oc.lst(y) == case.get("y"), "detail": {"y": None if y is None else oc.lst(y)}}
    if case.get("mode") == "exhaustive" and n * m <= 18:
        _exhaustive(n, m, lo, hi, [0.37], viol, maxviol=5)
    else:
        ev = oc.mk_ev(lo, hi, n, m)
        g = oc.Grid(lo, hi, m)
        tot = 2 ** (n * m)
        idx = sorted({case[k] for k in ("subinterval", "other") if k in case}) or [tot - 1]
        cells = {}
        for i in idx:
            xs = [oc.left_end(i, n, m), oc.near_right_end(i, n, m)]
            for k in ("x", "x0"):
                if k in case and oc.subinterval(float.fromhex(case[k]), n, m) == i:
                    xs.append(float.fromhex(case[k]))
            c = _check_points(ev, g, n, m, i, xs, viol, {"N": n, "m": m, "lower": lo, "upper": hi})
            if c in cells:
                viol.append({"what": "two subintervals map to the same cell", "subinterval": i, "other": cells[c]})
            cells[c] = i
        y1, yl = ev.GetImage(1.0), ev.GetImage(oc.left_end(tot - 1, n, m))
        if not np.array_equal(y1, yl):
            viol.append({"what": "x = 1 does not map to the last cell"})
    same = [v for v in viol if v["what"] == case.get("what")]
    return {"reproduced": bool(same), "detail": (same or viol)[:3]}
