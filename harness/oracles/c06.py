"""C06 - the search information is a faithful, ordered and complete record of the trials.

The real solver is stepped (DoGlobalIteration(k), mostly k = 1, or Solve with a listener that checks inside
OnEndIteration) and after EVERY iteration the whole record is tested by o1_common.RecordChecker:
  ends-are-0-and-1 / strictly-increasing   traversal `for item in searchData` runs strictly increasing from 0.0 to 1.0
  traversal-terminates / count-and-membership  traversal visits exactly the stored items, GetCount() agrees
  links-ends / links-mutual                 first.left is None, last.right is None, a.right is b <=> b.left is a
  end-not-evaluated / inner-evaluated       index -2 at the two ends, 0 everywhere else
  trials-equal-log                          #inner items == #global Calculate calls
  evaluated-exactly-once-in-order           k-th inserted item has the point, the value and the very value holder of the k-th call
  value-holders-distinct                    no value holder is shared by two trials
  record-points-are-the-logged-points       multiset of stored points == multiset of logged points
  delta                                     item.delta == pow(x - x_left, 1/N)   (exact)
  point-is-image                            item.point == Evolvent(lower, upper, N, m).GetImage(x) of a FRESH evolvent (exact), ends included
  value-is-objective                        stored value and GetZ() == objective(stored point), recomputed (exact)
"""
import os
import sys

_D = os.path.dirname(os.path.abspath(__file__))
for _p in (os.path.dirname(_D), _D):
    if _p not in sys.path:
        sys.path.insert(0, _p)
import o1_common as oc

PROP = "C06"
RULE = ("random objective/box/N=1..5/density/r/eps/itersLimit; the run is stepped by DoGlobalIteration(k) (k mostly 1) or by "
        "Solve with an OnEndIteration listener, and the complete record is tested after every iteration (refineSolution=False; "
        "the record after a local refinement is not claimed by the property's 'after any number of iterations'); 12% of the runs "
        "start with a failing first evaluation (contained by Solve) and are then started again; in 10% a LATER evaluation (the 2nd..25th) raises "
        "once - contained by Solve, or caught by the caller of DoGlobalIteration who carries on - and the record is audited right after the "
        "failure and after every further step; in 18% another solver is built and "
        "run before the record is audited once more. Distinct by "
        "parameter set + stepping pattern; non-trivial if >= 4 trials were recorded (so insertions happened on both sides and "
        "between evaluated neighbours).")


def check_case(case):
    return _check_case(case, [])


def _check_case(case, front):
    vs = []
    info = {"checks": 0}
    holder = [None, None]

    def check_now(where):
        info["checks"] += 1
        if len(vs) > 10:
            return
        for clause, obs in holder[1].check():
            vs.append(oc.violation(PROP, case, clause, dict(obs, where=where, trials=len(holder[0].glog()))))

    from iOpt.method.listener import Listener

    class Rec(Listener):
        def BeforeMethodStart(self, method):
            pass

        def OnEndIteration(self, savedNewPoints, solution):
            if holder[0].problem.log:
                check_now("OnEndIteration")

        def OnMethodStop(self, searchData, solution, status):
            if holder[0].problem.log:          # an empty record (the first evaluation failed) has nothing to traverse
                check_now("OnMethodStop")

    ff = bool(case.get("first_fails"))
    fa = case.get("fails_at")           # a LATER evaluation (the k-th, k >= 2) raises once: a transient failure of the objective
    run = oc.Run(case, listeners=(front or []) + ([Rec()] if case.get("listener", True) else []),
                 fail_at=1 if ff else fa, exc=ValueError if (ff or fa) else None)
    holder[0] = run
    holder[1] = oc.RecordChecker(run)
    err = None
    other = None
    try:
        if ff:
            # the very first evaluation raises (a transient failure): Solve contains it; the search is then started again.
            # Nothing was evaluated, so nothing may have been recorded, and the retried run must be a faithful record.
            import contextlib
            with contextlib.redirect_stdout(run.out):
                run.solver.Solve()
            run.out.truncate(0); run.out.seek(0)
            n0 = run.solver.searchData.GetCount()
            if n0 != 0 or run.solver.GetResults().numberOfGlobalTrials != 0:
                vs.append(oc.violation(PROP, case, "nothing-recorded-after-failed-first-trial",
                                       {"GetCount": n0, "reported_trials": run.solver.GetResults().numberOfGlobalTrials}))
        for b in case.get("batches", []):
            if fa:
                # the caller catches the failure of a step and carries on: the trial that failed was never evaluated, so it is not
                # part of the record - and the record is still exactly the trials made
                try:
                    ok = run.iterate(b)          # (a legitimate float collapse ends the run here as everywhere)
                except ValueError:
                    ok = True
                if run.problem.log:
                    check_now("after DoGlobalIteration (one evaluation failed on the way)" if ok else "after float collapse")
                if not ok:
                    break
                continue
            ok = run.iterate(b)
            if run.problem.log:
                check_now("after DoGlobalIteration" if ok else "after float collapse")
            if not ok:
                break
        if case.get("solve", True):
            if fa:
                import contextlib
                with contextlib.redirect_stdout(run.out):
                    run.solver.Solve()        # contains the failure (if it is still to come) and returns
                if run.problem.log:
                    check_now("after Solve (one evaluation failed on the way)")
                run.out.truncate(0); run.out.seek(0)
            run.solve()
            check_now("after Solve")
        if case.get("other_solver") and run.problem.log and not run.collapsed:
            # another solver of the same process is built and run to the end: this solver's record must not change
            oc2 = dict(case["other_solver"])
            other = oc.Run(oc2)
            other.solve()
            check_now("after ANOTHER solver was built and run")
    except BaseException as e:                 # noqa
        err = repr(e)
    if run.trouble(err):
        vs.append(oc.violation(PROP, case, "no-internal-error", run.trouble(err)))
    info["float_collapse"] = bool(run.collapsed)
    info["trials"] = len(run.glog())
    return vs, info


def gen(r):
    if r.random() < 0.03:
        return dict(oc.collapse_prone_case(r), solve=r.random() < 0.5, listener=r.random() < 0.5)
    if r.random() < 0.05:
        # a HUGE penalty value on a band of the box: differences overflow, characteristics become NaN (repaired defects F11, F13): the
        # record must stay a faithful record of the trials made
        return oc.band_case(r)
    n = r.choice((1, 1, 2, 2, 3, 4, 5))
    spec = oc.step_spec(r, n) if r.random() < 0.12 else None
    case = oc.gen_case(r, n=n, spec=spec, lim=r.choice([2, 3, 5, 8, 17, 40, 80, 150, 400]))
    u = r.random()
    if u < 0.5:
        bs, tot = [], 0
        nb = r.randint(1, 60)
        while tot < case["lim"] + 2 and len(bs) < nb:
            b = r.choice([1, 1, 1, 1, 2, 3, 7])
            bs.append(b)
            tot += b
        case["batches"] = bs
        case["solve"] = r.random() < 0.7
        case["listener"] = r.random() < 0.5
    v = r.random()
    if v < 0.12:
        case["first_fails"] = True
    elif v > 0.9 and case["lim"] >= 5 and not case.get("refine"):
        case["fails_at"] = r.randint(2, min(case["lim"] - 1, 25))
        for k_ in ("shipped", "bg"):
            case.pop(k_, None)
    elif v < 0.3:
        case["other_solver"] = oc.gen_case(r, lim=r.choice([3, 8, 30]))
    elif v < 0.42 and case["lim"] <= 40 and not case.get("refine"):
        # a shipped listener in front (the interpolating / approximating painters are left to the C13 oracle: they are slow and
        # raise on duplicate projected points - finding F-paint there)
        case["shipped"] = oc.gen_shipped(r, case["n"])
    return case


def run(tier, r):
    oc.reset_hangs()
    ncases = 400 if tier == "quick" else 6000
    vs, stats, samples, keys = [], {}, [], set()
    nontrivial = explored = 0
    for i in range(ncases):
        if oc.too_many_hangs(stats):
            break
        case = gen(r)
        v, info = oc.safe(check_case, PROP)(case)
        explored += 1
        vs += v
        oc.bump(stats, "dim%d" % case["n"])
        oc.bump(stats, "density%d" % case["m"])
        oc.bump(stats, "record_checks", info.get("checks", 0))
        oc.bump(stats, "float_collapse_stops", 1 if info.get("float_collapse") else 0)
        oc.bump(stats, "trials_total", info.get("trials", 0))
        key = oc.case_key(case)
        if key not in keys:
            keys.add(key)
            if info.get("trials", 0) >= 4:
                nontrivial += 1
        if i < 3:
            samples.append({"case": case, "info": info})
    return oc.finish(PROP, RULE, explored, nontrivial, vs, stats, samples)


def replay(v):
    return oc.generic_replay(check_case, v)


if __name__ == "__main__":
    import json, time
    t = time.time()
    tier = sys.argv[1] if len(sys.argv) > 1 else "quick"
    res = run(tier, oc.common.rng("oracle:" + PROP))
    res["wall_s"] = round(time.time() - t, 1)
    print(json.dumps({k: res[k] for k in res if k not in ("samples", "rule")}, indent=1)[:6000])
