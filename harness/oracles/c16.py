"""C16 - objective failure is contained: Solve returns the best-so-far result.

For a problem whose clean run (no failure) makes T trials, the objective is made to raise at its k-th global
evaluation (2 <= k <= T; every k of short runs in thorough, random k in quick) with ValueError,
KeyboardInterrupt or a custom BaseException subclass; Solve() is called on a fresh solver.  Clauses:
  solve-returns            no exception escapes Solve (KeyboardInterrupt and BaseException subclasses included)
  failure-happened         the k-th evaluation was really attempted (so the case is not vacuous) and the marker was printed
  prefix-unchanged         the k-1 completed trials are exactly the first k-1 trials of the clean run (bitwise)
  trial-count              Solution.numberOfGlobalTrials == k-1 == #logged evaluations; no evaluation after the failure
  best-is-best-of-log      returned value == min of the k-1 logged values, returned point is a logged point with that value,
                           value == objective(point) recomputed
  record-rules             every C06 rule holds on the search information after the failure (o1_common.RecordChecker)
  failed-point-not-recorded  record has exactly k-1 evaluated items (+2 ends) and the coordinate / point of the failed
                           trial (known from the clean run) has no additional item
  listener-stop            OnMethodStop is still delivered once, with the same solution
"""
import os
import sys

_D = os.path.dirname(os.path.abspath(__file__))
for _p in (os.path.dirname(_D), _D):
    if _p not in sys.path:
        sys.path.insert(0, _p)
import o1_common as oc

PROP = "C16"
RULE = ("random objective/box/N=1..5/density/r/eps/itersLimit<=60; clean run of T trials; failure index k in 2..T (all of them "
        "for T<=40 in thorough, up to 4 random ones in quick) x exception type in {ValueError, KeyboardInterrupt, OracleFailure"
        "(BaseException)}. explored counts (problem, k, exception) triples; distinct by that triple; non-trivial if k >= 3 "
        "(the failing trial subdivides an interval between / next to evaluated trials). The stats record how often the failure "
        "hit right after a new optimum and on a boundary interval.")


def seq(run):
    return [(e[1], oc.common.f2h(e[2])) for e in run.glog()]


def check_case(case):
    """case["fail"]: list of [k, exception name]"""
    vs = []
    info = {"injected": 0, "after_new_optimum": 0, "T": 0}
    base = {k: v for k, v in case.items() if k != "fail"}

    def fail(clause, obs, f):
        vs.append(oc.violation(PROP, dict(base, fail=[f]), clause, obs))

    clean = oc.Run(base)
    clean.solve()
    if clean.trouble():
        vs.append(oc.violation(PROP, dict(base, fail=[]), "clean-run", clean.trouble()))
        return vs, info
    S = seq(clean)
    T = len(S)
    info["T"] = T
    xs_clean = [float(it.GetX()) for it in clean.solver.searchData._allTrials[2:]]
    zs = [e[2] for e in clean.glog()]
    for f in case["fail"]:
        k, en = int(f[0]), f[1]
        if not (2 <= k <= T):
            continue
        info["injected"] += 1
        if zs[k - 2] == min(zs[:k - 1]) and (k == 2 or zs[k - 2] < min(zs[:k - 2])):
            info["after_new_optimum"] += 1
        stops = []
        from iOpt.method.listener import Listener

        class Rec(Listener):
            def BeforeMethodStart(self, method):
                pass

            def OnEndIteration(self, savedNewPoints, solution):
                pass

            def OnMethodStop(self, searchData, solution, status):
                stops.append(oc.best_of(solution))
        run = oc.Run(base, fail_at=k, exc=oc.EXC[en], listeners=[Rec()])
        sol = None
        route = f[2] if len(f) > 2 else None
        if route == "late":
            run.problem.fail_delay = 0.13      # the failing evaluation runs for 0.13 s before it raises (a timed-out simulation, Ctrl-C)
        nsolves = 1
        try:
            if isinstance(route, int) and 1 <= route <= k - 1:
                # `route` trials are made through DoGlobalIteration first: the failing evaluation is then the (k - route)-th one made
                # inside Solve (the FIRST one when route == k - 1)
                run.iterate(route)
            elif route == "resume" and k >= 3:
                # a first Solve with the budget k - 1 ends normally; the budget is raised in place and Solve is called again: its
                # very first evaluation fails
                run.solver.parameters.itersLimit = k - 1
                run.solve()
                run.solver.parameters.itersLimit = base["lim"]
                nsolves = 2
            sol = run.solve()
        except BaseException as e:            # noqa
            fail("solve-returns", {"escaped": repr(e), "k": k, "route": route}, f)
            continue
        g = run.glog()
        attempted = run.problem.ncalls_global
        if attempted < k or "Exception was thrown" not in run.out.getvalue():
            fail("failure-happened", {"global_calls_attempted": attempted, "k": k,
                                      "marker": "Exception was thrown" in run.out.getvalue()}, f)
            continue
        if seq(run) != S[:k - 1] or attempted != k:
            fail("trial-count" if seq(run)[:k - 1] == S[:k - 1] else "prefix-unchanged",
                 {"k": k, "completed": len(g), "attempted": attempted, "expected_completed": k - 1}, f)
        if sol.numberOfGlobalTrials != k - 1 or len(g) != k - 1:
            fail("trial-count", {"k": k, "reported": sol.numberOfGlobalTrials, "logged": len(g)}, f)
        point, value = oc.best_of(sol)
        if g:
            mn = min(e[2] for e in g)
            ok_pts = [e[1] for e in g if e[2] == mn]
            if value != mn or point not in ok_pts or (point is not None and run.pure(point) != value):
                fail("best-is-best-of-log", {"k": k, "returned_point": point, "returned_value": value,
                                             "min_logged": mn, "points_with_min": ok_pts[:3]}, f)
        for clause, obs in oc.RecordChecker(run).check():
            fail("record-rules", dict(obs, rule=clause, k=k), f)
            break
        items = [it for it in run.solver.searchData]
        xs = [float(it.GetX()) for it in items]
        xk = xs_clean[k - 1]
        n_at = sum(1 for x in xs if x == xk)
        if len(items) != k + 1 or run.solver.searchData.GetCount() != k + 1 or n_at != 0:
            fail("failed-point-not-recorded", {"k": k, "items": len(items), "expected_items": k + 1,
                                               "failed_x": xk, "items_at_failed_x": n_at}, f)
        if len(stops) != nsolves or stops[-1] != (point, value):
            fail("listener-stop", {"k": k, "OnMethodStop_calls": len(stops), "seen": stops[:1], "returned": [point, value]}, f)
        if len(vs) > 12:
            break
    return vs, info


def gen(r, tier):
    n = r.choice((1, 1, 2, 2, 3, 4, 5))
    spec = oc.step_spec(r, n) if r.random() < 0.1 else None
    case = oc.gen_case(r, n=n, spec=spec, lim=r.choice([3, 4, 5, 8, 12, 17, 25, 40, 60]),
                       eps=r.choice([0.5, 0.2, 0.1, 0.05, 0.02, 0.01, 1e-3, 1e-4]))
    names = list(oc.EXC)
    if tier == "thorough":
        case["fail"] = [[k, r.choice(names)] for k in range(2, case["lim"] + 1)]
        if case["lim"] <= 12:
            case["fail"] = [[k, en] for k in range(2, case["lim"] + 1) for en in names]
    else:
        ks = sorted({r.randint(2, max(2, case["lim"])) for _ in range(4)} | {2})
        case["fail"] = [[k, r.choice(names)] for k in ks]
    # how the failing evaluation is reached: plain Solve, after `j` trials made by DoGlobalIteration, or in a second Solve
    for f in case["fail"]:
        u = r.random()
        if u < 0.25 and f[0] >= 2:
            f.append(r.choice([f[0] - 1, r.randint(1, f[0] - 1)]))
        elif u < 0.4 and f[0] >= 3:
            f.append("resume")
        elif u < 0.41:
            f.append("late")
    return case


def run(tier, r):
    oc.reset_hangs()
    ncases = 1100 if tier == "quick" else 4500
    vs, stats, samples, keys = [], {}, [], set()
    nontrivial = explored = 0
    for i in range(ncases):
        if oc.too_many_hangs(stats):
            break
        case = gen(r, tier)
        v, info = oc.safe(check_case, PROP)(case)
        vs += v
        explored += info.get("injected", 0)
        oc.bump(stats, "problems")
        oc.bump(stats, "dim%d" % case["n"])
        oc.bump(stats, "failure_right_after_new_optimum", info.get("after_new_optimum", 0))
        base = oc.case_key({k: v for k, v in case.items() if k != "fail"})
        for f_ in case["fail"]:
            k, en = f_[0], f_[1]
            if 2 <= k <= info.get("T", 0):
                oc.bump(stats, "exc_" + en)
                oc.bump(stats, "route_" + ("solve" if len(f_) < 3 else (f_[2] if f_[2] in ("resume", "late") else "steps_first")))
                key = (base, k, en, str(f_[2:]))
                if key not in keys:
                    keys.add(key)
                    if k >= 3:
                        nontrivial += 1
        if i < 3:
            samples.append({"case": dict(case, fail=case["fail"][:4]), "info": info})
    return oc.finish(PROP, RULE, explored, nontrivial, vs, stats, samples)


def replay(v):
    return oc.generic_replay(check_case, v)


if __name__ == "__main__":
    import json, time
    t = time.time()
    tier = sys.argv[1] if len(sys.argv) > 1 else "quick"
    res = run(tier, oc.common.rng("oracle:" + PROP))
    res["wall_s"] = round(time.time() - t, 1)
    print(json.dumps({k: res[k] for k in res if k not in ("samples", "rule")}, indent=1)[:6000])
