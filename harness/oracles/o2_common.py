"""Helpers shared by the o2 oracles (C07, C08, C09, C17, C19, C12, C13).

Nothing in here models the library: the helpers only generate inputs, do exact rational arithmetic on the
floating-point numbers the implementation returns (every double is a dyadic rational), and wrap problems so
that their Calculate calls can be observed."""
import os
import sys
import time
import math
import random
from fractions import Fraction

os.environ.setdefault("MPLBACKEND", "Agg")
_H = os.path.dirname(os.path.dirname(os.path.abspath(__file__)))
if _H not in sys.path:
    sys.path.insert(0, _H)

import common  # noqa: E402
from common import ensure_repo_on_path, f2h, REPO  # noqa: E402

ensure_repo_on_path()
import numpy as np  # noqa: E402
import streams  # noqa: E402  (gen_box)

U = 2.0 ** -52   # one ulp of 1.0


class Budget:
    """wall-clock budget of one oracle run; only used to STOP generating further cases (the cases generated
    up to that point are a deterministic prefix of the stream given r)"""

    def __init__(self, seconds):
        self.t0 = time.time()
        self.seconds = seconds

    def left(self):
        return self.seconds - (time.time() - self.t0)

    def over(self, frac=1.0):
        return (time.time() - self.t0) > self.seconds * frac


def tier_seconds(tier, quick=25.0, thorough=420.0):
    v = quick if tier == "quick" else thorough
    cap = common.ORACLE_CAP[0]
    return v if cap is None else min(v, max(5.0, cap[0] - time.time()))


# ------------------------------------------------------------------------------------------------
# boxes and densities
# ------------------------------------------------------------------------------------------------
def gen_box(r, n):
    """streams.gen_box plus a few styles of our own (per-axis mixed scales, one-signed, offset far from 0)"""
    u = r.random()
    if u < 0.6:
        lo, hi = streams.gen_box(r, n)
        return [float(v) for v in lo], [float(v) for v in hi]
    if u < 0.75:      # every axis its own scale
        lo, hi = [], []
        for _ in range(n):
            l1, h1 = streams.gen_box(r, 1)
            lo.append(float(l1[0])); hi.append(float(h1[0]))
        return lo, hi
    if u < 0.85:      # strictly negative / strictly positive, non dyadic
        s = r.choice([-1.0, 1.0])
        lo = [s * r.uniform(1, 50) - (0 if s > 0 else r.uniform(1, 9)) for _ in range(n)]
        return lo, [l + r.uniform(0.05, 9) for l in lo]
    if u < 0.93:      # side much smaller than the offset (worst conditioning of the affine maps we allow)
        lo = [r.uniform(-100, 100) for _ in range(n)]
        return lo, [l + r.choice([1e-3, 3e-3, 0.01]) for l in lo]
    lo = [r.choice([-1.0, 0.0, -0.5, -2.0]) for _ in range(n)]
    return lo, [l + r.choice([1.0, 2.0, 4.0, 0.5]) for l in lo]


def gen_nm(r, max_nm=50, min_nm=1, ns=(1, 2, 3, 4, 5, 6, 7)):
    """(N, m) with min_nm <= N*m <= max_nm"""
    for _ in range(1000):
        n = r.choice(ns)
        lo_m = max(1, -(-min_nm // n))
        hi_m = max_nm // n
        if hi_m >= lo_m:
            return n, r.randint(lo_m, hi_m)
    raise RuntimeError("no admissible (N, m)")


def mk_ev(lo, hi, n, m, via=None, plain=False):
    """an Evolvent configured with the box [lo, hi]: built directly, or (about 30 % of the parameter sets, decided by a hash of
    the parameters so that a replay takes the same route) built on a DIFFERENT box and re-configured with SetBounds - the
    "configured bounds" of the properties are the current ones whichever way they were set"""
    from iOpt.evolvent.evolvent import Evolvent
    common.beat("oracle: evolvent object", {"N": n, "m": m, "lower": list(map(float, lo)), "upper": list(map(float, hi))})
    lo_a, hi_a = np.array(lo, dtype=np.double), np.array(hi, dtype=np.double)
    if plain:
        return Evolvent(lo_a, hi_a, n, m)
    if via is None:
        import zlib
        h = zlib.crc32(repr((list(map(float, lo)), list(map(float, hi)), n, m)).encode())
        via = ("direct", "direct", "direct", "direct", "direct", "direct", "unit-int", "unit", "shifted", "wide")[h % 10]
    if via == "direct":
        ev = Evolvent(lo_a, hi_a, n, m)
    else:
        if via == "unit-int":
            # first box integer-typed (as the shipped GKLS problems declare theirs): the re-configuration must not inherit the dtype
            ev = Evolvent(np.zeros(n, dtype=np.int64), [1] * n, n, m)
        elif via == "unit":
            ev = Evolvent(np.zeros(n), np.ones(n), n, m)
        elif via == "shifted":
            ev = Evolvent(lo_a + 3.0, hi_a + 4.5, n, m)
        else:
            ev = Evolvent(lo_a - 10.0, hi_a + 10.0, n, m)
        if (h // 7) % 2 == 0:
            # the object has already answered queries on its FIRST box before it is re-configured
            mid = (np.array(ev.lowerBoundOfFloatVariables, dtype=np.double) + np.array(ev.upperBoundOfFloatVariables, dtype=np.double)) / 2
            ev.GetInverseImage(mid + 0.1 * (np.array(ev.upperBoundOfFloatVariables, dtype=np.double) - mid))
            ev.GetImage(0.7)
        ev.SetBounds(lo_a, hi_a)
    # about 40 % of the objects have already answered queries before the oracle uses them (results must not depend on earlier
    # queries): inverse-image queries with a float array, an INTEGER-typed array, a Python list, and a forward query
    prime = ("none", "none", "none", "float", "int")[(h // 10) % 5] if 'h' in dir() else "none"
    if prime != "none":
        pt = [float(math.ceil(l)) if math.ceil(l) <= u else (l + u) / 2 for l, u in zip(map(float, lo), map(float, hi))]
        if prime == "int" and all(v.is_integer() for v in pt):
            ev.GetInverseImage(np.array(pt, dtype=np.int64))
            ev.GetPreimages([int(v) for v in pt])
        else:
            ev.GetInverseImage(np.array(pt, dtype=np.double))
            ev.GetPreimages(list(pt))
        if (h // 50) % 2 == 0:
            ev.GetImage(0.3)        # (otherwise the LAST thing the object did before the oracle uses it is an inverse query)
    # the caller's own bound arrays are reused for something else afterwards: the object must have kept copies
    lo_a += 17.25
    hi_a -= 3.5
    return ev


# ------------------------------------------------------------------------------------------------
# exact grid arithmetic on doubles
# ------------------------------------------------------------------------------------------------
class Grid:
    """uniform grid with 2^m cells per axis on the box [lo, hi] (lo, hi: lists of doubles, read as exact rationals)"""

    def __init__(self, lo, hi, m):
        self.lo = [float(v) for v in lo]
        self.hi = [float(v) for v in hi]
        self.m = m
        self.n = len(lo)
        self._lo = [v.as_integer_ratio() for v in self.lo]
        side = [Fraction(h) - Fraction(l) for l, h in zip(self.lo, self.hi)]
        self._side = [(s.numerator, s.denominator) for s in side]
        self.side = [float(s) for s in side]
        self.width = [float(s) / 2 ** m for s in side]
        self.M = [max(abs(l), abs(h)) for l, h in zip(self.lo, self.hi)]
        # rounding bound of the affine cube->box map: y = fl(fl(t*fl(hi-lo)) + fl((hi+lo)/2)), |t| <= 1/2:
        # |error| <= 2^-53*(2*|t|*|hi-lo| + |hi+lo|/2 + |y|) <= 4*2^-53*M ; we allow twice that.
        self.tol = [4 * U * mm + 1e-300 for mm in self.M]

    def pos(self, y, i):
        """exact position of coordinate i of y in cell units: returns (k, num, den) with t = k + num/den, 0 <= num < den"""
        yn, yd = float(y).as_integer_ratio()
        ln, ld = self._lo[i]
        sn, sd = self._side[i]
        num = ((yn * ld - ln * yd) * sd) << self.m
        den = yd * ld * sn
        k, rem = divmod(num, den)
        return k, rem, den

    def cell(self, y):
        """tuple of per-axis cell indices (exact floor)"""
        return tuple(self.pos(y[i], i)[0] for i in range(self.n))

    def cell_and_dev(self, y):
        """(cell, list of |y_i - centre_i| as floats)"""
        ks, devs = [], []
        for i in range(self.n):
            k, rem, den = self.pos(y[i], i)
            ks.append(k)
            devs.append(abs(2 * rem - den) / (2 * den) * self.width[i])
        return tuple(ks), devs

    def frac(self, y, i):
        k, rem, den = self.pos(y, i)
        return k, rem / den

    def centre(self, cell):
        return [float(Fraction(self.lo[i]) + (Fraction(2 * cell[i] + 1, 2 ** (self.m + 1))) *
                      (Fraction(self.hi[i]) - Fraction(self.lo[i]))) for i in range(self.n)]


def subinterval(x, n, m):
    """index of the subinterval of [0,1] (2^(n*m) equal parts) containing x; x = 1 belongs to the last one.
    Exact: scaling a double by a power of two and taking the floor are exact operations."""
    tot = 2 ** (n * m)
    if x >= 1.0:
        return tot - 1
    return int(Fraction(x) * tot)     # floor for x >= 0


def left_end(i, n, m):
    return i / float(2 ** (n * m))     # exact for n*m <= 1022


def near_right_end(i, n, m):
    """largest double strictly inside subinterval i (just below its right end)"""
    return math.nextafter((i + 1) / float(2 ** (n * m)), 0.0)


def lst(a):
    return [float(v) for v in a]


def hexl(a):
    return [f2h(v) for v in a]


# ------------------------------------------------------------------------------------------------
# observing problems
# ------------------------------------------------------------------------------------------------
def attach_log(problem):
    """wrap problem.Calculate (instance attribute) so that every call is logged as
    (phase, point tuple, value); phase as in impl.LoggedProblem (global / local / other)."""
    inner = problem.Calculate
    problem.o2log = []

    def Calculate(point, functionValue):
        fr = sys._getframe(1).f_code
        caller, cfile = fr.co_name, fr.co_filename.replace("\\", "/")
        if "/output_system/" in cfile or "/iOpt/" not in cfile:
            phase = "other"         # a painter probing the objective, or the caller's own code: not a trial of the search
        else:
            phase = "global" if caller == "Calculate" else ("local" if caller == "problemCalculate" else "other")
        pt = tuple(float(v) for v in point.floatVariables)
        res = inner(point, functionValue)
        problem.o2log.append((phase, pt, float(res.value)))
        return res
    problem.Calculate = Calculate
    return problem


def plog(problem, owners=None):
    """uniform access to the call log of a LoggedProblem (impl.py) or of an attach_log-wrapped problem:
    list of (phase, point, value); `owners`: only the calls made by these objects (the OptimizationTask / Process of ONE solver -
    needed when several solvers work on one and the same Problem object)"""
    if hasattr(problem, "o2log"):
        return list(problem.o2log)
    return [(e[0], e[1], float(e[2])) for e in problem.log if owners is None or len(e) < 5 or e[4] in owners]


def solution_snapshot(sol):
    """everything observable of a Solution except the wall-clock solvingTime"""
    b = sol.bestTrials[0]
    pt = b.point.floatVariables if getattr(b, "point", None) is not None and not isinstance(b.point, list) else None
    fv = b.functionValues
    return {
        "nbest": len(sol.bestTrials),
        "point": None if pt is None else [f2h(v) for v in pt],
        "value": None if not fv else f2h(fv[0].value),
        "global": int(sol.numberOfGlobalTrials),
        "local": int(sol.numberOfLocalTrials),
        "accuracy": "inf" if sol.solutionAccuracy == math.inf else f2h(sol.solutionAccuracy),
    }


def raised_in_library(e):
    """where the library's own code raised (None when the innermost frame is not under <repo>/iOpt)"""
    tb, last = e.__traceback__, None
    while tb is not None:
        last = tb
        tb = tb.tb_next
    if last is None:
        return None
    fn = last.tb_frame.f_code.co_filename.replace("\\", "/")
    root = os.path.join(os.path.abspath(REPO), "iOpt").replace("\\", "/") + "/"
    return "%s:%d" % (fn[len(root):], last.tb_lineno) if fn.startswith(root) else None


def contained(fn, viol, ctx, **inp):
    """fn() ; an exception raised by the library's own code on this (legitimate) input is recorded as a violation and None is returned"""
    try:
        return fn()
    except Exception as e:      # noqa: BLE001
        where = raised_in_library(e)
        if where is None:
            raise
        viol.append(dict(ctx, what="the implementation raised on a legitimate input", error=repr(e)[:300], raised_at=where, **inp))
        return None


def guarded_any(fn, *a):
    """(result, None) or (None, description of the exception)"""
    try:
        return fn(*a), None
    except Exception as e:      # noqa: BLE001
        return None, {"error": repr(e)[:400]}


def fresh_call(module, func, arg, timeout=900):
    """`oracles.<module>.<func>(arg)` evaluated in a FRESH interpreter (JSON in, JSON out): a reference that cannot have been
    contaminated by anything that happened earlier in this process"""
    import json
    import subprocess
    code = ("import sys, json; sys.path.insert(0, %r); import importlib; m = importlib.import_module('oracles.%s'); "
            "print('@@' + json.dumps(getattr(m, %r)(json.load(sys.stdin)), default=str))" % (_H, module, func))
    common.beat("reference run in a fresh interpreter: %s.%s" % (module, func), {"argument": arg}, allow=timeout + 60)
    p = subprocess.run([sys.executable, "-c", code], input=json.dumps(arg, default=str), stdout=subprocess.PIPE,
                       stderr=subprocess.PIPE, text=True, env=dict(os.environ), timeout=timeout)
    common.beat("fresh interpreter returned")
    line = next((l for l in p.stdout.split("\n") if l.startswith("@@")), None)
    if line is None:
        raise RuntimeError("fresh interpreter failed: " + p.stderr[-600:])
    return json.loads(line[2:])


def fresh_map(module, func, args, workers=8):
    """fresh_call for several arguments, concurrently (each in its own interpreter)"""
    from concurrent.futures import ThreadPoolExecutor
    with ThreadPoolExecutor(max(1, min(workers, len(args)))) as ex:
        return list(ex.map(lambda a: fresh_call(module, func, a), args))


def replay_in_subprocess(module, case, timeout=900):
    """runs `oracles.<module>._replay_here(case)` in a FRESH interpreter and returns its result. State leaking between
    solver instances (class attributes, module globals, shared defaults) also contaminates reference runs made later in
    the same process, so an in-process replay at the end of a long run could miss what the run itself found."""
    import json
    import subprocess
    code = ("import sys, json; sys.path.insert(0, %r); import importlib; m = importlib.import_module('oracles.%s'); "
            "print('@@' + json.dumps(m._replay_here(json.load(sys.stdin)), default=str))" % (_H, module))
    common.beat("replay in a fresh interpreter: %s" % module, {"case": case}, allow=timeout + 60)
    p = subprocess.run([sys.executable, "-c", code], input=json.dumps(case, default=str), stdout=subprocess.PIPE,
                       stderr=subprocess.PIPE, text=True, env=dict(os.environ), timeout=timeout)
    common.beat("fresh interpreter returned")
    line = next((l for l in p.stdout.split("\n") if l.startswith("@@")), None)
    if line is None:
        return {"reproduced": False, "detail": "replay subprocess failed: " + p.stderr[-800:]}
    return json.loads(line[2:])
