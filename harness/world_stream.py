"""World stream (property C12): several real `Solver` instances in one process, interleaved, against the aliasing
model lean/IOptModel/World.lean.

Commands (prefix `w.`; `impl ...` lines are directives for the implementation side only, the model answers `ok`):
  impl w.problem <p> <json>      declare problem object p: {"kind": "logged", "spec": objective spec, "lower", "upper"}
                                 | {"kind": "family", "fam": name, "args": [...]} (a shipped benchmark problem)
                                 | {"kind": "sameclass", "of": q} (a second INSTANCE of the class of problem q)
  impl w.solver <i> <p> <json>   solver i will be built on problem object p (the same p for two solvers = one shared
                                 problem object); json = null -> `Solver(problem)` (the shared default SolverParameters
                                 object), else {"r":..,"eps":..,"itersLimit":..,"evolventDensity":..}
  w.reset [a b]                  new world (a, b = 1: model variant with the legacy shared default bestTrials / functionValues)
  w.construct i                  Solver(...)
  w.first i z                    DoGlobalIteration(1) on a solver that has not iterated (z: oracle value, taken from the real run)
  w.iter i z better              DoGlobalIteration(1) afterwards (z, better: oracle values taken from the real run)
  w.results i                    GetResults(): handed-out index k, identity of the Solution and of its bestTrials list,
                                 reported value, numberOfGlobalTrials
  w.report k                     re-read the k-th Solution handed out earlier
  w.shape                        every solver: identities of Solution, bestTrials list, bestTrials[0] (trial / its list /
                                 its holder = value), method.best, every item of _allTrials (item / list / holder = value)
Identities are numbered by first appearance over the whole script, so ANY aliasing between objects (of one solver or of
different solvers) shows up as equal numbers, and any unexpected replacement of an object as a new number."""
import json, itertools, os, subprocess, sys

sys.path.insert(0, os.path.dirname(os.path.abspath(__file__)))
from common import *

ensure_repo_on_path()
import objectives


def _model(lines):
    """compiled driver of /verif/lean, or a private one while developing (env WORLD_DRIVER)"""
    exe = os.environ.get("WORLD_DRIVER")
    if not exe:
        return run_model(lines)
    r = subprocess.run([exe], input="\n".join(lines) + "\n", stdout=subprocess.PIPE, stderr=subprocess.PIPE, text=True)
    if r.returncode != 0:
        raise Infra("driver crashed: " + r.stderr[-2000:])
    out = r.stdout.split("\n")
    if out and out[-1] == "":
        out.pop()
    if len(out) != len(lines):
        raise Infra(f"driver produced {len(out)} lines for {len(lines)} commands")
    return out


# =============================================================================================
# implementation side
# =============================================================================================
class WorldImpl:
    """interprets the `w.` commands on real iOpt objects, in-process"""

    def __init__(self):
        self.reset()

    def reset(self):
        self.problems = {}
        self.decl = {}
        self.solvers = {}          # id -> Solver, insertion order = construction order
        self.handed = []           # Solutions handed out by w.results
        self.ids = {}              # id(obj) -> number
        self.keep = []             # strong references: an id() can never be recycled while we number it
        self.oracle = {}           # line index -> (z, better) of the real run

    # ---- identities
    def ident(self, o):
        k = self.ids.get(id(o))
        if k is None:
            k = len(self.keep)
            self.ids[id(o)] = k
            self.keep.append(o)
        return f"#{k}"

    # ---- formatting (mirrors World.fmtItem / fmtSolution / fmtSolver of the model, including the ORDER in which
    #      identities are first mentioned)
    def fmt_item(self, it):
        a = self.ident(it)
        try:
            fl = it.functionValues
        except AttributeError:
            return f"{a}/?"
        b = self.ident(fl)
        if len(fl) >= 1:
            h = fl[0]
            d = self.ident(h)
            return f"{a}/{b}/{d}={f2h(h.value)}"
        return f"{a}/{b}/-"

    def fmt_solution(self, sol):
        a = self.ident(sol)
        b = self.ident(sol.bestTrials)
        try:
            v = f2h(sol.bestTrials[0].functionValues[0].value)
        except (IndexError, AttributeError, TypeError):
            v = "error"
        return f"sol={a} list={b} value={v} trials={sol.numberOfGlobalTrials}"

    def fmt_solver(self, i):
        s = self.solvers[i]
        sol = s.searchData.solution
        a = self.fmt_solution(sol)
        top = self.fmt_item(sol.bestTrials[0]) if len(sol.bestTrials) >= 1 else "-"
        its = [self.fmt_item(it) for it in s.searchData._allTrials]
        best = self.ident(s.method.best) if s.method.best is not None else "-"
        return f"S{i}: {a} top={top} best={best} items[{' '.join(its)}]"

    # ---- construction helpers
    def make_problem(self, d):
        if d["kind"] == "logged":
            from impl import LoggedProblem
            fn = objectives.make(d["spec"], d["lower"], d["upper"])
            return LoggedProblem.make(fn, d["lower"], d["upper"])
        if d["kind"] == "family":
            import problems_stream
            return problems_stream.construct(d["fam"], tuple(d["args"]))
        if d["kind"] == "sameclass":
            return type(self.problems[d["of"]])()
        raise ValueError(d["kind"])

    def started(self, s):
        return not s.process._Process__first_iteration

    def step(self, line, index=None):
        t = [x for x in line.split(" ") if x]
        if not t:
            return ""
        c = t[0]
        if c == "impl":
            if t[1] == "w.problem":
                self.problems[int(t[2])] = self.make_problem(json.loads(" ".join(t[3:])))
            elif t[1] == "w.solver":
                self.decl[int(t[2])] = (int(t[3]), json.loads(" ".join(t[4:])))
            return "ok"
        if c == "w.reset":
            if len(t) not in (1, 3):
                return "bad-op"
            self.reset()
            if len(t) == 3:
                # a legacy variant of the model is being compared (mutation experiments on a scratch repo only): its
                # `w.reset` re-creates the module-level default objects, so re-import iOpt to do the same here
                for m in [m for m in sys.modules if m == "iOpt" or m.startswith("iOpt.")]:
                    del sys.modules[m]
            return "ok"
        try:
            if c == "w.construct" and len(t) == 2:
                i = int(t[1])
                if i in self.solvers or i not in self.decl:
                    return "bad-op"
                from iOpt.solver import Solver
                from iOpt.solver_parametrs import SolverParameters
                p, par = self.decl[i]
                if par is None:
                    self.solvers[i] = Solver(self.problems[p])
                else:
                    self.solvers[i] = Solver(self.problems[p], SolverParameters(**par))
                return "ok"
            if c == "w.first" and len(t) == 3:
                s = self.solvers.get(int(t[1]))
                if s is None or self.started(s):
                    return "bad-op"
                s.DoGlobalIteration(1)
                new = s.searchData.GetLastItem()
                self.oracle[index] = (float(new.GetZ()), True)
                return "ok"
            if c == "w.iter" and len(t) == 4:
                s = self.solvers.get(int(t[1]))
                if s is None or not self.started(s):
                    return "bad-op"
                s.DoGlobalIteration(1)
                new = s.searchData.GetLastItem()
                self.oracle[index] = (float(new.GetZ()), s.method.best is new)
                return "ok"
            if c == "w.results" and len(t) == 2:
                s = self.solvers.get(int(t[1]))
                if s is None:
                    return "bad-op"
                sol = s.GetResults()
                self.handed.append(sol)
                return f"k={len(self.handed) - 1} " + self.fmt_solution(sol)
            if c == "w.report" and len(t) == 2:
                k = int(t[1])
                if not (0 <= k < len(self.handed)):
                    return "bad-op"
                return self.fmt_solution(self.handed[k])
            if c == "w.shape" and len(t) == 1:
                return " | ".join(self.fmt_solver(i) for i in self.solvers)
        except ValueError:
            return "bad-op"
        return "bad-op"


def run_world_script(lines):
    """run the implementation, then build the model script (oracle values filled in) -> (model lines, impl outputs)"""
    im = WorldImpl()
    io = [im.step(l, k) for k, l in enumerate(lines)]
    ml = []
    for k, l in enumerate(lines):
        if k in im.oracle:
            t = l.split(" ")
            z, better = im.oracle[k]
            if t[0] == "w.first":
                l = f"w.first {t[1]} {f2h(z)}"
            else:
                l = f"w.iter {t[1]} {f2h(z)} {1 if better else 0}"
        ml.append(l)
    return ml, io


# =============================================================================================
# script generators
# =============================================================================================
FAMILIES = [("rastrigin", [1]), ("rastrigin", [2]), ("xsquared", [1]), ("xsquared", [2]), ("hill", [3]), ("shekel", [7]),
            ("grishagin", [5])]


def gen_problem_decl(r):
    if r.random() < 0.3:
        fam, args = r.choice(FAMILIES)
        return {"kind": "family", "fam": fam, "args": args}
    n = r.choice([1, 1, 2, 3])
    spec = objectives.gen_spec(r, n)
    style = r.choice(["unit", "sym", "random"])
    if style == "unit":
        lo, hi = [0.0] * n, [1.0] * n
    elif style == "sym":
        lo, hi = [-1.0] * n, [1.0] * n
    else:
        lo = [round(r.uniform(-5, 5), 2) for _ in range(n)]
        hi = [l + round(r.uniform(0.1, 7), 2) for l in lo]
    return {"kind": "logged", "spec": spec, "lower": lo, "upper": hi}


def gen_params(r):
    if r.random() < 0.4:
        return None                # Solver(problem): the one shared default SolverParameters object
    return {"r": round(r.uniform(1.5, 5), 2), "eps": r.choice([0.1, 0.01, 0.001]), "itersLimit": r.choice([5, 100, 20000]),
            "evolventDensity": r.choice([6, 8, 10])}


def gen_header(r, nsolvers, mode=None):
    """problem / solver declarations. mode: distinct | sameclass | sameobj (how solvers 0 and 1 relate)"""
    mode = mode or r.choice(["distinct", "distinct", "sameclass", "sameobj"])
    lines = []
    d0 = gen_problem_decl(r)
    while mode == "sameclass" and d0["kind"] != "logged":
        d0 = gen_problem_decl(r)
    lines.append(f"impl w.problem 0 {json.dumps(d0)}")
    lines.append(f"impl w.solver 0 0 {json.dumps(gen_params(r))}")
    for i in range(1, nsolvers):
        if i == 1 and mode == "sameobj":
            lines.append(f"impl w.solver 1 0 {json.dumps(gen_params(r))}")
            continue
        if i == 1 and mode == "sameclass":
            lines.append(f"impl w.problem 1 {json.dumps({'kind': 'sameclass', 'of': 0})}")
        else:
            lines.append(f"impl w.problem {i} {json.dumps(gen_problem_decl(r))}")
        lines.append(f"impl w.solver {i} {i} {json.dumps(gen_params(r))}")
    return lines, mode


def op_line(i, op):
    return {"c": f"w.construct {i}", "f": f"w.first {i} ?", "i": f"w.iter {i} ? ?", "r": f"w.results {i}"}[op]


def gen_oplist(r, maxlen):
    """a mostly valid op list of one solver: construct, first, then iterations and GetResults calls"""
    n = r.randint(1, maxlen)
    ops = ["c", "f"][:n]
    while len(ops) < n:
        ops.append(r.choice(["i", "i", "i", "r"]))
    if r.random() < 0.3 and len(ops) >= 1:
        ops.insert(r.randint(1, len(ops)), "r")          # results early (before first: placeholder reported)
    if r.random() < 0.12:
        ops.insert(r.randint(0, len(ops)), r.choice(["c", "f", "i"]))   # not applicable here -> bad-op on both sides
    return ops[:maxlen]


def interleave_random(r, lists):
    pos = [0] * len(lists)
    out = []
    while True:
        live = [k for k in range(len(lists)) if pos[k] < len(lists[k])]
        if not live:
            return out
        k = r.choice(live)
        out.append((k, lists[k][pos[k]])); pos[k] += 1


def all_interleavings(a, b):
    """all merges of two sequences (as lists of (solver, op))"""
    n, m = len(a), len(b)
    for pos in itertools.combinations(range(n + m), n):
        ps = set(pos)
        ia = ib = 0
        out = []
        for k in range(n + m):
            if k in ps:
                out.append((0, a[ia])); ia += 1
            else:
                out.append((1, b[ib])); ib += 1
        yield out


RESET = "w.reset"      # mutation experiments set this to "w.reset 1 1" etc. to select a legacy variant of the model


def script_of(header, sched, r=None, dense=True):
    """schedule -> script: the state of ALL solvers is dumped after every operation, and every Solution handed out so
    far is re-read at the end (and at random points)"""
    lines = [RESET] + header
    nh = 0
    for (i, op) in sched:
        lines.append(op_line(i, op))
        if op == "r":
            nh += 1      # (not handed out when the op is not applicable; w.report then answers bad-op on both sides)
        if dense or (r and r.random() < 0.5):
            lines.append("w.shape")
        if r and nh and r.random() < 0.3:
            lines.append(f"w.report {r.randrange(nh)}")
    lines.append("w.shape")
    for k in range(nh):
        lines.append(f"w.report {k}")
    return lines


def gen_random_script(r, maxlen=12):
    ns = r.choice([2, 2, 3])
    header, mode = gen_header(r, ns)
    lists = []
    budget = maxlen
    for k in range(ns):
        l = gen_oplist(r, max(1, min(7, budget - (ns - 1 - k))))
        budget -= len(l)
        lists.append(l)
    sched = interleave_random(r, lists)[:maxlen]
    return script_of(header, sched, r, dense=r.random() < 0.7), {"mode": mode, "nsolvers": ns, "sched": sched}


EXH_LISTS = [("cf", "cf"), ("cfr", "cfi"), ("cfri", "cfi"), ("cfrii", "cfi"), ("crfi", "cfri"), ("cfi", "cfiii"),
             ("cfrir", "cf"), ("cfiir", "cr"), ("cfii", "cfir"), ("cfriii", "cf"), ("crfir", "cfr"), ("cfrii", "c"),
             ("cfri", "cfri"), ("cfiri", "cfi")]


def gen_exhaustive_scripts(r, pairs, modes=("distinct", "sameclass", "sameobj")):
    for a, b in pairs:
        assert len(a) + len(b) <= 8
        for mode in modes:
            header, _ = gen_header(r, 2, mode)
            for sched in all_interleavings(list(a), list(b)):
                yield script_of(header, sched), {"mode": mode, "lists": (a, b)}


# =============================================================================================
# correspondence
# =============================================================================================
def corr(r, tier):
    scripts = []
    for _ in range(200 if tier == "quick" else 1500):
        scripts.append(gen_random_script(r))
    if tier == "quick":
        scripts += list(gen_exhaustive_scripts(r, EXH_LISTS[:2], modes=("distinct",)))
        scripts += list(gen_exhaustive_scripts(r, [("cfr", "cf")], modes=("sameobj", "sameclass")))
    else:
        scripts += list(gen_exhaustive_scripts(r, EXH_LISTS))
    allm, spans, ios = [], [], []
    for sc, meta in scripts:
        ml, io = run_world_script(sc)
        spans.append((len(allm), len(ml))); allm += ml; ios.append(io)
    mo = _model(allm)
    bad, total = [], 0
    stats = {"bad_op_lines": 0, "results": 0, "reports": 0, "shapes": 0, "steps": 0}
    for (st, ln), (sc, meta), io in zip(spans, scripts, ios):
        total += ln
        stats["mode_" + meta["mode"]] = stats.get("mode_" + meta["mode"], 0) + 1
        for k in range(ln):
            o = io[k]
            c = sc[k].split(" ")[0]
            if o == "bad-op":
                stats["bad_op_lines"] += 1
            elif c == "w.results":
                stats["results"] += 1
            elif c == "w.report":
                stats["reports"] += 1
            elif c == "w.shape":
                stats["shapes"] += 1
            elif c in ("w.first", "w.iter"):
                stats["steps"] += 1
        for k in range(ln):
            if mo[st + k] != io[k]:
                bad.append({"stream": "world", "script": allm[st:st + k + 1], "command": allm[st + k],
                            "model_output": mo[st + k], "implementation_output": io[k], "meta": meta})
                break
    return {"evaluations": total, "scripts": len(scripts), "mismatches": bad,
            "samples": [scripts[0][0][:12], scripts[-1][0]], "stats": stats}


if __name__ == "__main__":
    import time
    tier = sys.argv[1] if len(sys.argv) > 1 else "quick"
    t0 = time.time()
    res = corr(rng("world"), tier)
    print(json.dumps({k: v for k, v in res.items() if k not in ("mismatches", "samples")}, indent=1))
    print("mismatches:", len(res["mismatches"]), "wall", round(time.time() - t0, 1))
    for m in res["mismatches"][:3]:
        print(json.dumps(m, indent=1, default=str)[:3000])
