#!/venv/bin/python
"""Run every registered check (quick or thorough) on /repo, a few in parallel; prints one line per check."""
import json, os, subprocess, sys, time
from concurrent.futures import ThreadPoolExecutor
V = os.path.dirname(os.path.dirname(os.path.abspath(__file__)))
tier = sys.argv[1] if len(sys.argv) > 1 else "quick"
jobs = int(sys.argv[2]) if len(sys.argv) > 2 else 4
only = sys.argv[3].split(",") if len(sys.argv) > 3 else None
man = json.load(open(os.path.join(V, "MANIFEST.json")))


def run(c):
    pid = c["property_id"]
    cmd = c["quick_cmd"] if tier == "quick" else c["thorough_cmd"]
    t0 = time.time()
    r = subprocess.run(cmd, shell=True, cwd=V, stdout=subprocess.PIPE, stderr=subprocess.STDOUT, text=True,
                       env=dict(os.environ, VERIF_TIER=tier))
    lines = [l for l in r.stdout.split("\n") if l.startswith(("VIOLATION", "KNOWN", "INFRA", "[check]"))]
    return pid, r.returncode, round(time.time() - t0), lines, r.stdout[-1500:] if r.returncode not in (0,) else ""


checks = [c for c in man["checks"] if not only or c["property_id"] in only]
with ThreadPoolExecutor(jobs) as ex:
    for pid, rc, dt, lines, tail in ex.map(run, checks):
        print(pid, "exit", rc, f"{dt}s", " | ".join(lines)[:400], flush=True)
        if rc != 0:
            print(tail)
