#!/usr/bin/env python3
"""Writes MANIFEST.json from props_index.json and manifest_texts.json (kept separately so that the
registered commands and the claimed levels are reviewed in one place)."""
import json, os
V = os.path.dirname(os.path.dirname(os.path.abspath(__file__)))
idx = json.load(open(os.path.join(V, "props_index.json")))
txt = json.load(open(os.path.join(V, "manifest_texts.json")))
props = [json.loads(l)["id"] for l in open(os.path.join(V, "properties.jsonl"))]
checks = []
for p in props:
    if p in idx and p in txt["claimed"]:
        t = txt["claimed"][p]
        checks.append({
            "property_id": p,
            "quick_cmd": f"/venv/bin/python harness/run_check.py --property {p} --tier quick",
            "thorough_cmd": f"/venv/bin/python harness/run_check.py --property {p} --tier thorough",
            "evidence_file": f"/verif/evidence/{p}.json",
            "replay_cmd_template": "/venv/bin/python harness/run_check.py --replay {path}",
            "engine": "lean4+correspondence",
            "level_claimed": {"category": "proof", "text": t["text"], "design_ref": t.get("design_ref", "DESIGN.md")},
            "level_note": t["note"],
            "technique": t["technique"],
        })
na = [{"property_id": p, "reason": txt["not_applicable"].get(p, "check not built yet (work in progress; see DESIGN.md)")}
      for p in props if not (p in idx and p in txt["claimed"])]
m = {"version": 1,
     "setup_cmd": "/venv/bin/python harness/setup.py",
     "hooks": {"guard": "IOPT_VERIF", "enable": "no hooks: nothing in /repo is instrumented; checks import /repo in-process (IOPT_REPO overrides the path)",
               "baseline_off_cmd": "cd /repo && /venv/bin/python -m pytest -ra -q -p no:cacheprovider --timeout=900 --continue-on-collection-errors",
               "source_commits": [], "add_only": True},
     "engines": [{"name": "lean4+correspondence", "path": "harness/run_check.py", "serves_properties": [c["property_id"] for c in checks],
                  "kind_free_text": "Lean 4 theorems (lean/IOptProps, helper lemmas lean/IOptProofs) about a hand-written executable model (lean/IOptModel) and regenerated data (lean/IOptGen, written by harness/translate.py from /repo on every run); the model is tied to /repo on every run by a bit-exact differential correspondence check through the compiled Lean driver; direct Python oracles on the implementation are the failing-input search"}],
     "checks": checks,
     "notes": txt.get("notes", ""),
     "not_applicable": na}
json.dump(m, open(os.path.join(V, "MANIFEST.json"), "w"), indent=1)
print("checks:", [c["property_id"] for c in checks], "not_applicable:", [n["property_id"] for n in na])
