"""Script generators and correspondence runners (model vs implementation) for the protocol streams."""
import json, math, itertools
from common import *
import impl as implmod
import objectives


class Mismatch:
    def __init__(self, stream, case, index, line, model, impl):
        self.stream, self.case, self.index, self.line, self.model, self.impl = stream, case, index, line, model, impl

    def to_json(self):
        return {"stream": self.stream, "case": self.case, "first_diff_index": self.index, "command": self.line,
                "model_output": self.model, "implementation_output": self.impl}


def first_token_diff(a, b):
    ta, tb = a.split(" "), b.split(" ")
    for i, (x, y) in enumerate(zip(ta, tb)):
        if x != y:
            return f"token {i}: model={x} impl={y}"
    return f"length {len(ta)} vs {len(tb)}"


# =============================================================================================
# libm self-test
# =============================================================================================
def libm_selftest(n=2000):
    r = rng("libm")
    lines = []
    for _ in range(n):
        op = r.choice(["add", "sub", "mul", "div", "pow", "sqrt", "sin", "cos", "exp", "abs"])
        a = r.uniform(-50, 50) if r.random() < 0.7 else r.uniform(-1, 1) * 10 ** r.randint(-12, 6)
        b = r.uniform(-8, 8)
        if op == "pow":
            a = abs(a)
        if op == "sqrt":
            a = abs(a)
        args = [a] if op in ("sqrt", "sin", "cos", "exp", "abs") else [a, b]
        lines.append(f"libm {op} " + fs2h(args))
    for _ in range(n // 4):
        lines.append(f"libm.root {f2h(r.random())} {r.randint(1, 5)}")
        lines.append(f"libm.pown {f2h(r.uniform(0, 3))} {r.randint(1, 5)}")
    mo = run_model(lines)
    io, _ = implmod.run_impl(lines)
    bad = [(l, a, b) for l, a, b in zip(lines, mo, io) if a != b and b != "pyerror"]
    return len(lines), bad


# =============================================================================================
# solver stream
# =============================================================================================
def gen_box(r, n):
    style = r.choice(["unit", "sym", "random", "random", "tiny", "huge"])
    if r.random() < 0.07:
        # THIN sides: narrow relative to the magnitude of the bounds (2^-31 .. 2^-36 of |lower|, still millions of ulps wide) or
        # narrow in absolute terms (2^-40, 1e-12 next to 0) - legal boxes on which a "fixed variable" guard written with a relative
        # or an absolute tolerance goes wrong
        lo, hi = [], []
        for _ in range(n):
            u = r.random()
            if u < 0.4:
                l = round(r.uniform(-5, 5), 2); side = round(r.uniform(0.1, 7), 2)
            elif u < 0.75:
                l = r.choice([-1.0, 1.0]) * r.choice([1000.0, 2.4e9, 37.25, 1e6, 5e6])
                side = abs(l) * 2.0 ** -r.choice([31, 33, 36])
            else:
                l = r.choice([0.0, 0.0, 3.0, -0.0])
                side = r.choice([2.0 ** -40, 1e-12, 2.0 ** -46]) * (1.0 if l == 0 else 4096.0)
            lo.append(l); hi.append(l + side)
        if all(h > l for l, h in zip(lo, hi)):
            return lo, hi
    if style == "unit":
        return [0.0] * n, [1.0] * n
    if style == "sym":
        return [-1.0] * n, [1.0] * n
    if style == "tiny":
        lo = [round(r.uniform(-1, 1), 3) for _ in range(n)]
        return lo, [l + r.choice([1e-3, 2.5e-4, 0.0625]) for l in lo]
    if style == "huge":
        lo = [round(r.uniform(-1e4, 1e4), 1) for _ in range(n)]
        return lo, [l + r.choice([1e3, 12345.5, 8192.0]) for l in lo]
    lo = [round(r.uniform(-5, 5), 2) for _ in range(n)]
    return lo, [l + round(r.uniform(0.1, 7), 2) for l in lo]


def gen_solver_case(r, n=None, ops=None, spec=None, m=None, lim=None, eps=None, rr=None, fail=None, refine=False,
                    listeners="rec", box=None):
    n = n or r.choice([1, 1, 2, 2, 3, 4, 5])
    spec = spec or objectives.gen_spec(r, n)
    lower, upper = box or gen_box(r, n)
    m = m or (r.choice([10, 10, 8, 12, 6, 4, 3, 2]) if n > 1 else 10)
    if n * m > 50:
        m = 50 // n
    lim = lim or r.choice([1, 2, 3, 5, 17, 40, 80, 150, 400])
    eps = eps if eps is not None else r.choice([0.5, 1.0, 1.5, 0.1, 0.05, 0.02, 0.01, 0.003, 1e-3, 1e-4])
    rr = rr or round(r.uniform(1.05, 6), 2)
    if listeners == "rec" and r.random() < 0.3:
        listeners = "rec+%d" % r.randint(1, 3)       # further passive listeners next to the recording one
    head = [f"impl obj {json.dumps(spec)}", f"impl refine {1 if refine else 0}", f"impl listeners {listeners}"]
    if fail:
        head.append(f"impl fail {fail[0]} {fail[1]}")
    head.append(f"sv.new {n} {m} {lim} {f2h(rr)} {f2h(eps)} {fs2h(lower)} {fs2h(upper)}")
    if ops is None:
        ops = []
        style = r.random()
        if style < 0.45:
            ops = ["sv.solve"]
        elif style < 0.8:
            total = 0
            for _ in range(r.randint(1, 6)):
                k = r.choice([1, 1, 1, 2, 3, 5, 0])
                ops.append(f"sv.iter {k}")
                if r.random() < 0.5:
                    ops.append("sv.dump")
            ops.append("sv.solve")
        else:
            ops = ["sv.iter 1", "sv.dump"] * r.randint(2, 25)
        ops += ["sv.dump", "sv.result"]
        if r.random() < 0.3:
            ops += ["sv.solve", "sv.result"]
    meta = {"n": n, "m": m, "lim": lim, "eps": eps, "r": rr, "lower": lower, "upper": upper, "spec": spec,
            "fail": fail, "refine": refine, "ops": ops}
    return head + ops, meta


def run_solver_case(lines):
    """run the implementation, derive the oracle, build the model script and the expected outputs"""
    io, im = implmod.run_impl(lines)
    vals = []
    glob = [e for e in im.problem.log if e[0] == "global"]
    # oracle by call index (failed calls included)
    fail_idx = None
    for l in lines:
        if l.startswith("impl fail "):
            fail_idx = int(l.split()[2]) - 1
    gi = 0
    for k in range(im.problem.ncalls_global):
        if fail_idx is not None and k == fail_idx:
            vals.append("raise")
        else:
            vals.append(f2h(glob[gi][2])); gi += 1
    mlines, expect = [], []
    li = 0
    for l, o in zip(lines, io):
        if l == "sv.solve" and im.refine:
            nfev, fx, x = im.local_results[li]; li += 1
            mlines.append(f"sv.local {nfev} {f2h(fx)} " + fs2h(x)); expect.append("ok")
        mlines.append(l); expect.append(o)
        if l.startswith("sv.new"):
            mlines.append("sv.oracle " + " ".join(vals)); expect.append("ok")
    return mlines, expect, im


def solver_branch_stats(im, outs):
    """coverage counters from an implementation run"""
    st = {}
    txt = " ".join(outs)
    st["exception_path"] = "printed" in txt or "raised=objective" in txt or "raised=outside" in txt
    st["outside_interval"] = "raised=outsideInterval" in txt
    sol = im.sv.searchData.solution
    st["accuracy_stop"] = sol.solutionAccuracy < im.sv.parameters.eps
    st["budget_stop"] = im.sv.method.iterationsCount >= im.sv.parameters.itersLimit
    zs = [e[2] for e in im.problem.log if e[0] == "global"]
    st["equal_values"] = len(set(zs)) < len(zs)
    st["trials"] = len(zs)
    return st


# =============================================================================================
# evolvent stream
# =============================================================================================
def gen_evolvent_lines(r, tier):
    """image / inverse / integer-layer commands; returns (lines, meta, coverage)"""
    lines, meta = [], []
    # exhaustive node / numbr tables (whole domain, N = 2..7)
    for n in (2, 3, 4, 5, 6, 7):
        for d in range(2 ** n):
            lines.append(f"ev.node {n} {d}"); meta.append(("node", n, d))
        for us in itertools.product((1, -1), repeat=n):
            lines.append(f"ev.numbr {n} " + " ".join(str(u) for u in us)); meta.append(("numbr", n, us))
    # exhaustive cells for small N*m: every subinterval, left end, an interior point, and the inverse of the image
    lim = 12 if tier == "quick" else 16
    for n in (2, 3, 4, 5, 6, 7):
        for m in range(1, 9):
            if n * m > lim:
                continue
            lo, hi = gen_box(r, n)
            cells = (2 ** n) ** m
            for i in range(cells):
                for x in (i / cells, (i + r.random() * 0.999) / cells):
                    lines.append(f"ev.image {n} {m} {fs2h(lo)} {fs2h(hi)} {f2h(x)}"); meta.append(("image", n, m, x))
            lines.append(f"ev.image {n} {m} {fs2h(lo)} {fs2h(hi)} {f2h(1.0)}"); meta.append(("image", n, m, 1.0))
    # integer model vs implementation on the cube (digits -> cell), random digits
    for _ in range(300 if tier == "quick" else 3000):
        n = r.randint(2, 7); m = r.randint(1, 50 // n)
        ds = [r.randrange(2 ** n) for _ in range(m)]
        lines.append(f"ev.cubeY {n} " + " ".join(map(str, ds))); meta.append(("cubeY", n, m, ds))
    # random (N, m, x, box) incl. N = 1, x near 1, x = 1, dyadic x
    for _ in range(2500 if tier == "quick" else 20000):
        n = r.randint(1, 7); m = r.randint(1, 50 // n)
        lo, hi = gen_box(r, n)
        u = r.random()
        if u < 0.1:
            x = 1.0 - r.random() * 4e-9
        elif u < 0.15:
            x = 1.0
        elif u < 0.3:
            x = r.randrange(2 ** min(n * m, 52)) / 2 ** min(n * m, 52)
        elif u < 0.35:
            x = 0.0
        else:
            x = r.random()
        lines.append(f"ev.image {n} {m} {fs2h(lo)} {fs2h(hi)} {f2h(x)}"); meta.append(("image", n, m, x))
        # inverse at a random box point and at cell boundaries
        if r.random() < 0.5:
            y = [l + r.random() * (h - l) for l, h in zip(lo, hi)]
        else:
            cells = 2 ** m
            y = [l + (h - l) * (r.randrange(cells + 1) / cells if r.random() < 0.5 else r.random()) for l, h in zip(lo, hi)]
            y = [min(max(v, l), h) for v, l, h in zip(y, lo, hi)]
        lines.append(f"ev.inverse {n} {m} {fs2h(lo)} {fs2h(hi)} {fs2h(y)}"); meta.append(("inverse", n, m, y))
    return lines, meta


def corr_evolvent(r, tier):
    lines, meta = gen_evolvent_lines(r, tier)
    mo = run_model(lines)
    io, _ = implmod.run_impl(lines)
    bad = [Mismatch("evolvent", meta[i], i, lines[i], mo[i], io[i]) for i in range(len(lines)) if mo[i] != io[i]]
    kinds = {}
    for mt in meta:
        kinds[mt[0]] = kinds.get(mt[0], 0) + 1
    return {"evaluations": len(lines), "distinct": len(set(lines)), "kinds": kinds, "mismatches": bad,
            "exhaustive_parts": "__CalculateNode/__CalculateNumbr on their whole domain for N=2..7; every subinterval of every (N,m) with N*m <= %d" % (12 if tier == "quick" else 16),
            "samples": [{"command": lines[i], "output": mo[i]} for i in (0, len(lines) // 2, len(lines) - 1)]}


# =============================================================================================
# search-data stream
# =============================================================================================
def gen_sd_script(r, length, dual, maxlen, malformed=False):
    """op script for SearchData / SearchDataDualQueue. Coordinates from a small pool so that equal
    coordinates / keys occur; hints are correct unless `malformed`."""
    xs_pool = [round(r.random(), 2) for _ in range(8)] + [0.25, 0.5, 0.75]
    key_pool = [0.0, 1.0, 1.0, 2.5, -1.0, 3.0, 0.5]

    def key():
        return r.choice(key_pool) if r.random() < 0.6 else round(r.uniform(-3, 3), 2)
    lines = [f"sd.new {1 if dual else 0} {maxlen if maxlen is not None else '-'}",
             f"sd.first {f2h(0.0)} {f2h(key())} {f2h(key())} {f2h(1.0)} {f2h(key())} {f2h(key())}"]
    items = [(0.0, 0), (1.0, 1)]     # (x, id) sorted by traversal (equal x: new goes after its equals -> before first greater)
    for _ in range(length):
        u = r.random()
        if u < 0.45:
            x = r.choice(xs_pool) if r.random() < 0.7 else r.random()
            if not malformed:
                if not (0.0 < x < 1.0):
                    continue
            else:
                if r.random() < 0.3:
                    x = r.choice([-0.5, 0.0, 1.0, 1.5])
            # correct hint: first item with coordinate > x
            pos = next((i for i, (xx, _) in enumerate(items) if xx > x), None)
            usehint = r.random() < 0.6
            if malformed and r.random() < 0.3 and items:
                hint = r.choice(items)[1]
            else:
                hint = items[pos][1] if pos is not None else None
            if usehint and hint is not None:
                lines.append(f"sd.insert {f2h(x)} {f2h(key())} {f2h(key())} {hint}")
            else:
                lines.append(f"sd.insert {f2h(x)} {f2h(key())} {f2h(key())} -")
            if pos is not None and pos > 0:
                items.insert(pos, (x, len(items)))
            elif malformed:
                lines.append("sd.trav")
                return lines      # an error is expected here: stop the script after it
        elif u < 0.6:
            lines.append("sd.popg")
        elif u < 0.68 and dual:
            lines.append("sd.popl")
        elif u < 0.74:
            lines.append("sd.refill")
        elif u < 0.78:
            lines.append("sd.clear")
        elif u < 0.86:
            lines.append(f"sd.setg {r.randrange(len(items))} {f2h(key())}")
        elif u < 0.9 and dual:
            lines.append(f"sd.setl {r.randrange(len(items))} {f2h(key())}")
        elif u < 0.95:
            lines.append(f"sd.find {f2h(r.choice(xs_pool + [-1.0, 0.0, 1.0, 2.0]))}")
        else:
            lines.append("sd.trav"); lines.append("sd.queues")
    lines += ["sd.trav", "sd.queues"]
    return lines


def truncate_after_error(lines, outs):
    """a script is compared only up to and including its first `error` (the Python object is then
    partially mutated; the model stops)"""
    for i, o in enumerate(outs):
        if o == "error":
            return i + 1
    return len(lines)


def corr_sd(r, tier):
    scripts = []
    nrand = 400 if tier == "quick" else 4000
    for _ in range(nrand):
        dual = r.random() < 0.5
        maxlen = r.choice([None, None, 1, 2, 3, 5, 8])
        scripts.append(gen_sd_script(r, r.randint(3, 60 if tier == "quick" else 300), dual, maxlen))
    for _ in range(nrand // 4):
        scripts.append(gen_sd_script(r, r.randint(2, 20), r.random() < 0.5, r.choice([None, 2, 4]), malformed=True))
    # all short sequences over a small alphabet
    alpha = [lambda: f"sd.insert {f2h(0.5)} {f2h(1.0)} {f2h(2.0)} -", lambda: f"sd.insert {f2h(0.25)} {f2h(2.0)} {f2h(1.0)} -",
             lambda: f"sd.insert {f2h(0.5)} {f2h(2.0)} {f2h(0.0)} 1", lambda: "sd.popg", lambda: "sd.refill", lambda: "sd.clear",
             lambda: f"sd.setg 1 {f2h(5.0)}", lambda: "sd.popl"]
    depth = 3 if tier == "quick" else 5
    for dual in (False, True):
        for maxlen in (None, 2):
            for seq in itertools.product(range(len(alpha)), repeat=depth):
                if not dual and 7 in seq:
                    continue
                lines = [f"sd.new {1 if dual else 0} {maxlen if maxlen is not None else '-'}",
                         f"sd.first {f2h(0.0)} {f2h(0.0)} {f2h(0.0)} {f2h(1.0)} {f2h(1.0)} {f2h(1.0)}"]
                for a in seq:
                    lines.append(alpha[a]()); lines.append("sd.queues")
                lines.append("sd.trav")
                scripts.append(lines)
    bad, total, errs = [], 0, 0
    allm = []
    spans = []
    for sc in scripts:
        spans.append((len(allm), len(sc))); allm += sc
    mo_all = run_model(allm)
    for (st, ln), sc in zip(spans, scripts):
        io, _ = implmod.run_impl(sc)
        mo = mo_all[st:st + ln]
        k = min(truncate_after_error(sc, io), truncate_after_error(sc, mo))
        total += k
        if "error" in io[:k]:
            errs += 1
        for i in range(k):
            if mo[i] != io[i]:
                bad.append(Mismatch("searchdata", sc[:i + 1], i, sc[i], mo[i], io[i]))
                break
    return {"evaluations": total, "distinct": len({tuple(sc) for sc in scripts}), "scripts": len(scripts),
            "scripts_with_error_path": errs, "mismatches": bad,
            "exhaustive_parts": "all scripts of length %d over an 8-letter alphabet x {single,dual} x {unbounded,maxlen 2}" % depth,
            "samples": [scripts[0][:8], scripts[-1]]}


# =============================================================================================
# solver stream runner
# =============================================================================================
def corr_solver(r, ncases, variants=None, case_fn=None):
    """variants: list of kwargs dict generators; returns mismatch list and branch statistics"""
    stats, bad, metas = {}, [], []
    allm, alle, spans = [], [], []
    for i in range(ncases):
        kw = {}
        if case_fn:
            kw = case_fn(r, i)
        lines, meta = gen_solver_case(r, **kw)
        ml, exp, im = run_solver_case(lines)
        st = solver_branch_stats(im, exp)
        for k, v in st.items():
            if v is True:
                stats[k] = stats.get(k, 0) + 1
        stats["dim%d" % meta["n"]] = stats.get("dim%d" % meta["n"], 0) + 1
        stats["trials_total"] = stats.get("trials_total", 0) + st["trials"]
        spans.append((len(allm), len(ml), meta)); allm += ml; alle += exp
        metas.append(meta)
    out = run_model(allm)
    for st, ln, meta in spans:
        for k in range(st, st + ln):
            if out[k] != alle[k]:
                bad.append(Mismatch("solver", meta, k - st, allm[k], out[k], alle[k]))
                break
    if any("oracle-exhausted" in o for o in out):
        stats["oracle_exhausted"] = sum(1 for o in out if "oracle-exhausted" in o)
    return {"evaluations": len(allm), "distinct": len({json.dumps(m, sort_keys=True, default=str) for m in metas}),
            "cases": ncases, "stats": stats, "mismatches": bad,
            "samples": [metas[0], metas[-1]] if metas else []}


# =============================================================================================
# evolvent-object stream (C17): one object, interleaved calls, all caller-visible arrays dumped
# =============================================================================================
def gen_eo_script(r, length, n=None):
    n = n or r.choice([1, 1, 2, 2, 3, 4, 5])
    m = r.randint(1, min(12, 50 // n))
    lo, hi = gen_box(r, n)
    lines = [f"eo.new {n} {m} {fs2h(lo)} {fs2h(hi)}"]
    nvis = 2
    boxes = [(0, 1)]
    cur = (lo, hi)
    ints = set()           # indices of integer-typed arrays (poked with integer values only)
    lens = {0: n, 1: n}
    for _ in range(length):
        u = r.random()
        if u < 0.08:
            # the caller overwrites one of ITS arrays in place (bounds it passed, an argument, a result it was handed)
            k = r.randrange(nvis)
            vals = [float(r.randint(-3, 3)) if k in ints else round(r.uniform(-50, 50), 3) for _ in range(lens.get(k, n))]
            lines.append(f"eo.poke {k} " + fs2h(vals))
            continue
        if u < 0.4:
            x = r.choice([0.0, 1.0, 0.5]) if r.random() < 0.15 else r.random()
            lines.append(f"eo.image {f2h(x)}"); nvis += 1
        elif u < 0.7:
            # inverse of a fresh point or of an array returned earlier (aliasing!)
            if r.random() < 0.5 and nvis > 2:
                cand = r.randrange(2, nvis)
                lines.append(f"{r.choice(['eo.inverse', 'eo.preimages'])} {cand}")
            elif r.random() < 0.25 and all(math.ceil(l) <= math.floor(h) for l, h in zip(*cur)):
                # an integer-typed argument array (Python lists of ints / int ndarrays are legal points)
                y = [float(r.randint(math.ceil(l), math.floor(h))) for l, h in zip(*cur)]
                lines.append("eo.arri " + fs2h(y)); nvis += 1
                ints.add(nvis - 1)
                lines.append(f"{r.choice(['eo.inverse', 'eo.preimages'])} {nvis - 1}")
            else:
                y = [l + r.random() * (h - l) for l, h in zip(*cur)]
                lines.append("eo.arr " + fs2h(y)); nvis += 1
                lines.append(f"{r.choice(['eo.inverse', 'eo.preimages'])} {nvis - 1}")
        elif u < 0.8:
            lo2, hi2 = gen_box(r, n)
            lines.append("eo.arr " + fs2h(lo2)); lines.append("eo.arr " + fs2h(hi2)); nvis += 2
            lines.append(f"eo.setbounds {nvis - 2} {nvis - 1}")
            cur = (lo2, hi2)
        else:
            lines.append("eo.visible")
    lines.append("eo.visible")
    return lines


def corr_eo(r, tier):
    scripts = [gen_eo_script(r, r.randint(3, 40 if tier == "quick" else 200)) for _ in range(150 if tier == "quick" else 1500)]
    # all short sequences over a small alphabet (N = 1 and N = 2)
    alpha = ["eo.image 3fd0000000000000", "eo.image 3fe8000000000000", "eo.inverse 2", "eo.preimages 2", "eo.visible", "eo.inverse 3"]
    depth = 3 if tier == "quick" else 5
    for n in (1, 2):
        for seq in itertools.product(range(len(alpha)), repeat=depth):
            lo, hi = [-1.0] * n, [2.0] * n
            sc = [f"eo.new {n} 3 {fs2h(lo)} {fs2h(hi)}", "eo.image 3fe0000000000000", "eo.arri " + fs2h([1.0] * n)]
            sc += [alpha[a] for a in seq] + ["eo.visible"]
            scripts.append(sc)
    allm, spans = [], []
    for sc in scripts:
        spans.append((len(allm), len(sc))); allm += sc
    mo = run_model(allm)
    bad, total = [], 0
    for (st, ln), sc in zip(spans, scripts):
        io, _ = implmod.run_impl(sc)
        total += ln
        for i in range(ln):
            if mo[st + i] != io[i]:
                bad.append(Mismatch("evobj", sc[:i + 1], i, sc[i], mo[st + i], io[i])); break
    return {"evaluations": total, "distinct": len({tuple(sc) for sc in scripts}), "scripts": len(scripts), "mismatches": bad,
            "exhaustive_parts": "all call sequences of length %d over a 6-letter alphabet for N = 1, 2" % depth,
            "samples": [scripts[0][:10], scripts[-1]]}
