"""Script generators and correspondence runners (model vs implementation) for the protocol streams."""
import json, math, itertools
from common import *
import impl as implmod
import objectives


class Mismatch:
    def __init__(self, stream, case, index, line, model, impl):
        self.stream, self.case, self.index, self.line, self.model, self.impl = stream, case, index, line, model, impl

    def to_json(self):
        return {"stream": self.stream, "case": self.case, "first_diff_index": self.index, "command": self.line,
                "model_output": self.model, "implementation_output": self.impl}


def first_token_diff(a, b):
    ta, tb = a.split(" "), b.split(" ")
    for i, (x, y) in enumerate(zip(ta, tb)):
        if x != y:
            return f"token {i}: model={x} impl={y}"
    return f"length {len(ta)} vs {len(tb)}"


# =============================================================================================
# libm self-test
# =============================================================================================
def libm_selftest(n=2000):
    r = rng("libm")
    lines = []
    for _ in range(n):
        op = r.choice(["add", "sub", "mul", "div", "pow", "sqrt", "sin", "cos", "exp", "abs"])
        a = r.uniform(-50, 50) if r.random() < 0.7 else r.uniform(-1, 1) * 10 ** r.randint(-12, 6)
        b = r.uniform(-8, 8)
        if op == "pow":
            a = abs(a)
        if op == "sqrt":
            a = abs(a)
        args = [a] if op in ("sqrt", "sin", "cos", "exp", "abs") else [a, b]
        lines.append(f"libm {op} " + fs2h(args))
    for _ in range(n // 4):
        lines.append(f"libm.root {f2h(r.random())} {r.randint(1, 5)}")
        lines.append(f"libm.pown {f2h(r.uniform(0, 3))} {r.randint(1, 5)}")
    mo = run_model(lines)
    io, _ = implmod.run_impl(lines)
    bad = [(l, a, b) for l, a, b in zip(lines, mo, io) if a != b and b != "pyerror"]
    return len(lines), bad


# =============================================================================================
# solver stream
# =============================================================================================
def gen_box(r, n):
    style = r.choice(["unit", "sym", "random", "random", "tiny", "huge"])
    if style == "unit":
        return [0.0] * n, [1.0] * n
    if style == "sym":
        return [-1.0] * n, [1.0] * n
    if style == "tiny":
        lo = [round(r.uniform(-1, 1), 3) for _ in range(n)]
        return lo, [l + r.choice([1e-3, 2.5e-4, 0.0625]) for l in lo]
    if style == "huge":
        lo = [round(r.uniform(-1e4, 1e4), 1) for _ in range(n)]
        return lo, [l + r.choice([1e3, 12345.5, 8192.0]) for l in lo]
    lo = [round(r.uniform(-5, 5), 2) for _ in range(n)]
    return lo, [l + round(r.uniform(0.1, 7), 2) for l in lo]


def gen_solver_case(r, n=None, ops=None, spec=None, m=None, lim=None, eps=None, rr=None, fail=None, refine=False,
                    listeners="rec", box=None):
    n = n or r.choice([1, 1, 2, 2, 3, 4, 5])
    spec = spec or objectives.gen_spec(r, n)
    lower, upper = box or gen_box(r, n)
    m = m or (r.choice([10, 10, 8, 12, 6, 4, 3, 2]) if n > 1 else 10)
    if n * m > 50:
        m = 50 // n
    lim = lim or r.choice([1, 2, 3, 5, 17, 40, 80, 150, 400])
    eps = eps if eps is not None else r.choice([0.5, 1.0, 1.5, 0.1, 0.05, 0.02, 0.01, 0.003, 1e-3, 1e-4])
    rr = rr or round(r.uniform(1.05, 6), 2)
    head = [f"impl obj {json.dumps(spec)}", f"impl refine {1 if refine else 0}", f"impl listeners {listeners}"]
    if fail:
        head.append(f"impl fail {fail[0]} {fail[1]}")
    head.append(f"sv.new {n} {m} {lim} {f2h(rr)} {f2h(eps)} {fs2h(lower)} {fs2h(upper)}")
    if ops is None:
        ops = []
        style = r.random()
        if style < 0.45:
            ops = ["sv.solve"]
        elif style < 0.8:
            total = 0
            for _ in range(r.randint(1, 6)):
                k = r.choice([1, 1, 1, 2, 3, 5, 0])
                ops.append(f"sv.iter {k}")
                if r.random() < 0.5:
                    ops.append("sv.dump")
            ops.append("sv.solve")
        else:
            ops = ["sv.iter 1", "sv.dump"] * r.randint(2, 25)
        ops += ["sv.dump", "sv.result"]
        if r.random() < 0.3:
            ops += ["sv.solve", "sv.result"]
    meta = {"n": n, "m": m, "lim": lim, "eps": eps, "r": rr, "lower": lower, "upper": upper, "spec": spec,
            "fail": fail, "refine": refine, "ops": ops}
    return head + ops, meta


def run_solver_case(lines):
    """run the implementation, derive the oracle, build the model script and the expected outputs"""
    io, im = implmod.run_impl(lines)
    vals = []
    glob = [e for e in im.problem.log if e[0] == "global"]
    # oracle by call index (failed calls included)
    fail_idx = None
    for l in lines:
        if l.startswith("impl fail "):
            fail_idx = int(l.split()[2]) - 1
    gi = 0
    for k in range(im.problem.ncalls_global):
        if fail_idx is not None and k == fail_idx:
            vals.append("raise")
        else:
            vals.append(f2h(glob[gi][2])); gi += 1
    mlines, expect = [], []
    li = 0
    for l, o in zip(lines, io):
        if l == "sv.solve" and im.refine:
            nfev, fx, x = im.local_results[li]; li += 1
            mlines.append(f"sv.local {nfev} {f2h(fx)} " + fs2h(x)); expect.append("ok")
        mlines.append(l); expect.append(o)
        if l.startswith("sv.new"):
            mlines.append("sv.oracle " + " ".join(vals)); expect.append("ok")
    return mlines, expect, im


def solver_branch_stats(im, outs):
    """coverage counters from an implementation run"""
    st = {}
    txt = " ".join(outs)
    st["exception_path"] = "printed" in txt or "raised=objective" in txt or "raised=outside" in txt
    st["outside_interval"] = "raised=outsideInterval" in txt
    sol = im.sv.searchData.solution
    st["accuracy_stop"] = sol.solutionAccuracy < im.sv.parameters.eps
    st["budget_stop"] = im.sv.method.iterationsCount >= im.sv.parameters.itersLimit
    zs = [e[2] for e in im.problem.log if e[0] == "global"]
    st["equal_values"] = len(set(zs)) < len(zs)
    st["trials"] = len(zs)
    return st
