"""Per-property flavours of the solver-level correspondence stream: each is a function
(rng, case index) -> kwargs for streams.gen_solver_case."""
import objectives


def default(r, i):
    kw = {}
    u = r.random()
    if u < 0.12:
        kw["fail"] = (r.randint(2, 12), r.choice(["ValueError", "KeyboardInterrupt", "BaseException"]))
    elif u < 0.22:
        kw["refine"] = True
    return kw


def fail(r, i):
    """the objective raises at its k-th evaluation; the failing evaluation is reached by a plain Solve, after trials made through
    DoGlobalIteration (in particular as the FIRST evaluation inside Solve), or as the first evaluation of a second Solve after the
    budget was raised in place (theorems C16_fail_after_batches / _first_iteration_of_solve / _in_resumed_solve)"""
    from common import f2h
    k = r.randint(2, 25)
    kw = {"fail": (k, r.choice(["ValueError", "KeyboardInterrupt", "BaseException", "ZeroDivisionError"])),
          "lim": r.choice([30, 60, 120])}
    u = r.random()
    if u < 0.3:
        j = k - 1 if u < 0.15 else r.randint(1, k - 1)
        parts, rem = [], j
        while rem > 0:
            a = r.randint(1, rem); parts.append(a); rem -= a
        kw["ops"] = [f"sv.iter {a}" for a in parts] + ["sv.dump", "sv.solve", "sv.result", "sv.dump"]
    elif u < 0.5 and k >= 3:
        kw["lim"] = k - 1
        kw["eps"] = 1e-4
        kw["ops"] = ["sv.solve", "sv.result", f"sv.setparams {k + r.choice([1, 5, 40])} {f2h(1e-4)}", "sv.solve", "sv.result", "sv.dump",
                     "sv.solve", "sv.result"]
    return kw


def refine(r, i):
    n = r.choice([1, 2, 2, 3, 4, 5])
    spec = r.choice([{"kind": "linear", "c": [round(r.uniform(-2, 2), 2) for _ in range(n)]},
                     {"kind": "quad", "p": [round(r.uniform(-0.8, 1.8), 3) for _ in range(n)]},
                     objectives.gen_spec(r, n)])
    return {"n": n, "spec": spec, "refine": True, "lim": r.choice([40, 100, 300, 600])}


def density(r, i):
    n = r.choice([2, 3, 4, 5])
    m = r.randint(2, min(12, 60 // n))
    return {"n": n, "m": m, "lim": r.choice([20, 50, 120])}


def batch(r, i):
    # a random composition of k into DoGlobalIteration batches, then Solve twice
    k = r.randint(1, 9)
    parts = []
    rem = k
    while rem > 0:
        a = r.randint(1, rem); parts.append(a); rem -= a
    ops = [f"sv.iter {a}" for a in parts] + ["sv.dump", "sv.solve", "sv.result", "sv.solve", "sv.result", "sv.dump"]
    return {"ops": ops, "lim": r.choice([5, 12, 40, 100])}


def small(r, i):
    return {"lim": r.choice([1, 1, 2, 2, 3, 4, 10]), "eps": r.choice([0.5, 1.0, 1.5, 0.3, 0.1]),
            "ops": r.choice([["sv.solve", "sv.dump", "sv.result"], ["sv.iter 1", "sv.solve", "sv.result", "sv.solve", "sv.result"]])}


def record(r, i):
    return {"ops": ["sv.iter 1", "sv.dump"] * r.randint(3, 40) + ["sv.solve", "sv.dump", "sv.result"], "lim": r.choice([60, 200])}


def resume(r, i):
    """Solve, change itersLimit / eps of the parameters object in place, Solve again (several times)"""
    from common import f2h
    lim = r.choice([1, 2, 3, 5, 8, 17, 40])
    eps = r.choice([0.5, 0.3, 0.1, 0.05, 0.02])
    ops = [r.choice(["sv.solve", "sv.iter 2", "sv.iter 1"]), "sv.result"]
    for _ in range(r.randint(1, 3)):
        lim = max(1, lim + r.choice([0, 1, 3, 10, 40, -2]))
        eps = eps * r.choice([1.0, 0.5, 0.1, 2.0])
        ops += [f"sv.setparams {lim} {f2h(eps)}", "sv.solve", "sv.result"]
        if r.random() < 0.3:
            ops.append("sv.dump")
    return {"ops": ops + ["sv.dump"], "lim": r.choice([1, 2, 3, 5, 8, 17]), "eps": r.choice([0.5, 0.3, 0.1, 0.05])}


VARIANTS = {"solver": default, "solver_fail": fail, "solver_refine": refine, "solver_density": density,
            "solver_batch": batch, "solver_small": small, "solver_record": record, "solver_resume": resume}
