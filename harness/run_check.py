#!/venv/bin/python
"""Entry point of every registered check:  run_check.py --property Cxx [--tier quick|thorough] | --replay <path>

Pipeline (DESIGN.md §1.5):
  0. replays of repaired defects listed for the property (corpus/fixed) - a returning defect is a violation
  1. regenerate lean/IOptGen from /repo (translator), build the property's Lean modules + the driver
  2. audit: forbidden constructs, `#print axioms` of every theorem of the property's modules
  3. correspondence: model (compiled Lean driver, Float instance) vs implementation, bit for bit
  4. direct oracle on the implementation (the failing-input search; always run, deeper when 1-3 broke)
  5. verdict, evidence/<id>.json
Exit 0 = property held on everything explored, 1 = VIOLATION line printed, 2 = infrastructure problem.
"""
import argparse, importlib, json, os, re, subprocess, sys, time, traceback

sys.path.insert(0, os.path.dirname(os.path.abspath(__file__)))
from common import *
import common

INDEX = json.load(open(os.path.join(VERIF, "props_index.json")))

TRUSTED_BASE = [
    "Lean 4.33.0 kernel; axioms propext, Classical.choice, Quot.sound only (audited with #print axioms on every run)",
    "hand-written model lean/IOptModel/*.lean: tied to /repo by the bit-exact correspondence run of this check (differential testing, not proof)",
    "translator harness/translate.py (regenerated data, finite tables, syntactic facts) and the Python harness itself",
    "floating point: theorems speak about exact (ordered-field / real) arithmetic on the expression trees that the code evaluates in doubles; rounding, overflow and NaN are compared by the correspondence but not covered by theorems",
    "same libm for Lean Float and CPython (self-tested at the start of every run)",
    "third-party code as parameters with recorded contracts: depq.DEPQ (stable descending insert / pop head / drop tail), scipy Nelder-Mead (bounds respected, returns best evaluated point), numpy copy semantics",
]


def log(*a):
    print("[check]", *a, flush=True)


# ---------------------------------------------------------------------------------------------
def corpus_step(pid):
    """replays of repaired defects: a replay exiting 1 means the defect is back"""
    bad = []
    ran = []
    for e in load_known():
        if e["status"] == "fixed" and pid in e["properties"]:
            path = os.path.join(VERIF, e["replay"])
            r = subprocess.run([PY, path, REPO], stdout=subprocess.PIPE, stderr=subprocess.STDOUT, text=True, timeout=600,
                               env=dict(os.environ, IOPT_REPO=REPO, PYTHONDONTWRITEBYTECODE="1"))
            ran.append(e["id"])
            if r.returncode == 1:
                bad.append({"finding": e["id"], "replay_script": path, "output": r.stdout[-1500:], "was_fixed_in": e["commit"]})
            elif r.returncode != 0:
                raise Infra(f"corpus replay {path} crashed: {r.stdout[-800:]}")
    return ran, bad


def theorem_names(module):
    """fully qualified names of all theorems declared in a Lean module of this project"""
    path = os.path.join(LEAN, module.replace(".", "/") + ".lean")
    if not os.path.exists(path):
        return None
    src = common._strip_comments(open(path, encoding="utf-8").read())
    ns, names = [], []
    for line in src.split("\n"):
        m = re.match(r"\s*namespace\s+(\S+)", line)
        if m:
            ns.append(m.group(1)); continue
        m = re.match(r"\s*end\s+(\S+)", line)
        if m and ns and ns[-1].split(".")[-1] == m.group(1).split(".")[-1]:
            ns.pop(); continue
        if re.match(r"\s*(?:@\[[^\]]*\]\s*)?private\s+", line):
            continue      # private helper lemmas cannot be named from outside; they are covered through their users
        m = re.match(r"\s*(?:@\[[^\]]*\]\s*)?(?:protected\s+)?(?:noncomputable\s+)?theorem\s+([^\s:({\[]+)", line)
        if m:
            nm = m.group(1)
            if nm.startswith("_root_."):
                names.append(nm[len("_root_."):])
            else:
                names.append(".".join(ns + [nm]))
    return names


_TIER = ["quick"]


def tier_is_thorough():
    return _TIER[0] == "thorough"


def lean_step(pid, cfg, res):
    """translator, build, audit. Fills res['obligations'], res['broken'] (list of strings)."""
    import translate
    t0 = time.time()
    gen = cfg.get("gen", [])
    pre_broken = []
    if gen:
        try:
            changed = translate.regenerate(set(gen) | {"Dy.lean"})
        except (Infra, subprocess.TimeoutExpired, KeyboardInterrupt, SystemExit):
            raise
        except BaseException as e:        # noqa - the code under /repo could not be read/constructed by the translator
            tb = traceback.format_exc().strip().split("\n")
            pre_broken.append(f"translator could not regenerate {sorted(gen)} from /repo: {type(e).__name__}: {str(e)[:200]} | {' | '.join(tb[-3:])[:300]}")
            changed = []
        res["regenerated"] = gen
        res["regenerated_changed"] = changed
    res["translate_s"] = round(time.time() - t0, 1)
    modules = cfg.get("modules", [])
    targets = ["driver"] + modules + cfg.get("gen_modules", [])
    ok, out, dt = lake_build(targets)
    res["build_s"] = round(dt, 1)
    broken = list(pre_broken)
    if not ok:
        errs = [l for l in out.split("\n") if "error" in l.lower()][:12]
        broken.append("lake build failed: " + " | ".join(errs))
        # can the driver alone still be built (needed for the correspondence)?
        ok2, out2, _ = lake_build(["driver"])
        if not ok2:
            raise Infra("the Lean driver does not build: " + out2[-1500:])
    hits = grep_forbidden()
    if hits:
        broken.append("forbidden construct in Lean sources: " + "; ".join(hits[:5]))
    # obligations = all theorems of the property's modules; headline theorems must be among them
    thms = []
    for m in modules:
        names = theorem_names(m)
        if names is None:
            broken.append(f"module {m} is missing")
        else:
            thms += [(m, n) for n in names]
    declared = {n for _, n in thms}
    for h in cfg.get("headline", []):
        if h not in declared:
            broken.append(f"headline theorem {h} is no longer declared in {modules}")
    discharged = 0
    ax_report = {}
    if ok and thms:
        axs, raw = audit_axioms([n for _, n in thms], modules)
        for _, n in thms:
            if n not in axs:
                broken.append(f"theorem {n} could not be audited (#print axioms gave no answer)")
            elif set(axs[n]) - STD_AXIOMS:
                broken.append(f"theorem {n} depends on non-standard axioms {sorted(set(axs[n]) - STD_AXIOMS)}")
            else:
                discharged += 1
                ax_report[n] = axs[n]
    if ok and tier_is_thorough() and modules:
        # independent re-check of the compiled modules (replays every declaration through the kernel)
        t1 = time.time()
        rc_, out_ = common._run(["lake", "env", "leanchecker"] + modules, cwd=LEAN, timeout=3600)
        res["leanchecker"] = {"modules": modules, "ok": rc_ == 0, "wall_s": round(time.time() - t1, 1)}
        if rc_ != 0:
            broken.append("leanchecker rejected the compiled modules: " + out_[-400:])
    res["obligations"] = len(thms) + len(cfg.get("headline_extra", []))
    res["discharged"] = discharged
    res["theorems"] = [n for _, n in thms]
    res["axioms"] = ax_report
    res["broken"] = broken
    return res


def corr_step(pid, cfg, res, tier, deep):
    import streams
    r = rng(pid + ":corr")
    n, bad = streams.libm_selftest(1500)
    if bad:
        raise Infra(f"libm self-test failed ({len(bad)} of {n}): Lean Float and CPython disagree, e.g. {bad[0]}")
    res["libm_selftest"] = n
    out = {}
    mism = []
    for st in cfg.get("streams", []):
        t0 = time.time()
        try:
            o = _one_stream(st, r, tier, cfg)
        except (Infra, subprocess.TimeoutExpired, KeyboardInterrupt, SystemExit):
            raise
        except BaseException as e:       # noqa - the implementation reached a state the observer cannot handle
            tb = traceback.format_exc().strip().split("\n")
            res["broken"].append(f"correspondence stream {st} could not observe the implementation: {type(e).__name__}: {str(e)[:200]} | {' | '.join(tb[-4:])[:400]}")
            out[st] = {"evaluations": 0, "mismatches": [], "crashed": f"{type(e).__name__}: {str(e)[:200]}", "wall_s": round(time.time() - t0, 1)}
            continue
        o["wall_s"] = round(time.time() - t0, 1)
        mism += o["mismatches"]
        o["mismatches"] = [m.to_json() for m in o["mismatches"][:5]]
        out[st] = o
    res["correspondence"] = out
    res["corr_evaluations"] = sum(o["evaluations"] for o in out.values())
    res["corr_mismatches"] = len(mism)
    if mism:
        res["broken"].append(f"correspondence: {len(mism)} mismatching cases, first: stream={mism[0].stream} cmd={mism[0].line[:80]}")
    return mism


def _one_stream(st, r, tier, cfg):
    import streams
    if True:
        if st == "evolvent":
            o = streams.corr_evolvent(r, tier)
        elif st == "searchdata":
            o = streams.corr_sd(r, tier)
        elif st == "problems":
            import problems_stream
            o = problems_stream.run(tier, r)
            o["mismatches"] = [streams.Mismatch("problems", {"family": m[0][0], "args": m[0][1], "x": m[0][2]}, 0, "pb", m[1], m[2]) for m in o["mismatches"]]
            o["samples"] = [o.pop("sample")]
        elif st == "evobj":
            o = streams.corr_eo(r, tier)
        elif st in ("world", "probworld"):
            mod = importlib.import_module(f"{st}_stream")
            o = mod.corr(r, tier)
            o["mismatches"] = [streams.Mismatch(st, m.get("script", m), 0, str(m.get("command", "")), str(m.get("model", m.get("model_output", ""))), str(m.get("impl", m.get("implementation_output", "")))) for m in o["mismatches"]]
        elif st.startswith("solver"):
            import solver_variants
            ncases = cfg.get("solver_cases", {}).get(tier, 60 if tier == "quick" else 600)
            o = streams.corr_solver(r, ncases, case_fn=solver_variants.VARIANTS[st])
        else:
            raise Infra(f"unknown stream {st}")
        return o


def oracle_step(pid, tier, deep):
    try:
        mod = importlib.import_module(f"oracles.{pid.lower()}")
    except ModuleNotFoundError:
        return None
    r = rng(pid + ":oracle")
    t0 = time.time()
    try:
        if deep and tier == "quick":
            # deep search started from the quick tier: the ordinary quick schedule first (complete: every family of cases of the
            # oracle gets its share), then the thorough schedule for a bounded time (its long exhaustive stages must not starve
            # the families that come after them)
            o = mod.run("quick", r)
            if not o.get("violations"):
                common.set_oracle_cap(float(os.environ.get("VERIF_DEEP_S", "300")))
                o2 = mod.run("thorough", rng(pid + ":oracle:deep"))
                for k_ in ("explored", "distinct_nontrivial"):
                    if isinstance(o.get(k_), (int, float)) and isinstance(o2.get(k_), (int, float)):
                        o2[k_] = o2[k_] + o[k_]
                o2["known"] = list(o.get("known", [])) + list(o2.get("known", []))
                o2["quick_stage"] = {"explored": o.get("explored"), "stats": o.get("stats")}
                o = o2
        else:
            o = mod.run(tier, r)
    except (Infra, subprocess.TimeoutExpired, KeyboardInterrupt, SystemExit):
        raise
    except BaseException as e:           # noqa - the oracle itself could not cope with what the implementation did
        tb = traceback.format_exc().strip().split("\n")
        viols = []
        try:
            import impl as _impl
            where = _impl._raised_in_library(e)
        except Exception:       # noqa
            where = ""
        if where:
            # the LIBRARY's own code raised on an input the oracle generated (all of them are legitimate inputs): a concrete failing
            # input - the case being run is what the last heartbeat recorded
            viols.append({"clause": "the implementation raised on an input generated by the oracle", "raised": f"{type(e).__name__}: {str(e)[:300]}",
                          "raised_at": where, "during": common.HEART.get("what"), "input": common.HEART.get("detail"),
                          "traceback_tail": tb[-6:]})
        return {"explored": 0, "violations": viols, "crashed": f"{type(e).__name__}: {str(e)[:200]} | {' | '.join(tb[-4:])[:400]}",
                "wall_s": round(time.time() - t0, 1)}
    o["wall_s"] = round(time.time() - t0, 1)
    common.set_oracle_cap(None)
    return o


def match_known(pid, viol):
    for e in load_known():
        if e["status"] == "known" and pid in e["properties"]:
            if viol.get("known_key") == e["key"] or viol.get("key") == e["key"]:
                return e
    return None


def start_hang_watchdog(pid, tier, t0):
    """a daemon thread: when the implementation has been inside ONE call for longer than the allowance (no heartbeat from the
    stream / oracle that called it), report the call as the failing input and end the process - an endless loop in the code under
    test cannot be interrupted from inside (it may even swallow alarms with `except BaseException`)"""
    import threading
    import common

    def watch():
        while True:
            time.sleep(5)
            h = common.HEART
            if not h["armed"] or h["t"] is None:
                continue
            allow = h.get("allow") or common.HANG_S * (2 if tier == "thorough" else 1)
            idle = time.time() - h["t"]
            if idle <= allow:
                continue
            # ... and the process really is busy: a call that loops for ever burns CPU; on a heavily loaded machine a healthy call may
            # need much more wall time than usual, but then it has not been given the CPU either (steps that wait for a child
            # process carry their own allowance)
            if h.get("allow") is None and time.process_time() - h.get("cpu", 0.0) < 0.6 * allow:
                continue
            payload = {"property": pid, "violations": [{
                "kind": "the implementation does not return",
                "what": h["what"], "seconds_without_return": round(idle), "allowance_s": allow,
                "input": h["detail"],
                "note": "the Lean model answers this input at once (every model function is total); the implementation was still "
                        "inside this one call when the allowance ran out. Replay: run the script / case under `input`."}]}
            try:
                path = write_replay(pid, f"hang_{SEED}", payload)
                write_evidence(pid, tier, "proof", {
                    "obligations": 0, "discharged": 0, "evaluations": 1, "distinct_nontrivial": 0,
                    "rule": "hang watchdog: the check ended because one implementation call did not return",
                    "samples": [h["what"]], "exhaustive": False, "broken_obligations": ["implementation call does not return: " + str(h["what"])],
                    "checker_cmd": "n/a (run ended by the hang watchdog)", "trusted_base": TRUSTED_BASE, "theorems": [], "headline": [],
                }, INDEX[pid].get("assumptions", []), time.time() - t0, violations=1)
            except BaseException as e:     # noqa
                path = f"(could not write the replay: {e})"
            # the call may be running under contextlib.redirect_stdout: write to the real stdout
            sys.__stdout__.write(f"VIOLATION property={pid} replay={path}\n")
            sys.__stdout__.flush()
            os._exit(1)
    th = threading.Thread(target=watch, name="hang-watchdog", daemon=True)
    th.start()


def run_property(pid, tier):
    t0 = time.time()
    _TIER[0] = tier
    start_hang_watchdog(pid, tier, t0)
    cfg = INDEX[pid]
    res = {"broken": []}
    violations = []      # (replay payload)
    known_lines = []
    # 0 corpus
    ran, bad = corpus_step(pid)
    res["corpus_replays"] = ran
    for b in bad:
        violations.append({"kind": "repaired defect has returned", **b})
    # source shape: functions of the property's files that differ from the source the model was validated against
    import srcshape
    res["source_changed"] = srcshape.changed(REPO, pid)
    if res["source_changed"]:
        log(f"source differs from the validated record in {res['source_changed'][:6]}: searching with the thorough oracle budget")
    # 1-2 lean
    lean_step(pid, cfg, res)
    # line coverage of the property's source files during correspondence + oracle (what the differential tie has seen)
    import covmon
    cov_on = covmon.start(REPO)
    # 3 correspondence
    import common
    common.arm(True)
    mism = corr_step(pid, cfg, res, tier, False)
    # a generated command (all of them are legitimate inputs) on which the LIBRARY's own code raises while the model returns a value is
    # a concrete failing input in itself
    for m in mism:
        if isinstance(m.impl, str) and m.impl.startswith("impl-error:") and "@iOpt/" in m.impl and not str(m.model).startswith("impl-error"):
            violations.append({"kind": "the implementation raises on an input for which the model returns a value",
                               "stream": m.stream, "command": m.line, "case": m.case, "implementation": m.impl, "model": str(m.model)[:300]})
            if len([v for v in violations if v["kind"].startswith("the implementation raises")]) >= 5:
                break
    deep = bool(res["broken"]) or bool(res["source_changed"])
    # 4 oracle
    o = oracle_step(pid, tier, deep)
    if o is not None:
        if o.get("crashed"):
            res["broken"].append("the direct oracle could not observe the implementation: " + o["crashed"])
        for v in o.get("violations", []):
            violations.append({"kind": "property violated on the implementation", **v})
        for k in o.get("known", []):
            e = match_known(pid, k)
            if e:
                known_lines.append(f"KNOWN-FINDING: property={pid} {e['id']} {e['what']} (cases this run: 1) witness={json.dumps(k.get('case', k), default=str)[:300]}")
            else:
                violations.append({"kind": "property violated on the implementation (unlisted)", **k})
        res["oracle"] = {k: o[k] for k in o if k not in ("violations", "known")}
        res["oracle"]["violations"] = len(o.get("violations", []))
        res["oracle"]["known"] = len(o.get("known", []))
    common.arm(False)
    if cov_on:
        covmon.stop()
        files = sorted(set(srcshape.anchors().get(pid, [])) | set(srcshape.EXTRA.get(pid, [])))
        res["impl_coverage"] = covmon.report(REPO, files)
    wall = time.time() - t0
    # verdict
    rc = 0
    if violations:
        path = write_replay(pid, f"violation_{SEED}", {"property": pid, "violations": violations[:20], "broken_obligations": res["broken"],
                                                       "mismatches": [m.to_json() for m in mism[:5]]})
        print(f"VIOLATION property={pid} replay={path}")
        rc = 1
    elif res["broken"]:
        path = write_replay(pid, f"unproved_{SEED}", {"property": pid, "no_longer_checks": res["broken"],
                                                      "mismatches": [m.to_json() for m in mism[:5]],
                                                      "search": res.get("oracle", "no direct oracle available"),
                                                      "note": "a proof obligation or the model/code correspondence broke; the failing-input search found no input violating the property"})
        print(f"VIOLATION property={pid} replay={path} no-failing-input-found")
        rc = 1
    for l in sorted(set(known_lines)):
        print(l)
    # evidence
    samples = []
    for st, oo in res.get("correspondence", {}).items():
        samples += [{"stream": st, "case": s} for s in oo.get("samples", [])[:2]]
    if res.get("oracle"):
        samples += [{"oracle": s} for s in res["oracle"].get("samples", [])[:2]]
    samples += [{"theorem": t} for t in res.get("theorems", [])[:3]]
    evals = res.get("corr_evaluations", 0) + (res.get("oracle", {}) or {}).get("explored", 0)
    distinct = (res.get("oracle", {}) or {}).get("distinct_nontrivial", 0) + sum(
        v.get("distinct", 0) for v in res.get("correspondence", {}).values())
    cov = {
        "obligations": res.get("obligations", 0), "discharged": res.get("discharged", 0),
        "checker_cmd": "cd lean && lake build " + " ".join(["driver"] + cfg.get("modules", [])) + "  # then #print axioms on every theorem listed below",
        "trusted_base": TRUSTED_BASE + cfg.get("trusted_extra", []),
        "theorems": res.get("theorems", []),
        "headline": cfg.get("headline", []),
        "missing_or_partial": cfg.get("missing", []),
        "evaluations": max(evals, 1), "distinct_nontrivial": max(distinct, 2 if evals > 1 else 0),
        "rule": "correspondence: generated scripts compared bit-for-bit between the Lean model driver and the implementation (distinct = distinct scripts/commands/cases, all of them exercise model and implementation); oracle: " + ((res.get("oracle") or {}).get("rule", "n/a")),
        "samples": samples[:8] or ["none"],
        "exhaustive": False,
        "correspondence": {k: {kk: vv for kk, vv in v.items() if kk != "samples"} for k, v in res.get("correspondence", {}).items()},
        "oracle": {k: v for k, v in (res.get("oracle") or {}).items() if k != "samples"},
        "regenerated": res.get("regenerated", []), "corpus_replays": res.get("corpus_replays", []),
        "broken_obligations": res["broken"], "build_s": res.get("build_s"), "translate_s": res.get("translate_s"),
        "leanchecker": res.get("leanchecker"), "source_changed": res.get("source_changed", []),
        "impl_line_coverage": res.get("impl_coverage", {}),
        "known_findings_printed": sorted(set(known_lines)),
        "hang_watchdog": {"allowance_s": common.HANG_S * (2 if tier == "thorough" else 1),
                          "longest_step_s": round(common.HEART.get("maxgap", 0.0), 1), "longest_step": common.HEART.get("maxgap_what")},
    }
    write_evidence(pid, tier, "proof", cov, cfg.get("assumptions", []), wall, violations=len(violations))
    log(f"{pid} {tier}: obligations {cov['obligations']} discharged {cov['discharged']}, corr evals {res.get('corr_evaluations', 0)} mismatches {res.get('corr_mismatches', 0)}, "
        f"oracle explored {(res.get('oracle') or {}).get('explored', 0)}, violations {len(violations)}, broken {len(res['broken'])}, {wall:.0f}s")
    return rc


def do_replay(path):
    data = json.load(open(path)) if path.endswith(".json") else None
    if data is None:
        r = subprocess.run([PY, path, REPO])
        return r.returncode
    pid = data["property"]
    out = []
    try:
        mod = importlib.import_module(f"oracles.{pid.lower()}")
    except ModuleNotFoundError:
        mod = None
    for v in data.get("violations", []):
        sc = (v.get("input") or {}).get("script_up_to_the_command_that_does_not_return") if isinstance(v.get("input"), dict) else None
        if sc:
            # a hang found by the watchdog: run the script on the implementation in a child process with the same allowance
            code = "import sys, json; sys.path.insert(0, %r); import impl; impl.run_impl(json.load(sys.stdin)); print('returned')" % os.path.dirname(os.path.abspath(__file__))
            try:
                r = subprocess.run([PY, "-c", code], input=json.dumps(sc), text=True, stdout=subprocess.PIPE, stderr=subprocess.PIPE,
                                   timeout=float(v.get("allowance_s", 150)))
                out.append({"hang": False, "reproduced": False, "stdout": r.stdout[-200:]})
            except subprocess.TimeoutExpired:
                out.append({"hang": True, "reproduced": True})
            continue
        if "replay_script" in v:
            r = subprocess.run([PY, v["replay_script"], REPO])
            out.append({"script": v["replay_script"], "exit": r.returncode})
        elif mod is not None and hasattr(mod, "replay"):
            out.append(mod.replay(v))
    print(json.dumps(out, indent=1, default=str))
    return 1 if any(o.get("reproduced") or o.get("exit") == 1 for o in out) else 0


def main():
    ap = argparse.ArgumentParser()
    ap.add_argument("--property")
    ap.add_argument("--tier", default=os.environ.get("VERIF_TIER", "quick"))
    ap.add_argument("--replay")
    a = ap.parse_args()
    try:
        if a.replay:
            sys.exit(do_replay(a.replay))
        sys.exit(run_property(a.property, a.tier))
    except Infra as e:
        print("INFRASTRUCTURE:", e)
        sys.exit(2)
    except subprocess.TimeoutExpired as e:
        print("INFRASTRUCTURE: timeout", e)
        sys.exit(2)
    except Exception:
        traceback.print_exc()
        sys.exit(2)


if __name__ == "__main__":
    main()
