"""Objective families for the solver-level correspondence and the failing-input searches.
Every objective is described by a JSON-able spec and evaluates in plain Python floats.
For several families the exact global minimum over the box and an exact Lipschitz constant
(w.r.t. the box normalised to unit side, Euclidean norm) are known in closed form."""
import math


def pwl(knots, t):
    """piecewise linear through sorted knots [(t_i, v_i)], clamped outside"""
    if t <= knots[0][0]:
        return knots[0][1]
    for (a, va), (b, vb) in zip(knots, knots[1:]):
        if t <= b:
            return va + (vb - va) * (t - a) / (b - a)
    return knots[-1][1]


def make(spec, lower, upper):
    """returns f(y: sequence of float) -> float"""
    k = spec["kind"]
    n = len(lower)
    side = [u - l for l, u in zip(lower, upper)]

    def unit(y):
        return [(float(y[i]) - lower[i]) / side[i] for i in range(n)]
    if k == "const":
        c = spec["c"]
        return lambda y: c
    if k == "band":          # a huge (finite or infinite) penalty value on a band of the first coordinate, g elsewhere
        g = make(spec["of"], lower, upper)
        a, w, big = spec["a"], spec["w"], spec["big"]
        return lambda y: (big if a < unit(y)[0] < a + w else g(y))
    if k == "npgauss":       # a Gaussian well computed with numpy scalars: far from the centre np.exp underflows (harmlessly) to 0
        import numpy as _np
        c, kk, tr = spec["c"], spec["k"], spec.get("trend", 0.1)

        def f(y):
            u = unit(y)
            d2 = _np.float64(sum((t - ci) ** 2 for t, ci in zip(u, c)))
            return float(tr * u[0] - _np.exp(_np.float64(-kk) * d2) + _np.float64(1e-300) * _np.float64(1e-300) * d2)
        return f
    if k == "ticks":         # integer-valued costs BEYOND 2**53 (Python ints): neighbouring values round to the same double
        g = make(spec["of"], lower, upper)
        base, sc = int(spec["base"]), spec["scale"]
        return lambda y: base + int(round(sc * g(y)))
    if k == "offset":        # c + s * g(y): values that are large compared with their variation
        g = make(spec["of"], lower, upper)
        c, sc = spec["c"], spec["s"]
        return lambda y: c + sc * g(y)
    if k == "linear":
        cs = spec["c"]
        return lambda y: sum(c * t for c, t in zip(cs, unit(y)))
    if k == "pwlsum":        # sum_i pwl_i(t_i)
        ks = spec["knots"]
        return lambda y: sum(pwl(ks[i], t) for i, t in enumerate(unit(y)))
    if k == "pwlmax":        # max_i pwl_i(t_i)
        ks = spec["knots"]
        return lambda y: max(pwl(ks[i], t) for i, t in enumerate(unit(y)))
    if k == "cone":          # c * ||t - p||_2
        p, c = spec["p"], spec["c"]
        return lambda y: c * math.sqrt(sum((t - pi) ** 2 for t, pi in zip(unit(y), p)))
    if k == "trig":
        a, w, ph = spec["a"], spec["w"], spec["ph"]
        return lambda y: sum(ai * math.sin(wi * t + pi) for ai, wi, pi, t in zip(a, w, ph, unit(y)))
    if k == "quad":
        p = spec["p"]
        return lambda y: sum((t - pi) ** 2 for t, pi in zip(unit(y), p))
    if k == "plateau":       # many equal values: floor(q * g) / q of a trig objective
        g = make(spec["of"], lower, upper)
        q = spec["q"]
        return lambda y: math.floor(q * g(y)) / q
    if k == "needle":        # linear trend minus narrow spikes: t0 - sum h_j * max(0, w_j - |t0 - c_j|)
        sp = spec["spikes"]
        tr = spec.get("trend", 1.0)

        def f(y):
            t = unit(y)
            return tr * t[0] - sum(h * max(0.0, w - abs(t[0] - c)) for c, w, h in sp)
        return f
    raise ValueError(k)


def exact_min_and_L(spec, n):
    """(global minimum over the unit box, Lipschitz constant in the Euclidean norm) or None"""
    k = spec["kind"]
    if k == "const":
        return spec["c"], 0.0
    if k == "offset":
        inner = exact_min_and_L(spec["of"], n)
        if inner is None or spec["s"] <= 0:
            return None
        return spec["c"] + spec["s"] * inner[0], spec["s"] * inner[1]
    if k == "linear":
        return sum(min(0.0, c) for c in spec["c"]), math.sqrt(sum(c * c for c in spec["c"]))
    if k in ("pwlsum", "pwlmax"):
        ks = spec["knots"]
        slopes = [max(abs((vb - va) / (b - a)) for (a, va), (b, vb) in zip(kk, kk[1:])) for kk in ks]
        mins = [min(v for _, v in kk) for kk in ks]
        if k == "pwlsum":
            return sum(mins), math.sqrt(sum(s * s for s in slopes))
        return max(mins), max(slopes)
    if k == "cone":
        return 0.0, abs(spec["c"])
    if k == "needle" and n == 1:
        sp = spec["spikes"]
        tr = spec.get("trend", 1.0)
        f = make(spec, [0.0], [1.0])
        cand = [0.0, 1.0] + [c for c, _, _ in sp] + [c - w for c, w, _ in sp] + [c + w for c, w, _ in sp]
        cand = [min(1.0, max(0.0, t)) for t in cand]
        # spikes are assumed not to overlap (generator guarantees it)
        return min(f([t]) for t in cand), max([abs(tr)] + [abs(tr) + h for _, _, h in sp])
    return None


def gen_spec(r, n, exact_only=False):
    """random objective spec for dimension n from random.Random r"""
    def knots():
        m = r.randint(2, 6)
        ts = sorted({0.0, 1.0} | {round(r.random(), 3) for _ in range(m)})
        return [(t, round(r.uniform(-3, 3), 3)) for t in ts]
    kinds = ["pwlsum", "pwlmax", "cone", "linear"] + ([] if exact_only else ["trig", "quad", "plateau", "const", "trig"])
    if n == 1:
        kinds.append("needle")
    k = r.choice(kinds)
    if k == "const":
        return {"kind": k, "c": round(r.uniform(-2, 2), 2)}
    if k == "linear":
        return {"kind": k, "c": [round(r.uniform(-2, 2), 2) for _ in range(n)]}
    if k in ("pwlsum", "pwlmax"):
        return {"kind": k, "knots": [knots() for _ in range(n)]}
    if k == "cone":
        return {"kind": k, "p": [round(r.random(), 3) for _ in range(n)], "c": round(r.uniform(0.2, 4), 2)}
    if k == "trig":
        return {"kind": k, "a": [round(r.uniform(-2, 2), 2) for _ in range(n)],
                "w": [round(r.uniform(1, 25), 2) for _ in range(n)], "ph": [round(r.uniform(0, 6), 2) for _ in range(n)]}
    if k == "quad":
        return {"kind": k, "p": [round(r.uniform(-0.5, 1.5), 3) for _ in range(n)]}
    if k == "plateau":
        return {"kind": k, "q": r.choice([1, 2, 4]), "of": gen_spec_trig(r, n)}
    if k == "needle":
        sp = []
        for _ in range(r.randint(1, 3)):
            c = round(r.uniform(0.05, 0.95), 4)
            w = round(r.uniform(0.002, 0.04), 4)
            if all(abs(c - c2) > w + w2 + 1e-3 for c2, w2, _ in sp):
                sp.append((c, w, round(r.uniform(0.5, 12), 2)))
        return {"kind": k, "spikes": sp, "trend": round(r.uniform(-1, 1), 2)}


def gen_spec_trig(r, n):
    return {"kind": "trig", "a": [round(r.uniform(-2, 2), 2) for _ in range(n)],
            "w": [round(r.uniform(1, 25), 2) for _ in range(n)], "ph": [round(r.uniform(0, 6), 2) for _ in range(n)]}
