"""Correspondence of the coefficient generators inside the model (lean/IOptModel/Generators.lean, `gn.` commands)
with the real iOpt code, bit for bit:

* Grishagin: `GrishaginFunction(fn)` / `Grishagin(fn).function` coefficient matrices af, bf, cf, df and the
  register `icnf`, `rndm20` on arbitrary registers;
* GKLS: `GKLSRandomGenerator.Initialize(seed, …)` + `GenerateNextNumbers()` (Knuth's ranf_start / ranf_array), the
  seed formula of `GKLSFunction.GKLS_initialize_rnd`, and the paraboloid vertex `local_min[0]` of `GKLS(dim, nf)`.

One input line = one command = one output line.  `corr(r, tier)` runs the same scripts through the compiled Lean
driver and through the interpreter below and compares the output lines literally.
"""
import os, subprocess
from concurrent.futures import ThreadPoolExecutor, ProcessPoolExecutor
import multiprocessing
from common import *
ensure_repo_on_path()
import numpy as np

PREFIX = "gn."
NMIN = 10          # GKLS.num_minima of the shipped problem class


# ---------------------------------------------------------------------------------------------
# implementation side
# ---------------------------------------------------------------------------------------------
class Impl:
    """interpreter of the `gn.` commands on the real classes"""

    def __init__(self):
        import iOpt.problems.grishagin_function.grishagin_generation as gg
        self.gg = gg
        self.saved_matcon = gg.matcon

    def close(self):
        self.gg.matcon = self.saved_matcon

    # -- helpers
    def _grish(self, fn, calls):
        if calls == 1:
            from iOpt.problems.grishagin_function.grishagin_function import GrishaginFunction
            return GrishaginFunction(fn)
        if calls == 2:
            from iOpt.problems.grishagin import Grishagin
            return Grishagin(fn).function
        raise ValueError

    def _generator(self, seed):
        from iOpt.problems.GKLS_function.gkls_random import GKLSRandomGenerator
        g = GKLSRandomGenerator()
        rnd_num = np.zeros(GKLSRandomGenerator.NUM_RND, dtype=np.double)
        cond = np.zeros(GKLSRandomGenerator.KK, dtype=np.double)
        g.Initialize(seed, rnd_num, cond)
        return g

    def step(self, line):
        t = line.split()
        op = t[0]
        if op == "gn.matcon":
            rows = int(t[1]); bits = [int(b) for b in t[2:]]
            if len(bits) != rows * 45 or any(b not in (0, 1) for b in bits):
                return "bad-op"
            # the table the code reads is a module attribute; the script's table must be the repo's own table
            table = [bits[45 * i:45 * i + 45] for i in range(rows)]
            self.gg.matcon = table
            return "ok"
        if op in ("gn.grish", "gn.grishreg"):
            fn, calls = int(t[1]), int(t[2])
            if calls not in (1, 2):
                return "bad-op"
            g = self._grish(fn, calls)
            if op == "gn.grishreg":
                return " ".join(str(int(b)) for b in g.icnf)
            out = []
            for mat in (g.af, g.bf, g.cf, g.df):
                out += [float(mat[i][j]) for i in range(7) for j in range(7)]
            return fs2h(out)
        if op == "gn.rndm":
            from iOpt.problems.grishagin_function.grishagin_function import GrishaginFunction
            n = int(t[1]); bits = [int(b) for b in t[2:]]
            if len(bits) != 45 or any(b not in (0, 1) for b in bits):
                return "bad-op"
            g = GrishaginFunction(1)
            k = np.array(bits, dtype=np.dtype(int))
            vals = [float(g.rndm20(k)) for _ in range(n)]
            return fs2h(vals) + " | " + " ".join(str(int(b)) for b in k)
        if op in ("gn.knuth", "gn.knuth2"):
            seed, count = int(t[1]), int(t[2])
            g = self._generator(seed)
            g.GenerateNextNumbers()
            if op == "gn.knuth2":
                g.GenerateNextNumbers()
            return fs2h([g.GetRandomNumber(i) for i in range(min(count, len(g.rnd_num)))])
        if op == "gn.state":
            seed, b = int(t[1]), int(t[2])
            g = self._generator(seed)
            for _ in range(b):
                g.GenerateNextNumbers()
            return fs2h([g.GetGeneratorState(i) for i in range(len(g.ran_u))])
        if op == "gn.gkls":
            from iOpt.problems.GKLS_function.gkls_function import GKLSFunction
            dim, nmin, nf, count = int(t[1]), int(t[2]), int(t[3]), int(t[4])
            f = GKLSFunction()
            f.GKLS_initialize_rnd(dim, nmin, nf)
            f.mRndGenerator.GenerateNextNumbers()
            return fs2h([f.rnd_num[i] for i in range(min(count, len(f.rnd_num)))])
        if op == "gn.vertex":
            from iOpt.problems.GKLS import GKLS
            dim, nmin, nf = int(t[1]), int(t[2]), int(t[3])
            p = GKLS(dim, nf)
            if p.num_minima != nmin:
                return "bad-op"
            return fs2h([float(v) for v in p.function.GKLS_minima.local_min[0]])
        return "bad-op"


def run_impl(lines):
    im = Impl()
    out = []
    try:
        for ln in lines:
            try:
                out.append(im.step(ln))
            except Exception as e:  # an exception of the code under test is an observable outcome
                out.append("pyerror " + type(e).__name__)
    finally:
        im.close()
    return out


def _run_driver(lines):
    """the compiled driver of /verif/lean, or a private one named by GN_DRIVER while developing"""
    exe = os.environ.get("GN_DRIVER")
    if not exe:
        return run_model(lines)
    r = subprocess.run([exe], input="\n".join(lines) + "\n", stdout=subprocess.PIPE, stderr=subprocess.PIPE, text=True)
    if r.returncode != 0:
        raise Infra("driver crashed: " + r.stderr[-2000:])
    out = r.stdout.split("\n")
    if out and out[-1] == "":
        out.pop()
    if len(out) != len(lines):
        raise Infra(f"driver produced {len(out)} lines for {len(lines)} commands")
    return out


def _chunks(lines, size):
    return [lines[i:i + size] for i in range(0, len(lines), size)]


def _impl_chunk(args):
    header, chunk = args
    return run_impl(header + chunk)[len(header):]


def _model_chunk(args):
    header, chunk = args
    return _run_driver(header + chunk)[len(header):]


def run_both(header, lines, size):
    """both sides on `lines` (each chunk of `size` lines is a script of its own, started with the `header` lines);
    the chunks run concurrently (the commands after the header do not depend on each other)"""
    jobs = [(header, ch) for ch in _chunks(lines, size)]
    workers = max(1, min(8, (os.cpu_count() or 2) - 1))
    ctx = multiprocessing.get_context("fork")
    with ProcessPoolExecutor(max_workers=workers, mp_context=ctx) as pp, ThreadPoolExecutor(max_workers=workers) as tp:
        fi = [pp.submit(_impl_chunk, j) for j in jobs]
        fm = [tp.submit(_model_chunk, j) for j in jobs]
        io = [o for f in fi for o in f.result()]
        mo = [o for f in fm for o in f.result()]
    return mo, io


# ---------------------------------------------------------------------------------------------
# script generators
# ---------------------------------------------------------------------------------------------
def matcon_line():
    import iOpt.problems.grishagin_function.grishagin_generation as gg
    rows = [[int(b) for b in row] for row in gg.matcon]
    return f"gn.matcon {len(rows)} " + " ".join(str(b) for row in rows for b in row)


def gkls_seed(dim, nmin, nf):
    return (nf - 1) + (nmin - 1) * 100 + dim * 1000000


def script_grishagin(r, tier):
    """all 100 functions (object built once and through the problem class), plus out-of-range numbers (clamp)"""
    lines = []
    for fn in range(1, 101):
        lines.append(f"gn.grish {fn} 1")
    fns2 = range(1, 101) if tier == "thorough" else sorted(r.sample(range(1, 101), 15))
    for fn in fns2:
        lines.append(f"gn.grish {fn} 2")
    for fn in sorted(r.sample(range(1, 101), 10 if tier == "quick" else 40)):
        lines.append(f"gn.grishreg {fn} {r.choice((1, 2))}")
    for fn in (0, 101, 250):
        lines.append(f"gn.grish {fn} 1")
    return lines


def script_rndm(r, tier):
    """rndm20 on random registers (not only those reachable from matcon), including all-zero / all-one"""
    lines = []
    regs = [[0] * 45, [1] * 45, [1] + [0] * 44, [0] * 44 + [1], [0] * 9 + [1] * 36, [1] * 9 + [0] * 36]
    for _ in range(40 if tier == "quick" else 400):
        p = r.choice((0.5, 0.5, 0.1, 0.9))
        regs.append([1 if r.random() < p else 0 for _ in range(45)])
    # registers on which the 36-bit addition of `gen` carries out of position 9 (end-around carry): choose the
    # register k' after the first step (k'[i] = |k[i] - k[i+7]|) with k'[9..26] all ones and a carry generated at
    # position 27 (k'[27] = k'[0] = 1), then undo the first step
    for _ in range(8 if tier == "quick" else 60):
        kp = [r.randint(0, 1) for _ in range(45)]
        for i in range(9, 27):
            kp[i] = 1
        kp[27] = kp[0] = 1
        reg = kp[:]
        for i in range(37, -1, -1):
            reg[i] = kp[i] ^ reg[i + 7]
        regs.append(reg)
    for reg in regs:
        n = r.choice((1, 2, 3, 5, 17))
        lines.append(f"gn.rndm {n} " + " ".join(map(str, reg)))
    return lines


def script_knuth(r, tier):
    """the 400 seeds used by GKLS(dim 2..5, nf 1..100) (quick: 40 of them), first 64 numbers of the first two
    batches; the seed formula through GKLSFunction; the generator state; a few arbitrary seeds (masking to 30 bits)"""
    lines = []
    pairs = [(d, k) for d in (2, 3, 4, 5) for k in range(1, 101)]
    if tier != "thorough":
        pairs = sorted(r.sample(pairs, 40))
    for d, k in pairs:
        s = gkls_seed(d, NMIN, k)
        lines.append(f"gn.knuth {s} 64")
        lines.append(f"gn.knuth2 {s} 64")
        lines.append(f"gn.gkls {d} {NMIN} {k} 64")
    extra = [0, 1, 2, 3, 2 ** 30 - 3, 2 ** 30 - 1, 2 ** 30, 2 ** 30 + 5, 2 ** 31 + 7, 123456789]
    extra += [r.randrange(0, 2 ** 30) for _ in range(6 if tier == "quick" else 60)]
    for s in extra:
        lines.append(f"gn.knuth {s} {r.choice((1, 64, 101, 138, 1009))}")
        lines.append(f"gn.knuth2 {s} 64")
    for s in r.sample(extra, 4 if tier == "quick" else 20):
        lines.append(f"gn.state {s} {r.choice((0, 1, 2, 3))}")
    for _ in range(4 if tier == "quick" else 40):
        lines.append(f"gn.gkls {r.randint(2, 9)} {r.randint(2, 30)} {r.randint(1, 100)} 16")
    return lines


def script_vertex(r, tier):
    pairs = [(d, k) for d in (2, 3, 4, 5) for k in range(1, 101)]
    if tier != "thorough":
        pairs = sorted(r.sample(pairs, 24))
    return [f"gn.vertex {d} {NMIN} {k}" for d, k in pairs]


# name, generator, needs the matcon header, chunk size
SCRIPTS = [("grishagin", script_grishagin, True, 4), ("rndm20", script_rndm, False, 16),
           ("knuth", script_knuth, False, 12), ("vertex", script_vertex, False, 8)]


# ---------------------------------------------------------------------------------------------
# correspondence
# ---------------------------------------------------------------------------------------------
def corr(r, tier):
    evaluations = 0
    mismatches = []
    samples = []
    stats = {}
    for name, gen, hdr, size in SCRIPTS:
        lines = gen(r, tier)
        header = [matcon_line()] if hdr else []
        mo, io = run_both(header, lines, size)
        bad = 0
        for i, (ln, a, b) in enumerate(zip(lines, mo, io)):
            evaluations += 1
            if a != b:
                bad += 1
                if len(mismatches) < 20:
                    ta, tb = a.split(" "), b.split(" ")
                    k = next((j for j, (x, y) in enumerate(zip(ta, tb)) if x != y), min(len(ta), len(tb)))
                    mismatches.append({"script": name, "script_prefix": [l[:160] for l in lines[max(0, i - 2):i]],
                                       "command": ln[:200], "first_diff_token": k,
                                       "model_output": " ".join(ta[k:k + 4]), "implementation_output": " ".join(tb[k:k + 4])})
        stats[name] = {"lines": len(lines), "mismatching_lines": bad,
                       "numbers_compared": sum(len(a.split()) for a in mo)}
        if lines:
            j = min(len(lines) - 1, 1)
            samples.append({"script": name, "command": lines[j][:120], "output": mo[j][:120]})
        if bad and len(mismatches) >= 20:
            stats[name]["note"] = "mismatch list truncated at 20"
    total_bad = sum(s["mismatching_lines"] for s in stats.values())
    stats["mismatching_lines_total"] = total_bad
    if total_bad > len(mismatches):
        mismatches.append({"script": "*", "command": "(truncated)", "model_output": "",
                           "implementation_output": f"{total_bad} mismatching lines in total"})
    return {"evaluations": evaluations, "scripts": len(SCRIPTS), "mismatches": mismatches, "samples": samples,
            "stats": stats}


if __name__ == "__main__":
    import json, time
    tier = sys.argv[1] if len(sys.argv) > 1 else TIER
    t0 = time.time()
    res = corr(rng("generators"), tier)
    res["wall_s"] = round(time.time() - t0, 2)
    print(json.dumps({k: v for k, v in res.items() if k != "samples"}, indent=1))
    sys.exit(1 if res["mismatches"] else 0)
