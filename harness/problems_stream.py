"""Correspondence of the benchmark objective models (lean/IOptModel/Problems.lean, Float instance)
with Problem.Calculate of the shipped families, bit for bit."""
from common import *
ensure_repo_on_path()
import numpy as np


def _fv():
    from iOpt.trial import FunctionValue
    return FunctionValue()


def _pt(x):
    from iOpt.trial import Point
    return Point(np.array(x, dtype=np.double), [])


def calc(problem, x, constraint=None):
    if constraint is None:
        return float(problem.Calculate(_pt(x), _fv()).value)
    from iOpt.trial import FunctionValue, FunctionType
    return float(problem.Calculate(_pt(x), FunctionValue(FunctionType.CONSTRAINT, constraint)).value)


def gkls_tables(p):
    f = p.function
    m = f.GKLS_minima
    return [float(v) for row in m.local_min for v in row], [float(v) for v in m.rho], [float(v) for v in m.f]


def grish_tables(p):
    g = p.function
    out = []
    for mat in (g.af, g.bf, g.cf, g.df):
        out += [float(mat[i][j]) for i in range(7) for j in range(7)]
    return out


def family_members(tier, r):
    """(family, constructor args) to exercise"""
    mem = []
    full = tier == "thorough"
    hs = range(1000) if full else sorted(r.sample(range(1000), 60))
    mem += [("hill", (i,)) for i in hs] + [("shekel", (i,)) for i in hs]
    mem += [("shekel4", (i,)) for i in (1, 2, 3)]
    gs = range(1, 101) if full else sorted(r.sample(range(1, 101), 12))
    mem += [("grishagin", (i,)) for i in gs]
    for d in (2, 3, 4, 5):
        ks = range(1, 101) if full else sorted(r.sample(range(1, 101), 6))
        mem += [("gkls", (d, k)) for k in ks]
    mem += [("rastrigin", (n,)) for n in (range(1, 13) if full else (1, 2, 3, 7))]
    mem += [("xsquared", (n,)) for n in (range(1, 13) if full else (1, 2, 5))]
    mem += [("stronginc3", ())]
    return mem


def construct(fam, args):
    if fam == "hill":
        from iOpt.problems.hill import Hill; return Hill(*args)
    if fam == "shekel":
        from iOpt.problems.shekel import Shekel; return Shekel(*args)
    if fam == "shekel4":
        from iOpt.problems.shekel4 import Shekel4; return Shekel4(*args)
    if fam == "grishagin":
        from iOpt.problems.grishagin import Grishagin; return Grishagin(*args)
    if fam == "gkls":
        from iOpt.problems.GKLS import GKLS; return GKLS(*args)
    if fam == "rastrigin":
        from iOpt.problems.rastrigin import Rastrigin; return Rastrigin(*args)
    if fam == "xsquared":
        from iOpt.problems.xsquared import XSquared; return XSquared(*args)
    if fam == "stronginc3":
        from iOpt.problems.stronginC3 import StronginC3; return StronginC3()
    raise ValueError(fam)


def model_line(fam, args, p, x):
    if fam == "hill":
        import iOpt.problems.Hill.hill_generation as g
        return "pb.hill " + fs2h(list(g.aHill[args[0]]) + list(g.bHill[args[0]]) + [x[0]])
    if fam == "shekel":
        import iOpt.problems.Shekel.shekel_generation as g
        i = args[0]
        return "pb.shekel " + fs2h(list(g.kShekel[i]) + list(g.aShekel[i]) + list(g.cShekel[i]) + [x[0]])
    if fam == "shekel4":
        import iOpt.problems.Shekel4.shekel4_generation as g
        rows = int(g.maxI[args[0] - 1])
        return f"pb.shekel4 {rows} " + fs2h([v for row in g.a[:rows] for v in row] + list(g.c[:rows]) + list(x))
    if fam == "grishagin":
        return "pb.grishagin " + fs2h(grish_tables(p) + list(x))
    if fam == "gkls":
        lm, rho, f = gkls_tables(p)
        return f"pb.gkls {args[0]} " + fs2h(lm + rho + f + list(x))
    if fam == "rastrigin":
        return "pb.rastrigin " + fs2h(x)
    if fam == "xsquared":
        return "pb.xsquared " + fs2h(x)


def points_for(fam, args, p, r, npts):
    n = p.numberOfFloatVariables
    lo = [float(v) for v in p.lowerBoundOfFloatVariables]
    hi = [float(v) for v in p.upperBoundOfFloatVariables]
    pts = []
    for _ in range(npts):
        pts.append([r.uniform(l, h) for l, h in zip(lo, hi)])
    pts.append(lo); pts.append(hi)
    pts.append([float(v) for v in p.knownOptimum[0].point.floatVariables])
    if fam == "gkls":
        m = p.function.GKLS_minima
        for i in range(10):
            c = [float(v) for v in m.local_min[i]]
            pts.append(c)
            # on / just inside / just outside the ball boundary, and inside the PRECISION guard
            d = [r.gauss(0, 1) for _ in range(n)]
            nd = sum(v * v for v in d) ** 0.5
            for fac in (1.0, 1 - 1e-9, 1 + 1e-9, 0.5, 1e-11 / max(float(m.rho[i]), 1e-30)):
                q = [ci + fac * float(m.rho[i]) * di / nd for ci, di in zip(c, d)]
                if all(l <= v <= h for v, l, h in zip(q, lo, hi)):
                    pts.append(q)
    return pts


def run(tier, r, npts=None):
    npts = npts or (12 if tier == "quick" else 40)
    mem = family_members(tier, r)
    lines, expect, meta = [], [], []
    for fam, args in mem:
        p = construct(fam, args)
        if fam == "stronginc3":
            # objective and the three constraints; the model is the translation of the current source text
            for x in points_for(fam, args, p, r, npts * 6):
                for which, con in (("obj", None), ("c0", 0), ("c1", 1), ("c2", 2)):
                    lines.append(f"pb.s3 {which} " + fs2h(x))
                    expect.append(f2h(calc(p, x, con)))
                    meta.append((fam, (which,), x))
            continue
        for x in points_for(fam, args, p, r, npts):
            lines.append(model_line(fam, args, p, x))
            expect.append(f2h(calc(p, x)))
            meta.append((fam, args, x))
    out = run_model(lines)
    bad = [(meta[i], out[i], expect[i]) for i in range(len(lines)) if out[i] != expect[i]]
    fams = {}
    for fam, _, _ in meta:
        fams[fam] = fams.get(fam, 0) + 1
    return {"evaluations": len(lines), "members": len(mem), "per_family": fams, "mismatches": bad,
            "sample": {"family": meta[0][0], "args": meta[0][1], "x": meta[0][2], "value_bits": expect[0]}}
