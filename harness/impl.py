"""Implementation side of the line protocol: interprets the same commands as lean/Driver.lean on the
real iOpt classes (in-process) and prints the same canonical output lines."""
import sys, io, json, math, contextlib
from common import *

ensure_repo_on_path()
import numpy as np
import objectives


def _fmt_ints(l):
    return " ".join(str(int(v)) for v in l)


class LoggedProblem:
    """factory for a Problem subclass instance that logs every Calculate call"""

    @staticmethod
    def make(fn, lower, upper, fail_at=None, exc=None, fresh_holder=False, n_discrete=0, int_bounds=None):
        """fresh_holder: Calculate leaves the holder it was given untouched and RETURNS a new FunctionValue carrying the value
        (the Problem interface returns the holder and the library is written against the returned object)"""
        from iOpt.problem import Problem
        from iOpt.trial import FunctionValue

        class P(Problem):
            def __init__(self):
                super().__init__()
                n = len(lower)
                self.dimension = n
                self.numberOfFloatVariables = n
                self.numberOfObjectives = 1
                self.numberOfConstraints = 0
                if n_discrete:
                    # declared discrete parameters (this solver version works on the float variables only and ignores them)
                    self.numberOfDisreteVariables = n_discrete
                    self.discreteVariableNames = [f"d{i}" for i in range(n_discrete)]
                self.floatVariableNames = np.array([f"x{i}" for i in range(n)], dtype=str)
                self.lowerBoundOfFloatVariables = np.array(lower, dtype=np.double)
                self.upperBoundOfFloatVariables = np.array(upper, dtype=np.double)
                if int_bounds and all(float(v).is_integer() for v in list(lower) + list(upper)):
                    # an integer-valued box declared with integer-typed bounds (Python ints or an int64 array)
                    if int_bounds == "list":
                        self.lowerBoundOfFloatVariables = [int(v) for v in lower]
                        self.upperBoundOfFloatVariables = [int(v) for v in upper]
                    else:
                        self.lowerBoundOfFloatVariables = np.array(lower, dtype=np.int64)
                        self.upperBoundOfFloatVariables = np.array(upper, dtype=np.int64)
                self.log = []          # (phase, point tuple, value, holder id)
                self.ncalls_global = 0
                self.fail_at = fail_at  # 1-based index among global-phase calls
                self.exc = exc

            def Calculate(self, point, functionValue):
                fr0 = sys._getframe(1)
                fr = fr0.f_code
                caller, cfile = fr.co_name, fr.co_filename.replace("\\", "/")
                owner = id(fr0.f_locals.get("self"))       # the OptimizationTask / Process object of the solver that is evaluating
                # a call made from the output system (a painter probing the objective to draw it) or from outside the library is
                # not a trial of the search; the search evaluates through OptimizationTask.Calculate (global phase) and
                # Process.problemCalculate (local refinement)
                if "/output_system/" in cfile or "/iOpt/" not in cfile:
                    phase = "other"
                else:
                    phase = "global" if caller == "Calculate" else ("local" if caller == "problemCalculate" else "other")
                pt = tuple(float(v) for v in point.floatVariables)
                if phase == "global":
                    self.ncalls_global += 1
                    if self.fail_at is not None and (self.ncalls_global == self.fail_at or
                                                     (getattr(self, "fail_forever", False) and self.ncalls_global > self.fail_at)):
                        self.fail_at = None if not getattr(self, "fail_forever", False) else self.fail_at
                        if getattr(self, "fail_delay", 0):
                            import time as _t
                            _t.sleep(self.fail_delay)       # a LATE failure: the evaluation runs for a while before it raises
                        raise self.exc("objective failed on purpose")
                v = fn(pt)
                if fresh_holder:
                    functionValue = FunctionValue(functionValue.type, functionValue.functionID)
                functionValue.value = v
                if phase == "other" and not getattr(self, "keep_other", True):
                    self.probes = getattr(self, "probes", 0) + 1     # a painter's probe: counted, not a trial
                else:
                    self.log.append((phase, pt, v, id(functionValue), owner))
                return functionValue
        return P()


class _Stdout(io.StringIO):
    def __init__(self, events):
        super().__init__()
        self.events = events

    def write(self, s):
        if "Exception was thrown" in s:
            self.events.append("printed")
        return super().write(s)


class Impl:
    def __init__(self):
        self.sd = None
        self.sd_items = []
        self.sv = None
        self.obj_spec = None
        self.fail_at = None
        self.exc = ValueError
        self.refine = False
        self.listeners = "rec"

    # ------------------------------------------------------------------ evolvent
    def _ev(self, n, m, lower, upper):
        from iOpt.evolvent.evolvent import Evolvent
        return Evolvent(np.array(lower, dtype=np.double), np.array(upper, dtype=np.double), n, m)

    # ------------------------------------------------------------------ search data
    def _sd_id(self, item):
        if item is None:
            return "-"
        for i, it in enumerate(self.sd._allTrials):
            if it is item:
                return str(i)
        return "?"

    def _mk_item(self, x, g, l):
        from iOpt.method.search_data import SearchDataItem
        from iOpt.trial import Point
        it = SearchDataItem(Point([x], []), x)
        it.globalR = g
        it.localR = l
        return it

    def _q(self, q):
        dq = q._CharacteristicsQueue__baseQueue.data
        return " ".join(f"{f2h(k)}:{self._sd_id(it)}" for it, k in dq)

    # ------------------------------------------------------------------ solver
    def _item_id(self, item):
        for i, it in enumerate(self.sv.searchData._allTrials):
            if it is item:
                return i
        return -1

    def _fmt_ps(self):
        s = self.sv
        pr = s.process
        if pr._Process__first_iteration:
            return f"fresh calls={self.problem.ncalls_global}"
        m = s.method
        sol = s.searchData.solution
        md = sol.solutionAccuracy
        qlen = s.searchData._RGlobalQueue.GetLen()
        return (f"iters={m.iterationsCount} trials={sol.numberOfGlobalTrials} best={self._item_id(m.best)} "
                f"recalc={1 if m.recalc else 0} M={f2h(m.M[0])} Z={f2h(m.Z[0])} "
                f"minDelta={'inf' if md == math.inf else f2h(md)} count={s.searchData.GetCount()} qlen={qlen} "
                f"calls={self.problem.ncalls_global} nlocal={sol.numberOfLocalTrials}")

    def _fmt_new(self):
        ev = [e for e in self.problem.log if e[0] == "global"][self.printed_evals:]
        self.printed_evals += len(ev)
        lg = self.events[self.printed_log:]
        self.printed_log = len(self.events)
        evs = " ".join(",".join(f2h(c) for c in e_[1]) + "=" + f2h(e_[2]) for e_ in ev)
        return f"evals[{evs}] events[{' '.join(lg)}]"

    def _make_listener(self):
        from iOpt.method.listener import Listener
        impl = self

        class Rec(Listener):
            def BeforeMethodStart(self, method):
                impl.events.append("before")

            def OnEndIteration(self, savedNewPoints, solution):
                impl.events.append("end[" + ",".join(str(impl._item_id(p)) for p in savedNewPoints) + "]")

            def OnMethodStop(self, searchData, solution, status):
                impl.events.append(f"stop({1 if status else 0})")
        return Rec()

    # ------------------------------------------------------------------ dispatcher
    def step(self, line):
        t = [x for x in line.split(" ") if x]
        if not t:
            return ""
        c = t[0]
        if c == "impl":
            if t[1] == "obj":
                self.obj_spec = json.loads(" ".join(t[2:]))
            elif t[1] == "fail":
                self.fail_at = int(t[2])
                self.exc = {"ValueError": ValueError, "KeyboardInterrupt": KeyboardInterrupt,
                            "BaseException": BaseException, "ZeroDivisionError": ZeroDivisionError}[t[3]]
            elif t[1] == "refine":
                self.refine = t[2] == "1"
            elif t[1] == "listeners":
                self.listeners = t[2]
            return "ok"
        if c == "libm":
            op, a = t[1], [h2f(v) for v in t[2:]]
            try:
                r = {"add": lambda x, y: x + y, "sub": lambda x, y: x - y, "mul": lambda x, y: x * y,
                     "div": lambda x, y: x / y, "pow": lambda x, y: pow(x, y), "sqrt": math.sqrt,
                     "exp": math.exp, "sin": math.sin, "cos": math.cos, "abs": abs}[op](*a)
            except (OverflowError, ValueError, ZeroDivisionError):
                return "pyerror"
            return f2h(r)
        if c == "libm.root":
            return f2h(pow(h2f(t[1]), 1.0 / int(t[2])))
        if c == "libm.pown":
            try:
                return f2h(pow(h2f(t[1]), int(t[2])))
            except OverflowError:
                return "pyerror"
        if c == "ev.node":
            n, d = int(t[1]), int(t[2])
            ev = self._ev(n, 1, [0.0] * n, [1.0] * n)
            u = np.zeros(n, dtype=np.int32)
            v = np.zeros(n, dtype=np.int32)
            l = ev._Evolvent__CalculateNode(float(d), n, u, v)
            return f"{l} | {_fmt_ints(u)} | {_fmt_ints(v)}"
        if c == "ev.numbr":
            n = int(t[1])
            ev = self._ev(n, 1, [0.0] * n, [1.0] * n)
            u = np.array([int(x) for x in t[2:]], dtype=np.int32)
            v = np.zeros(n, dtype=np.int32)
            iis, l, v = ev._Evolvent__CalculateNumbr(u, v)
            return f"{int(iis)} {l} | {_fmt_ints(v)}"
        if c == "ev.image":
            n, m = int(t[1]), int(t[2])
            fs = [h2f(v) for v in t[3:]]
            ev = self._ev(n, m, fs[:n], fs[n:2 * n])
            return fs2h(ev.GetImage(fs[2 * n]))
        if c == "ev.inverse":
            n, m = int(t[1]), int(t[2])
            fs = [h2f(v) for v in t[3:]]
            ev = self._ev(n, m, fs[:n], fs[n:2 * n])
            return f2h(ev.GetInverseImage(np.array(fs[2 * n:], dtype=np.double)))
        if c == "ev.cubeY":
            # integer model only: the implementation's counterpart is the image of the interval's
            # left end on the cube [-1/2,1/2]^n in units of 2^-(m+1)
            n = int(t[1]); ds = [int(x) for x in t[2:]]; m = len(ds)
            ev = self._ev(n, m, [-0.5] * n, [0.5] * n)
            x = 0.0
            for d in ds:
                x = x * 2 ** n + d
            x = x / float(2 ** (n * m))
            y = ev.GetImage(x)
            return _fmt_ints([round(v * 2 ** (m + 1)) for v in y])
        # ---------------------------------------------------------------- evolvent object (C17)
        if c == "eo.new":
            n, m = int(t[1]), int(t[2])
            fs = [h2f(v) for v in t[3:]]
            lo = np.array(fs[:n], dtype=np.double); hi = np.array(fs[n:], dtype=np.double)
            from iOpt.evolvent.evolvent import Evolvent
            self.eo = Evolvent(lo, hi, n, m)
            self.eo_vis = [lo, hi]
            return "ok"
        if c == "eo.arri":
            self.eo_vis.append(np.array([int(h2f(v)) for v in t[1:]], dtype=np.int64))
            return str(len(self.eo_vis) - 1)
        if c == "eo.arr":
            self.eo_vis.append(np.array([h2f(v) for v in t[1:]], dtype=np.double))
            return str(len(self.eo_vis) - 1)
        if c == "eo.image":
            y = self.eo.GetImage(h2f(t[1]))
            self.eo_vis.append(y)
            return f"{len(self.eo_vis) - 1}: {fs2h(y)}"
        if c == "eo.inverse":
            return f2h(self.eo.GetInverseImage(self.eo_vis[int(t[1])]))
        if c == "eo.preimages":
            return f2h(self.eo.GetPreimages(self.eo_vis[int(t[1])]))
        if c == "eo.setbounds":
            self.eo.SetBounds(self.eo_vis[int(t[1])], self.eo_vis[int(t[2])])
            return "ok"
        if c == "eo.poke":
            a = self.eo_vis[int(t[1])]
            vals = [h2f(v) for v in t[2:]]
            if len(vals) != len(a):
                return "bad-op"
            a[:] = vals          # in place (an integer-typed array keeps its dtype: the values sent are integers then)
            return "ok"
        if c == "eo.visible":
            return " | ".join(fs2h(a) for a in self.eo_vis)
        # ---------------------------------------------------------------- search data
        if c == "sd.new":
            from iOpt.method.search_data import SearchData, SearchDataDualQueue
            from iOpt.problem import Problem
            maxlen = int(t[2]) if t[2] != "-" else None
            self.sd = (SearchDataDualQueue if t[1] == "1" else SearchData)(None, maxlen)
            self.sd_dual = t[1] == "1"
            return "ok"
        if c.startswith("sd."):
            sd = self.sd
            try:
                if c == "sd.first":
                    f = [h2f(v) for v in t[1:]]
                    sd.InsertFirstDataItem(self._mk_item(*f[:3]), self._mk_item(*f[3:]))
                    return "ok"
                if c == "sd.insert":
                    x, g, l = [h2f(v) for v in t[1:4]]
                    hint = None if t[4] == "-" else sd._allTrials[int(t[4])]
                    sd.InsertDataItem(self._mk_item(x, g, l), hint)
                    return "ok"
                if c == "sd.find":
                    return self._sd_id(sd.FindDataItemByOneDimensionalPoint(h2f(t[1])))
                if c == "sd.trav":
                    first = sd._SearchData__firstDataItem
                    parts = [f"{self._sd_id(it)}:{f2h(it.GetX())}:{self._sd_id(it.GetLeft())}:{self._sd_id(it.GetRight())}"
                             for it in sd] if first is not None else []
                    return f"count={sd.GetCount()} first={self._sd_id(first)} | " + " ".join(parts)
                if c == "sd.queues":
                    l = self._q(sd._SearchDataDualQueue__RLocalQueue) if self.sd_dual else ""
                    return f"g[{self._q(sd._RGlobalQueue)}] l[{l}]"
                if c == "sd.clear":
                    sd.ClearQueue(); return "ok"
                if c == "sd.refill":
                    sd.RefillQueue(); return "ok"
                if c == "sd.popg":
                    # observe the key as well: the queue entry popped is (item, key)
                    before = list(sd._RGlobalQueue._CharacteristicsQueue__baseQueue.data)
                    it = sd.GetDataItemWithMaxGlobalR()
                    return f"{self._sd_id(it)} {f2h(it.globalR) if self.sd_dual else self._popped_key(before, sd, it)}"
                if c == "sd.popl":
                    if not self.sd_dual:
                        return "bad-op"
                    it = sd.GetDataItemWithMaxLocalR()
                    return f"{self._sd_id(it)} {f2h(it.localR)}"
                if c == "sd.setg":
                    sd._allTrials[int(t[1])].globalR = h2f(t[2]); return "ok"
                if c == "sd.setl":
                    sd._allTrials[int(t[1])].localR = h2f(t[2]); return "ok"
            except (AttributeError, IndexError, StopIteration, TypeError):
                return "error"
            return "bad-op"
        # ---------------------------------------------------------------- solver
        if c == "sv.new":
            from iOpt.solver import Solver
            from iOpt.solver_parametrs import SolverParameters
            n, m, lim = int(t[1]), int(t[2]), int(t[3])
            r, eps = h2f(t[4]), h2f(t[5])
            bs = [h2f(v) for v in t[6:]]
            lower, upper = bs[:n], bs[n:]
            fn = objectives.make(self.obj_spec, lower, upper)
            self.problem = LoggedProblem.make(fn, lower, upper, self.fail_at, self.exc)
            self.sv = Solver(self.problem, SolverParameters(eps=eps, r=r, itersLimit=lim, evolventDensity=m,
                                                           refineSolution=self.refine))
            self.events = []
            self.local_results = []
            self.printed_evals = 0
            self.printed_log = 0
            if self.listeners.startswith("rec"):
                # "rec+k": k further listeners that override nothing (half of them in front of the recording one): the number of
                # attached listeners must not matter to the search (GetResults is called once per listener after every call)
                from iOpt.method.listener import Listener
                extra = int(self.listeners[4:]) if self.listeners.startswith("rec+") else 0

                class Passive(Listener):
                    pass
                for _ in range(extra // 2):
                    self.sv.AddListener(Passive())
                self.sv.AddListener(self._make_listener())
                for _ in range(extra - extra // 2):
                    self.sv.AddListener(Passive())
            return "ok"
        if c in ("sv.oracle", "sv.local"):
            return "ok"
        if c == "sv.setparams":
            # the parameters object shared by Solver / Method / Process is changed in place
            self.sv.parameters.itersLimit = int(t[1])
            self.sv.parameters.eps = h2f(t[2])
            return "ok"
        if c == "sv.iter":
            raised = "-"
            out = _Stdout(self.events)
            with contextlib.redirect_stdout(out):
                try:
                    self.sv.DoGlobalIteration(int(t[1]))
                except BaseException as e:
                    msg = str(e)
                    raised = ("leftIsNone" if "Left point is NONE" in msg else
                              "outsideInterval" if "outside of interval" in msg else
                              "objective" if "on purpose" in msg else "other:" + type(e).__name__)
            return f"raised={raised} {self._fmt_ps()} {self._fmt_new()}"
        if c == "sv.solve":
            out = _Stdout(self.events)
            with contextlib.redirect_stdout(out):
                self.last_solution = self.sv.Solve()
            if self.refine:
                b = self.last_solution.bestTrials[0]
                self.local_results.append((self.last_solution.numberOfLocalTrials, b.functionValues[0].value,
                                           [float(v) for v in b.point.floatVariables]))
            return f"{self._fmt_ps()} {self._fmt_new()}"
        if c == "sv.refine":
            self.sv.DoLocalRefinement(-1)
            return self._fmt_ps()
        if c == "sv.dump":
            sd = self.sv.searchData
            if sd._SearchData__firstDataItem is None:
                return "items[] queue[]"
            items = []
            for it in sd:
                R = "-inf" if it.globalR == -math.inf else f2h(it.globalR)
                items.append(f"{self._item_id(it)}:{f2h(it.GetX())}:{','.join(f2h(v) for v in it.point.floatVariables)}:"
                             f"{f2h(it.GetZ())}:{f2h(it.functionValues[0].value)}:{1 if it.GetIndex() == 0 else 0}:"
                             f"{f2h(it.delta)}:{R}")
            dq = sd._RGlobalQueue._CharacteristicsQueue__baseQueue.data
            q = " ".join(f"{'-inf' if k == -math.inf else f2h(k)}:{self._item_id(it)}" for it, k in dq)
            return f"items[{' '.join(items)}] queue[{q}]"
        if c == "sv.result":
            if self.sv.process._Process__first_iteration:
                return "fresh"
            sol = self.sv.GetResults()
            b = sol.bestTrials[0]
            acc = sol.solutionAccuracy
            return (f"point={','.join(f2h(v) for v in b.point.floatVariables)} value={f2h(b.functionValues[0].value)} "
                    f"trials={sol.numberOfGlobalTrials} local={sol.numberOfLocalTrials} "
                    f"accuracy={'inf' if acc == math.inf else f2h(acc)}")
        return "bad-op"

    def _popped_key(self, before, sd, it):
        for item, k in before:
            if item is it:
                return f2h(k)
        # queue was empty and refilled: key is the item's characteristic at refill time
        return f2h(it.globalR)


def run_impl(lines):
    """one output line per command; an exception raised while a command is carried out or its observation is formatted
    (the implementation reached a state that the observer does not know) becomes the output line `impl-error:<Type>`,
    i.e. a mismatch with the model, never a crash of the harness"""
    im = Impl()
    out = []
    for i, l in enumerate(lines):
        beat("correspondence: implementation side", {"script_up_to_the_command_that_does_not_return": lines[:i + 1]})
        try:
            out.append(im.step(l))
        except SystemExit:
            raise
        except BaseException as e:        # noqa  (KeyboardInterrupt included: the streams inject it through the objective, and an
            # implementation that lets it escape from Solve must show as a mismatch, not end the check)
            out.append(f"impl-error:{type(e).__name__}" + _raised_in_library(e))
    return out, im


def _raised_in_library(e):
    """'@iOpt/<file>:<line>:<message>' when the innermost frame of the traceback is code of the library under test (the implementation
    itself rejected / choked on the input), '' when it is the harness's own code (an observer that does not know the state reached,
    an objective made to fail on purpose)"""
    tb, last = e.__traceback__, None
    while tb is not None:
        last = tb
        tb = tb.tb_next
    if last is None:
        return ""
    fn = last.tb_frame.f_code.co_filename.replace("\\", "/")
    root = os.path.join(os.path.abspath(REPO), "iOpt").replace("\\", "/") + "/"
    if fn.startswith(root):
        return "@iOpt/%s:%d:%s" % (fn[len(root):], last.tb_lineno, str(e)[:120].replace("\n", " "))
    return ""


if __name__ == "__main__":
    im = Impl()
    for line in sys.stdin:
        print(im.step(line.rstrip("\n")))
