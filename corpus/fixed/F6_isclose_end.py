from common import *
# F6: Evolvent.__GetYonX tests math.isclose(x, 1.0): for N*m >= 30 the points of the
# second-to-last subintervals (within 1e-9 of 1) are sent to the last cell.
from iOpt.evolvent.evolvent import Evolvent
N, m = 3, 10
ev = Evolvent([0.0] * N, [1.0] * N, N, m)
x1 = 1 - 2.0 ** -30 - 2.0 ** -32        # subinterval 2^30-2
x2 = 1 - 0.95e-9                        # same subinterval (floor(x*2^30) == 2^30-2)
assert int(x1 * 2 ** 30) == int(x2 * 2 ** 30) == 2 ** 30 - 2
a, b = ev.GetImage(x1), ev.GetImage(x2)
if not (a == b).all():
    fail(f"N=3,m=10: two points of subinterval 2^30-2 map to different cells: {a} vs {b}")
back = ev.GetInverseImage(ev.GetImage(x2))
if back != (2 ** 30 - 2) / 2 ** 30:
    fail(f"inverse(image({x2!r})) = {back!r}, expected {(2**30-2)/2**30!r}")
ok()
