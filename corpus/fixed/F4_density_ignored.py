from common import *
# F4: Solver does not pass parameters.evolventDensity to its Evolvent.
from fractions import Fraction
from iOpt.solver import Solver
from iOpt.solver_parametrs import SolverParameters
if not hasattr(np, "infty"):
    np.infty = np.inf
m = 4
p = make_problem(lambda y: float((y[0] - 0.3) ** 2 + (y[1] + 0.2) ** 2), [-1.0, -1.0], [1.0, 1.0])
s = Solver(p, SolverParameters(itersLimit=40, evolventDensity=m))
s.Solve()
for pt, _ in p.log:
    for c in pt:
        j = (Fraction(float(c)) + 1) * (2 ** m) / 2 - Fraction(1, 2)
        if j.denominator != 1 or not (0 <= j < 2 ** m):
            fail(f"density {m}: trial coordinate {c!r} is not lower+(j+1/2)*side/2^m (j={float(j)})")
ok()
