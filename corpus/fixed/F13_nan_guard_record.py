from common import *
# F13: the first repair of F11 (55d5b3e) made CalculateGlobalR raise ArithmeticError for a NaN characteristic.  The raise fired inside
# RenewSearchData AFTER the covering interval's stored length had been shortened and the trial counted, but BEFORE the new item was
# inserted: Solve contained the exception and returned, leaving a record with a counted trial that is not listed and an interval whose
# stored length is not (x - x_left)^(1/N) (C06), and possibly a reported optimum that is not in the record.
# Witness: N = 1, [0,1], r = 2.5, eps = 0.01, itersLimit = 200, f = 1e200 on (0.6, 0.9), (x - 0.3)^2 elsewhere.
import io, contextlib
from iOpt.problem import Problem
from iOpt.solver import Solver
from iOpt.solver_parametrs import SolverParameters


class P(Problem):
    def __init__(s):
        super().__init__(); s.dimension = 1; s.numberOfFloatVariables = 1; s.numberOfObjectives = 1; s.numberOfConstraints = 0
        s.lowerBoundOfFloatVariables = np.array([0.0]); s.upperBoundOfFloatVariables = np.array([1.0]); s.calls = 0

    def Calculate(s, point, fv):
        s.calls += 1
        x = point.floatVariables[0]
        fv.value = 1e200 if 0.6 < x < 0.9 else (x - 0.3) ** 2
        return fv


p = P()
sv = Solver(p, SolverParameters(eps=0.01, r=2.5, itersLimit=200))
with contextlib.redirect_stdout(io.StringIO()):
    sol = sv.Solve()
items = [it for it in sv.searchData]
evaluated = [it for it in items if it.GetIndex() >= 0]
bad = []
if not (len(evaluated) == sol.numberOfGlobalTrials == p.calls):
    bad.append(f"record lists {len(evaluated)} evaluated trials, the solution reports {sol.numberOfGlobalTrials}, the objective was called {p.calls} times")
for a, b in zip(items, items[1:]):
    if b.delta != b.GetX() - a.GetX():          # N = 1: (x - x_left)^(1/1)
        bad.append(f"stored length of the interval ending at x={b.GetX()!r} is {b.delta!r}, x - x_left = {b.GetX() - a.GetX()!r}")
        break
if bad:
    fail("; ".join(bad))
ok()
