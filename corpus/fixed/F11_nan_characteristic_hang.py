"""F11: an objective value so large that (z_r - z_l)^2 and M^2 overflow makes the characteristic inf/inf = NaN;
depq.DEPQ.insert never returns for a NaN priority, so Solve() / DoGlobalIteration() hang forever (C03: "Solve always
terminates").  Witness: N = 1, box [0,1], r = 2.5, eps = 0.01, itersLimit = 200,
f(x) = 1e200 for 0.6 < x < 0.9, (x - 0.3)^2 otherwise: the third trial never returns.
The run is made in a child process with a time limit (a hang cannot be interrupted reliably from inside: Solve swallows
BaseException, including the exception an alarm handler would raise)."""
import subprocess, sys, os
REPO = sys.argv[1] if len(sys.argv) > 1 else os.environ.get("IOPT_REPO", "/repo")
CHILD = r'''
import sys, io, contextlib, warnings
warnings.filterwarnings("ignore")
sys.path.insert(0, %r)
import numpy as np
from iOpt.problem import Problem
from iOpt.solver import Solver
from iOpt.solver_parametrs import SolverParameters
class P(Problem):
    def __init__(s):
        super().__init__(); s.dimension = 1; s.numberOfFloatVariables = 1; s.numberOfObjectives = 1; s.numberOfConstraints = 0
        s.lowerBoundOfFloatVariables = np.array([0.0]); s.upperBoundOfFloatVariables = np.array([1.0]); s.calls = 0
    def Calculate(s, point, fv):
        s.calls += 1
        x = point.floatVariables[0]
        fv.value = 1e200 if 0.6 < x < 0.9 else (x - 0.3) ** 2
        return fv
p = P()
sv = Solver(p, SolverParameters(eps=0.01, r=2.5, itersLimit=200))
with contextlib.redirect_stdout(io.StringIO()):
    sol = sv.Solve()
print("RETURNED trials=%%d calls=%%d" %% (sol.numberOfGlobalTrials, p.calls))
''' % REPO
try:
    r = subprocess.run([sys.executable, "-c", CHILD], stdout=subprocess.PIPE, stderr=subprocess.STDOUT, text=True, timeout=60)
except subprocess.TimeoutExpired:
    print("DEFECT PRESENT: Solve() did not return within 60 s for an objective with the value 1e200 on (0.6, 0.9) "
          "(NaN characteristic -> depq.DEPQ.insert loops forever)")
    sys.exit(1)
if "RETURNED" not in r.stdout:
    print("DEFECT PRESENT: Solve() raised instead of returning:", r.stdout[-400:])
    sys.exit(1)
print("OK:", r.stdout.strip().split("\n")[-1])
sys.exit(0)
