from common import *
# F14: Solve() with refineSolution=True, then the global search is CONTINUED (DoGlobalIteration, or a second Solve after the budget was
# raised): DoLocalRefinement had overwritten point and value of the best trial in place, but Method.UpdateOptimum goes on comparing new
# trials with the value stored BEFORE the refinement, so a later trial with  refined value < z_new < stale z  replaced the refined optimum:
# GetResults() then reported a value LARGER than one that had been evaluated (C04).
# Witness family (seeded, 200 cases): f(y) = sum (y_i - c_i)^2 + 0.3 sin(w_i y_i) on [0,1]^N, N in {1,2}, eps = 0.05, refinement on,
# then 150 single iterations; 26 of the 200 cases regressed on the unrepaired code.
import io, contextlib, math, random
from iOpt.problem import Problem
from iOpt.solver import Solver
from iOpt.solver_parametrs import SolverParameters


class P(Problem):
    def __init__(s, n, f):
        super().__init__(); s.dimension = n; s.numberOfFloatVariables = n; s.numberOfObjectives = 1; s.numberOfConstraints = 0
        s.lowerBoundOfFloatVariables = np.zeros(n); s.upperBoundOfFloatVariables = np.ones(n); s.f = f; s.log = []

    def Calculate(s, point, fv):
        v = s.f(point.floatVariables); s.log.append(v); fv.value = v; return fv


bad = []
rnd = random.Random(5)
for case in range(200):
    n = rnd.choice([1, 2])
    c = [rnd.uniform(0.1, 0.9) for _ in range(n)]
    w = [rnd.uniform(5, 30) for _ in range(n)]
    p = P(n, lambda y, c=c, w=w: sum((yi - ci) ** 2 + 0.3 * math.sin(wi * yi) for yi, ci, wi in zip(y, c, w)))
    sv = Solver(p, SolverParameters(eps=0.05, r=rnd.uniform(2, 4), itersLimit=rnd.choice([5, 10, 20]), refineSolution=True))
    with contextlib.redirect_stdout(io.StringIO()):
        sv.Solve()
        for k in range(150):
            try:
                sv.DoGlobalIteration(1)
            except Exception:
                break
            bv = sv.GetResults().bestTrials[0].functionValues[0].value
            if bv > min(p.log):
                bad.append(f"case {case} (N={n}): after {k + 1} further iterations the reported best is {bv!r}, the smallest evaluated value {min(p.log)!r}")
                break
    if len(bad) >= 3:
        break
if bad:
    fail("; ".join(bad))
ok()
