"""Shared helpers for the replay scripts of repaired defects (F1..F6).
Each script exits 1 and prints what failed if the defect is present in the iOpt tree on sys.path
(default /repo), exits 0 otherwise.  Usage: /venv/bin/python F2_shared_defaults.py [repo_path]"""
import sys, os
REPO = sys.argv[1] if len(sys.argv) > 1 else os.environ.get("IOPT_REPO", "/repo")
sys.path.insert(0, REPO)
import numpy as np


def make_problem(fn, lower, upper):
    from iOpt.problem import Problem
    from iOpt.trial import Point, FunctionValue, Trial

    class P(Problem):
        def __init__(self):
            super().__init__()
            n = len(lower)
            self.dimension = n
            self.numberOfFloatVariables = n
            self.numberOfObjectives = 1
            self.numberOfConstraints = 0
            self.floatVariableNames = np.array([f"x{i}" for i in range(n)], dtype=str)
            self.lowerBoundOfFloatVariables = np.array(lower, dtype=np.double)
            self.upperBoundOfFloatVariables = np.array(upper, dtype=np.double)
            self.log = []

        def Calculate(self, point, functionValue):
            v = fn(point.floatVariables)
            self.log.append((np.array(point.floatVariables, dtype=float).copy(), v))
            functionValue.value = v
            return functionValue
    return P()


def fail(msg):
    print("DEFECT PRESENT:", msg)
    sys.exit(1)


def ok(msg="defect absent"):
    print("OK:", msg)
    sys.exit(0)
