from common import *
# F5: DoLocalRefinement builds Bounds but does not pass them to Nelder-Mead.
from iOpt.solver import Solver
from iOpt.solver_parametrs import SolverParameters
if not hasattr(np, "infty"):
    np.infty = np.inf
p = make_problem(lambda y: float(y[0] + y[1]), [0.0, 0.0], [1.0, 1.0])
s = Solver(p, SolverParameters(itersLimit=600, refineSolution=True))
sol = s.Solve()
out = [pt for pt, _ in p.log if (pt < -1e-12).any() or (pt > 1 + 1e-12).any()]
if out:
    fail(f"{len(out)} of {len(p.log)} evaluations outside the box, first {out[0]}, result {sol.bestTrials[0].point.floatVariables}")
ok()
