from common import *
# F2: mutable default arguments Solution(bestTrials=[...]) / SearchDataItem(functionValues=[...])
# are shared between Solver instances: an earlier Solution reports a later solver's optimum.
from iOpt.solver import Solver
from iOpt.solver_parametrs import SolverParameters
import iOpt.method.method as mm
if not hasattr(np, "infty"):
    np.infty = np.inf  # isolate F2 from F1
pa = make_problem(lambda y: (float(y[0]) - 0.3) ** 2, [0.0], [1.0])
pb = make_problem(lambda y: (float(y[0]) - 0.8) ** 2 - 5.0, [0.0], [1.0])
sa = Solver(pa, SolverParameters(itersLimit=20))
sola = sa.Solve()
va = sola.bestTrials[0].functionValues[0].value
xa = float(sola.bestTrials[0].point.floatVariables[0])
sb = Solver(pb, SolverParameters(itersLimit=20))
solb = sb.Solve()
va2 = sola.bestTrials[0].functionValues[0].value
xa2 = float(sola.bestTrials[0].point.floatVariables[0])
if sola.bestTrials is solb.bestTrials or (va, xa) != (va2, xa2):
    fail(f"Solution of solver A changed after solver B ran: value {va}->{va2}, x {xa}->{xa2}")
from iOpt.method.search_data import SearchDataItem
from iOpt.trial import Point
i1 = SearchDataItem(Point([0.0], None), 0.0)
i2 = SearchDataItem(Point([1.0], None), 1.0)
if i1.functionValues is i2.functionValues or i1.functionValues[0] is i2.functionValues[0]:
    fail("two SearchDataItems built with the default share their value holder")
ok()
