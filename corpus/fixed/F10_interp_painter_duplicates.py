from common import *
# F10: the interpolating painters hand the trial points to scipy (Rbf / interp1d) as they are. Two trials can share
# a box point (different curve coordinates inside one evolvent subinterval - low density, many trials): Rbf then
# raises LinAlgError (singular matrix) inside OnMethodStop, so Solve() raises instead of returning.
import os, tempfile
os.environ.setdefault("MPLBACKEND", "Agg")
import matplotlib
matplotlib.use("Agg")
import matplotlib.pyplot as plt
plt.show = lambda *a, **k: None
from iOpt.solver import Solver
from iOpt.solver_parametrs import SolverParameters
from iOpt.method.listener import StaticNDPaintListener
lo, hi = [3.01, 4.09], [9.26, 7.08]
f = lambda y: 1.99 * (float(y[0]) - lo[0]) / (hi[0] - lo[0]) - 1.71 * (float(y[1]) - lo[1]) / (hi[1] - lo[1])
for mode in ("lines layers", "surface"):
    p = make_problem(f, lo, hi)
    with tempfile.TemporaryDirectory() as d:
        s = Solver(p, SolverParameters(eps=1e-4, r=2.53, itersLimit=20, evolventDensity=8))
        s.AddListener(StaticNDPaintListener("pic.png", d, varsIndxs=[0, 1], mode=mode, calc="interpolation"))
        s.DoGlobalIteration(2)
        try:
            s.Solve()
        except Exception as e:
            pts = {tuple(pt) for pt, _ in p.log}
            fail(f"Solve() with StaticNDPaintListener(mode={mode!r}, calc='interpolation') raises {type(e).__name__}: {e} "
                 f"({len(p.log)} trials on {len(pts)} distinct points)")
ok()
