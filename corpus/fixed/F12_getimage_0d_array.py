from common import *
# F12: GetImage(x) with x given as a 0-d ndarray (np.array(0.3)): __GetYonX bound `d = _x` and then updated `d` in place
# (`d *= nexpExtended`, `d -= iis`), so for N >= 2 the caller's array was overwritten (0.3 became 0.7999...), while the returned image
# was right.  Arguments of a query must not be modified (C17).
from iOpt.evolvent.evolvent import Evolvent
bad = []
for n, m, lo, hi, x0 in [(2, 10, [0.0, 0.0], [1.0, 1.0], 0.3), (3, 4, [-1.0, 0.0, 2.0], [2.0, 4.0, 3.0], 0.7123), (5, 3, [0.0] * 5, [1.0] * 5, 0.05)]:
    ev = Evolvent(np.array(lo), np.array(hi), n, m)
    x = np.array(x0)
    y = ev.GetImage(x)
    yref = Evolvent(np.array(lo), np.array(hi), n, m).GetImage(x0)
    if float(x) != x0 or list(y) != list(yref):
        bad.append(f"N={n} m={m}: the 0-d array argument {x0!r} is {float(x)!r} after GetImage; image {list(y)} vs {list(yref)}")
if bad:
    fail("; ".join(bad))
ok()
