from common import *
# F8: GetInverseImage / GetPreimages keep the dtype of an integer-typed point (list of ints or int ndarray):
# np.copy(y) is an int array, __TransformD2P assigns floats into it IN PLACE and they are truncated,
# so the inverse of a box point with integer coordinates is wrong (and differs from the same point given as floats).
from iOpt.evolvent.evolvent import Evolvent
bad = []
for n, m, lo, hi, y in [(1, 10, [-1.0], [2.0], [1]), (2, 5, [-1.0, -1.0], [2.0, 2.0], [1, 0]), (3, 4, [0.0] * 3, [4.0] * 3, [1, 2, 3])]:
    ev = Evolvent(np.array(lo), np.array(hi), n, m)
    xi = ev.GetInverseImage(np.array(y))                     # integer dtype
    xf = Evolvent(np.array(lo), np.array(hi), n, m).GetInverseImage(np.array(y, dtype=np.double))
    xl = Evolvent(np.array(lo), np.array(hi), n, m).GetPreimages(list(y))   # plain Python list of ints
    if xi != xf or xl != xf:
        bad.append(f"N={n} m={m} box={lo}..{hi} y={y}: int ndarray -> {xi!r}, int list -> {xl!r}, float array -> {xf!r}")
if bad:
    fail("; ".join(bad))
ok()
