from common import *
# F1: Method.__init__ used np.infty (removed in NumPy 2) -> Solver cannot be constructed.
from iOpt.solver import Solver
from iOpt.solver_parametrs import SolverParameters
try:
    s = Solver(make_problem(lambda y: float(y[0]), [0.0], [1.0]), SolverParameters(itersLimit=3))
    s.Solve()
except AttributeError as e:
    fail(f"Solver construction/solve raises AttributeError: {e}")
ok()
