from common import *
# F3: base Listener callback signatures differ from the call sites in Process.
from iOpt.solver import Solver
from iOpt.solver_parametrs import SolverParameters
from iOpt.method.listener import Listener
if not hasattr(np, "infty"):
    np.infty = np.inf
class OnlyEnd(Listener):
    def __init__(self): self.n = 0
    def OnEndIteration(self, points, solution): self.n += 1
s = Solver(make_problem(lambda y: float(y[0]), [0.0], [1.0]), SolverParameters(itersLimit=5))
s.AddListener(OnlyEnd())
try:
    s.Solve()
except TypeError as e:
    fail(f"listener overriding only OnEndIteration makes Solve raise TypeError: {e}")
class Nothing(Listener):
    pass
s = Solver(make_problem(lambda y: float(y[0]), [0.0], [1.0]), SolverParameters(itersLimit=5))
s.AddListener(Nothing())
try:
    s.DoGlobalIteration(2); s.Solve()
except TypeError as e:
    fail(f"listener overriding nothing makes the run raise TypeError: {e}")
ok()
