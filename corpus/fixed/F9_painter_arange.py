from common import *
# F9: the painters build their plotting grid with np.arange(left, right, (right-left)/pointsCount), which has
# pointsCount+1 elements for ~1% of boxes (floating-point step); plt.plot(x, z) then raises ValueError inside
# OnMethodStop, so Solve() with the shipped StaticPaintListener (default mode) raises instead of returning.
import os, tempfile
os.environ.setdefault("MPLBACKEND", "Agg")
import matplotlib
matplotlib.use("Agg")
import matplotlib.pyplot as plt
plt.show = lambda *a, **k: None
from iOpt.solver import Solver
from iOpt.solver_parametrs import SolverParameters
from iOpt.method.listener import StaticPaintListener
lo, hi = -2.88, 1.88
assert len(np.arange(lo, hi, (hi - lo) / 150)) == 151      # the arithmetic fact behind the defect
p = make_problem(lambda y: (float(y[0]) - 0.3) ** 2, [lo], [hi])
with tempfile.TemporaryDirectory() as d:
    s = Solver(p, SolverParameters(itersLimit=10))
    s.AddListener(StaticPaintListener("pic.png", d, mode="objective function"))
    try:
        sol = s.Solve()
    except ValueError as e:
        fail(f"Solve() with StaticPaintListener on box [{lo},{hi}] raises ValueError: {e}")
ok()
