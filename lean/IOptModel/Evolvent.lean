import IOptModel.Arith
/-!
# Model of `iOpt/evolvent/evolvent.py`

Two layers.

* **Integer layer** (`Ev.node`, `Ev.numbr`, `Ev.step`, `Ev.invStep`, `Ev.signs`, `Ev.cubeY`):
  `__CalculateNode`, `__CalculateNumbr` and the bodies of the two level loops, on `Nat`/`Int`.
  This is what the theorems of C07/C08/C09 are about.
* **Numeric layer** (`Ev.imageCube`, `Ev.inverseCube`, `Ev.p2d`, `Ev.d2p`, `Ev.getImage`,
  `Ev.getInverseImage`): the code's loops over a numeric type `α` (digit extraction
  `d *= 2^N; iis = int(d); d -= iis`, accumulation `y[i] += r*iu[i]`, the two affine maps),
  executed at `Float` by the driver.

N = 1 is the affine branch of the code.
-/

namespace Ev

def getI (l : List Int) (i : Nat) : Int := l.getD i 0

/-- `i = a[0]; a[0] = a[it]; a[it] = i` -/
def swap0 (l : List Int) (it : Nat) : List Int :=
  (l.set 0 (getI l it)).set it (getI l 0)

/-- general branch of `__CalculateNode`: the loop over `i`. State: remaining `iis`, `iff`, `k1`,
current `l`, `iq`, and the (reversed) list of `j`s written to `u[i]` and `v[i]`. -/
def nodeLoop : (i : Nat) → (fuel : Nat) → (iis iff : Nat) → (k1 : Int) → (l : Nat) → (iq : Int) →
    (acc : List Int) → (Nat × Int × List Int)
  | _, 0, _, _, _, l, iq, acc => (l, iq, acc.reverse)
  | i, fuel+1, iis, iff, k1, l, iq, acc =>
    let iff := iff / 2
    if iis ≥ iff then
      let (l, iq) := if iis == iff && iis != 1 then (i, (-1 : Int)) else (l, iq)
      nodeLoop (i+1) fuel (iis - iff) iff 1 l iq ((-k1 * 1) :: acc)
    else
      let (l, iq) := if iis + 1 == iff && iis != 0 then (i, (1 : Int)) else (l, iq)
      nodeLoop (i+1) fuel iis iff (-1) l iq ((-k1 * (-1)) :: acc)

/-- `__CalculateNode(iis, n, u, v)`: returns `(l, u, v)`; `u`, `v` are completely overwritten. -/
def node (n iis : Nat) : Nat × List Int × List Int :=
  if iis == 0 then (n-1, List.replicate n (-1), List.replicate n (-1))
  else if iis == 2^n - 1 then
    let u := (1 : Int) :: List.replicate (n-1) (-1)
    (n-1, u, u.set (n-1) 1)
  else
    let (l, iq, u) := nodeLoop 0 n iis (2^n) (-1) 0 1 []
    let v := u.set l (getI u l * iq)
    let v := v.set (n-1) (- getI v (n-1))
    (l, u, v)

/-- loop of `__CalculateNumbr`: returns `(iis, l, l1)`; `v` becomes a copy of `u`. -/
def numbrLoop : (i : Nat) → (us : List Int) → (iff : Nat) → (k1 : Int) → (iis l l1 : Nat) → (Nat × Nat × Nat)
  | _, [], _, _, iis, l, l1 => (iis, l, l1)
  | i, u :: us, iff, k1, iis, l, l1 =>
    let iff := iff / 2
    let k2 := -k1 * u
    if k2 < 0 then numbrLoop (i+1) us iff k2 iis l i
    else numbrLoop (i+1) us iff k2 (iis + iff) i l1

/-- `__CalculateNumbr(u, v)`: returns `(iis, l, v)`. -/
def numbr (n : Nat) (u : List Int) : Nat × Nat × List Int :=
  let (iis, l, l1) := numbrLoop 0 u (2^n) (-1) 0 0 0
  if iis == 0 then (iis, n-1, u)
  else
    let v := u.set (n-1) (- getI u (n-1))
    if iis == 2^n - 1 then (iis, n-1, v)
    else if l1 == n-1 then (iis, l, v.set l (- getI v l))
    else (iis, l1, v)

/-- Level state carried by both loops: `it` and the sign vector `iw`. -/
structure St where
  it : Nat
  iw : List Int
deriving DecidableEq, Repr

def St.init (n : Nat) : St := ⟨0, List.replicate n 1⟩

def relabel (l it : Nat) : Nat := if l == 0 then it else if l == it then 0 else l

/-- Body of the `__GetYonX` loop for digit `d`: new state and the signed offsets `iu` (entries ±1). -/
def step (n : Nat) (s : St) (d : Nat) : St × List Int :=
  let (l, iu, iv) := node n d
  let iu := swap0 iu s.it
  let iv := swap0 iv s.it
  let iu' := List.zipWith (· * ·) iu s.iw
  let iw' := List.zipWith (fun w v => w * (-v)) s.iw iv
  (⟨relabel l s.it, iw'⟩, iu')

/-- Body of the `__GetXonY` loop given the raw sign vector `u0` (`-1` if `y[i] < 0` else `1`):
new state and the recovered digit. -/
def invStep (n : Nat) (s : St) (u0 : List Int) : St × Nat :=
  let u := List.zipWith (· * ·) u0 s.iw
  let u := swap0 u s.it
  let (iis, l, v) := numbr n u
  let v := swap0 v s.it
  let iw' := List.zipWith (fun w v => w * (-v)) s.iw v
  (⟨relabel l s.it, iw'⟩, iis)

/-- offsets of all levels for a digit list (most significant first) -/
def signs (n : Nat) : St → List Nat → List (List Int)
  | _, [] => []
  | s, d :: ds => let (s', o) := step n s d; o :: signs n s' ds

def stateAfter (n : Nat) : St → List Nat → St
  | s, [] => s
  | s, d :: ds => stateAfter n (step n s d).1 ds

/-- Cube coordinates in units of `2^-(m+1)` where `m = ds.length`:
`Y = Σ_j 2^(m-1-j) · s_j` (level `j` contributes `r_j = 2^-(j+2)`). -/
def cubeY (n : Nat) (ds : List Nat) : List Int :=
  let m := ds.length
  (signs n (St.init n) ds).zipIdx.foldl
    (fun acc (o, j) => List.zipWith (fun a s => a + s * (2 : Int)^(m - 1 - j)) acc o)
    (List.replicate n 0)

/-- digits (base `2^n`, most significant first, `m` of them) of a subinterval index -/
def digitsOf (n m i : Nat) : List Nat :=
  (List.range m).map fun j => (i / (2^n)^(m - 1 - j)) % 2^n

def indexOf (n : Nat) (ds : List Nat) : Nat := ds.foldl (fun a d => a * 2^n + d) 0

end Ev

/-! ## Numeric layer -/

/-- `int(d)` for a non-negative number below 2^63 -/
class TruncNat (α : Type) where
  toNat : α → Nat

instance : TruncNat Float := ⟨fun x => x.toUInt64.toNat⟩

section Numeric
variable {α : Type} [Add α] [Sub α] [Mul α] [Div α] [Neg α] [LT α] [LE α]
  [DecidableLT α] [DecidableLE α] [OfNat α 0] [OfNat α 1] [OfNat α 2] [NatCast α] [TruncNat α]

namespace Ev

/-- `0.5` (`1/2` is exact in binary floating point) -/
def half : α := 1 / 2

/-- `nexpExtended`: `1.0` doubled `n` times -/
def nexp : Nat → α
  | 0 => 1
  | n+1 => nexp n + nexp n

def addSigned (y r : α) (s : Int) : α := if s < 0 then y - r else y + r

/-- the `for j in range(m)` loop of `__GetYonX` (N ≥ 2); `x1 = (x >= 1.0)` is loop-invariant -/
def yLoop (n : Nat) (x1 : Bool) : (fuel : Nat) → (d r : α) → St → List α → List α
  | 0, _, _, _, y => y
  | fuel+1, d, r, s, y =>
    let (iis, d) : Nat × α :=
      if x1 then (2^n - 1, 0)
      else
        let d := d * nexp n
        let iis := TruncNat.toNat d
        (iis, d - (iis : α))
    let (s', iu) := step n s iis
    let r := r * half
    yLoop n x1 fuel d r s' (List.zipWith (fun yi ui => addSigned yi r ui) y iu)

/-- `__GetYonX`: point of the cube `[-1/2, 1/2]^n` -/
def imageCube (n m : Nat) (x : α) : List α :=
  if n == 1 then [x - half]
  else yLoop n (decide ((1 : α) ≤ x)) m x half (St.init n) (List.replicate n 0)

/-- `__TransformP2D` -/
def p2d (lower upper : List α) (y : List α) : List α :=
  List.zipWith (fun yi (lu : α × α) => yi * (lu.2 - lu.1) + (lu.2 + lu.1) / 2) y (lower.zip upper)

/-- `__TransformD2P` -/
def d2p (lower upper : List α) (y : List α) : List α :=
  List.zipWith (fun yi (lu : α × α) => (yi - (lu.2 + lu.1) / 2) / (lu.2 - lu.1)) y (lower.zip upper)

/-- `GetImage` as a pure function -/
def getImage (n m : Nat) (lower upper : List α) (x : α) : List α :=
  p2d lower upper (imageCube n m x)

/-- one level of `__GetXonY`: signs, updated `y` -/
def xLevel (r : α) (y : List α) : List Int × List α :=
  let u0 : List Int := y.map fun yi => if yi < 0 then -1 else 1
  (u0, List.zipWith (fun yi ui => addSigned yi r (-ui)) y u0)

/-- the loop of `__GetXonY` -/
def xLoop (n : Nat) : (fuel : Nat) → (r r1 x : α) → St → List α → α
  | 0, _, _, x, _, _ => x
  | fuel+1, r, r1, x, s, y =>
    let r := r * half
    let (u0, y') := xLevel r y
    let (s', iis) := invStep n s u0
    let r1 := r1 / nexp n
    xLoop n fuel r r1 (x + r1 * (iis : α)) s' y'

/-- `__GetXonY` on a cube point -/
def inverseCube (n m : Nat) (y : List α) : α :=
  if n == 1 then y.headD 0 + half
  else xLoop n m half 1 0 (St.init n) y

/-- `GetInverseImage` / `GetPreimages` as a pure function -/
def getInverseImage (n m : Nat) (lower upper : List α) (y : List α) : α :=
  inverseCube n m (d2p lower upper y)

end Ev
end Numeric
