import IOptModel.Proto
/-!
# The coefficient generators of the benchmark families, in exact integer arithmetic

* **Grishagin** (`GrishaginFunction.SetFunctionNumber`, `rndm20`, `gen` in
  `iOpt/problems/grishagin_function/grishagin_function.py`): a 45-entry register `icnf` of 0/1 values,
  seeded from a row of `matcon`, is advanced by `rndm20`; the double returned by `rndm20` is
  `Σ_{i<36} k[i+9]·2^-(i+1) = q / 2^36` with the 36-bit numerator `q` (every partial sum has at most 36
  significant bits, so the floating-point sum is exact) and a coefficient is `2·(q/2^36) − 1`.
* **GKLS / Knuth** (`GKLSRandomGenerator.Initialize` = Knuth's `ranf_start`, `GenerateNextNumbers` =
  `ranf_array`, `mod_sum` in `iOpt/problems/GKLS_function/gkls_random.py`): every number handled is a
  multiple of `ulp = 2^-52` in `[0, 1)` and every operation of the code on such numbers is exact in
  binary64, so a number `x` is represented by the natural number `x / ulp < 2^52`; the array `ul`
  (entries `0.0` or `ulp`) is represented by 0/1.

Arrays are `List Nat`, read with `getD · 0` and written with `List.set`; every Python loop is a fold over
the list of its index values, in the code's order.  No floating point is involved except in the
conversion functions `coeff` / `unit` used by the driver hook to print doubles.
-/

namespace Gens

/-- `[hi, hi-1, …, lo]` (empty if `hi < lo`): the index values of `range(hi, lo - 1, -1)` -/
def downTo (hi lo : Nat) : List Nat := (List.range (hi + 1 - lo)).map fun i => hi - i

/-- `[hi, hi-2, …]` down to the last value `> lo`: the index values of `range(hi, lo, -2)` -/
def downBy2 (hi lo : Nat) : List Nat := (List.range ((hi - lo + 1) / 2)).map fun i => hi - 2 * i

/-! ## Grishagin -/

/-- `abs(a - b)` on non-negative integers -/
def absDiff (a b : Nat) : Nat := if b ≤ a then a - b else b - a

/-- One carry pass of `gen` over a segment (most significant position first; the Python loop runs from the
last position of the segment to the first): `j = int((k[i] + k1[i] + jct) / 2); k[i] = k[i] + k1[i] + jct - j*2;
jct = j`.  A missing entry of `k1` counts as `0`.  Returns the new segment and the carry out. -/
def addPass : List Nat → List Nat → Nat → List Nat × Nat
  | [], _, c => ([], c)
  | a :: as, bs, c =>
    let r := addPass as bs.tail c
    let s := a + bs.headD 0 + r.2
    ((s - s / 2 * 2) :: r.1, s / 2)

/-- `gen(k, k1, kap1, kap2)`: add `k1` into `k` on positions `kap1..kap2` (carry runs from `kap2` down to
`kap1`); if a carry comes out, a second pass adds it in again at position `kap2` (end-around carry; the
carry out of the second pass is dropped). -/
def gen (k k1 : List Nat) (kap1 kap2 : Nat) : List Nat :=
  let n := kap2 + 1 - kap1
  let r := addPass ((k.drop kap1).take n) ((k1.drop kap1).take n) 0
  let seg := if r.2 != 0 then (addPass r.1 [] r.2).1 else r.1
  k.take kap1 ++ seg ++ k.drop (kap2 + 1)

/-- numerator over `2^36` of `Σ_{i<36} bits[i]·2^-(i+1)` -/
def numer (bits : List Nat) : Nat := bits.foldl (fun acc b => 2 * acc + b) 0

/-- `rndm20(k)`: new register and the numerator `q` of the returned double `q / 2^36`. -/
def rndm20 (k : List Nat) : List Nat × Nat :=
  let k1 := (k.drop 7).take 38 ++ List.replicate 7 0        -- k1[i] = k[i+7] (i < 38), 0 (38 ≤ i < 45)
  let k := List.zipWith absDiff k k1                           -- k[i] = abs(k[i] - k1[i])
  let k1 := List.replicate 27 0 ++ k.take 18                  -- k1[i] = k[i-27] (27 ≤ i < 45), 0 (i < 27)
  let k := gen k k1 9 44
  let k := gen k k1 0 8
  (k, numer ((k.drop 9).take 36))

/-- `n` successive calls of `rndm20`: final register and the numerators in call order -/
def draw : Nat → List Nat → List Nat × List Nat
  | 0, k => (k, [])
  | n + 1, k =>
    let r := rndm20 k
    let r' := draw n r.1
    (r'.1, r.2 :: r'.2)

/-- the register after `n` calls of `rndm20` whose results are discarded -/
def skip : Nat → List Nat → List Nat
  | 0, k => k
  | n + 1, k => skip n (rndm20 k).1

/-- The two matrices filled by one double loop `for j in 0..6: for i in 0..6: A[i][j] = next; C[i][j] = next`
from the 98 numbers `qs` (in call order): row-major `7×7` lists. -/
def matA (qs : List Nat) : List (List Nat) :=
  (List.range 7).map fun i => (List.range 7).map fun j => qs.getD (2 * (7 * j + i)) 0
def matC (qs : List Nat) : List (List Nat) :=
  (List.range 7).map fun i => (List.range 7).map fun j => qs.getD (2 * (7 * j + i) + 1) 0

/-- state of a `GrishaginFunction` object: the function number, the four coefficient matrices as numerators
`q` (the coefficient is `2·(q/2^36) − 1`) and the register `icnf` -/
structure Grish where
  fn : Nat
  af : List (List Nat) := []
  bf : List (List Nat) := []
  cf : List (List Nat) := []
  df : List (List Nat) := []
  icnf : List Nat := List.replicate 45 0
deriving DecidableEq, Repr

/-- `SetFunctionNumber()` on an object, with the seed table `matcon` (10 rows of 45 bits). -/
def setFunctionNumber (matcon : List (List Nat)) (g : Grish) : Grish :=
  let i1 := (g.fn - 1) / 10
  let i2 := i1 * 10
  -- for j in range(len(matcon[i1])): icnf[j] = matcon[i1][j]
  let row := matcon.getD i1 []
  let icnf := row ++ g.icnf.drop row.length
  let icnf := if i2 != g.fn - 1 then
      let i3 := g.fn - 1 - i2
      -- for j in 1..i3: for i in 0..195: rndm20(icnf)
      (List.range i3).foldl (fun k _ => skip 196 k) icnf
    else icnf
  let r1 := draw 98 icnf
  let r2 := draw 98 r1.1
  { g with af := matA r1.2, cf := matC r1.2, bf := matA r2.2, df := matC r2.2, icnf := r2.1 }

/-- the constructor's clamp: `if function_number < 1 or function_number > 100: function_number = 1` -/
def clampFn (fn : Nat) : Nat := if fn < 1 ∨ fn > 100 then 1 else fn

/-- `GrishaginFunction(function_number)`: clamp, then `SetFunctionNumber()` -/
def grishNew (matcon : List (List Nat)) (functionNumber : Nat) : Grish :=
  setFunctionNumber matcon { fn := clampFn functionNumber }

/-- the function object of the problem `Grishagin(function_number)`: its constructor builds
`GrishaginFunction(function_number)` and then calls `SetFunctionNumber()` once more -/
def grishProblem (matcon : List (List Nat)) (functionNumber : Nat) : Grish :=
  setFunctionNumber matcon (grishNew matcon functionNumber)

/-- a coefficient `2·(q/2^36) − 1` in any numeric type -/
def coeff {α : Type} [NatCast α] [Mul α] [Div α] [Sub α] [OfNat α 2] [OfNat α 1] (q : Nat) : α :=
  2 * ((q : α) / ((2 ^ 36 : Nat) : α)) - 1

/-! ## Knuth's `ranf_start` / `ranf_array` (GKLS) -/

def KK : Nat := 100
def LL : Nat := 37
def TT : Nat := 70
def NUM_RND : Nat := 1009
/-- `1.0` in units of `ulp = 2^-52` -/
def ONE : Nat := 2 ^ 52

/-- `mod_sum(x, y) = (x + y) - int(x + y)` on numerators -/
def modSum (x y : Nat) : Nat := (x + y) % ONE

/-- bootstrap loop: `u[j] = ss; ss += ss; if ss >= 1.0: ss -= 1.0 - 2*ulp`; returns `u[0..n-1]` -/
def bootstrap : Nat → Nat → List Nat
  | 0, _ => []
  | n + 1, ss =>
    let s2 := ss + ss
    ss :: bootstrap n (if s2 ≥ ONE then s2 - (ONE - 2) else s2)

/-- the two working arrays of `Initialize` (length `KK + KK - 1`) -/
structure UU where
  u : List Nat
  ul : List Nat
deriving DecidableEq, Repr

/-- `for j in range(KK-1, 0, -1): ul[j+j] = ul[j]; u[j+j] = u[j]` ("square") -/
def square (a : UU) : UU :=
  (downTo (KK - 1) 1).foldl (fun a j =>
    let ul := a.ul.set (j + j) (a.ul.getD j 0)
    let u := a.u.set (j + j) (a.u.getD j 0)
    { u := u, ul := ul }) a

/-- `for j in range(KK+KK-2, KK-LL, -2): ul[KK+KK-1-j] = 0.0; u[KK+KK-1-j] = u[j] - ul[j]` -/
def oddFill (a : UU) : UU :=
  (downBy2 (KK + KK - 2) (KK - LL)).foldl (fun a j =>
    let ul := a.ul.set (KK + KK - 1 - j) 0
    let u := a.u.set (KK + KK - 1 - j) (a.u.getD j 0 - ul.getD j 0)
    { u := u, ul := ul }) a

/-- `for j in range(KK+KK-2, KK-1, -1): if ul[j] != 0: …` (reduction of the upper half) -/
def reduce (a : UU) : UU :=
  (downTo (KK + KK - 2) KK).foldl (fun a j =>
    if a.ul.getD j 0 != 0 then
      let ul := a.ul.set (j - (KK - LL)) (1 - a.ul.getD (j - (KK - LL)) 0)
      let u := a.u.set (j - (KK - LL)) (modSum (a.u.getD (j - (KK - LL)) 0) (a.u.getD j 0))
      let ul := ul.set (j - KK) (1 - ul.getD (j - KK) 0)
      let u := u.set (j - KK) (modSum (u.getD (j - KK) 0) (u.getD j 0))
      { u := u, ul := ul }
    else a) a

/-- the body of `if is_odd(s)` ("multiply by z") -/
def mulZ (a : UU) : UU :=
  let a := (downTo KK 1).foldl (fun a j =>
    let ul := a.ul.set j (a.ul.getD (j - 1) 0)
    let u := a.u.set j (a.u.getD (j - 1) 0)
    ({ u := u, ul := ul } : UU)) a
  let ul := a.ul.set 0 (a.ul.getD KK 0)
  let u := a.u.set 0 (a.u.getD KK 0)
  if ul.getD KK 0 != 0 then
    let ul := ul.set LL (1 - ul.getD LL 0)
    let u := u.set LL (modSum (u.getD LL 0) (u.getD KK 0))
    { u := u, ul := ul }
  else { u := u, ul := ul }

/-- one pass of the body of `while (t > 0)`, up to the update of `s` and `t` -/
def pass (odd : Bool) (a : UU) : UU :=
  let a := reduce (oddFill (square a))
  if odd then mulZ a else a

/-- `while (t > 0): pass; if s: s >>= 1 else: t = t - 1`, with `fuel` bounding the number of passes
(`s < 2^30` and `t = 69` initially, so 99 passes suffice: `Gens.mainLoop_fuel` in `IOptProofs.Generators`). -/
def mainLoop : Nat → Nat → Nat → UU → UU
  | 0, _, _, a => a
  | fuel + 1, s, t, a =>
    if t > 0 then
      let a := pass (s % 2 == 1) a
      if s != 0 then mainLoop fuel (s >>> 1) t a else mainLoop fuel s (t - 1) a
    else a

/-- the arrays before the `while` loop -/
def startArrays (seed : Nat) : UU :=
  let ss := 2 * ((seed &&& 0x3fffffff) + 2)
  let u := bootstrap KK ss ++ List.replicate (KK - 1) 0
  let ul := List.replicate (KK + KK - 1) 0
  let u := u.set 1 (u.getD 1 0 + 1)
  let ul := ul.set 1 1
  { u := u, ul := ul }

/-- index of a numpy array of length `n` addressed with `j - d` (negative indices count from the end) -/
def wrapIdx (n j d : Nat) : Nat := if d ≤ j then j - d else j + n - d

/-- `Initialize(seed, …)` = `ranf_start(seed)`: the generator state `ran_u` (length `KK`) -/
def ranfStart (seed : Nat) : List Nat :=
  let a := mainLoop (30 + TT) (seed &&& 0x3fffffff) (TT - 1) (startArrays seed)
  let ranU := List.replicate KK 0
  let ranU := (List.range LL).foldl (fun r j => r.set (j + KK - LL) (a.u.getD j 0)) ranU
  (List.range KK).foldl (fun r j => r.set (wrapIdx KK j LL) (a.u.getD j 0)) ranU

/-- `GenerateNextNumbers()` = `ranf_array(rnd_num, NUM_RND)`: returns `(rnd_num, new ran_u)` -/
def ranfArray (ranU : List Nat) : List Nat × List Nat :=
  -- for j in range(KK): rnd_num[j] = ran_u[j]
  let aa := (List.range KK).map fun j => ranU.getD j 0
  -- for j in range(KK, n): rnd_num[j] = mod_sum(rnd_num[j-KK], rnd_num[j-LL])
  let aa := (List.range (NUM_RND - KK)).foldl (fun aa i =>
    let j := KK + i
    aa ++ [modSum (aa.getD (j - KK) 0) (aa.getD (j - LL) 0)]) aa
  -- j = n; for i in range(LL): ran_u[i] = mod_sum(rnd_num[j-KK], rnd_num[j-LL]); j += 1
  let ranU := (List.range LL).foldl (fun r i =>
    let j := NUM_RND + i
    r.set i (modSum (aa.getD (j - KK) 0) (aa.getD (j - LL) 0))) ranU
  -- for i in range(LL, KK): ran_u[i] = mod_sum(rnd_num[j-KK], ran_u[i-LL]); j += 1
  let ranU := (List.range (KK - LL)).foldl (fun r i' =>
    let i := LL + i'
    let j := NUM_RND + i
    r.set i (modSum (aa.getD (j - KK) 0) (r.getD (i - LL) 0))) ranU
  (aa, ranU)

/-- the `b`-th batch (`b = 0` is the first call of `GenerateNextNumbers` after `Initialize(seed)`) -/
def batch (seed : Nat) : Nat → List Nat × List Nat
  | 0 => ranfArray (ranfStart seed)
  | b + 1 => ranfArray (batch seed b).2

/-- `GKLS_initialize_rnd`: `seed = (nf - 1) + (nmin - 1) * 100 + dim * 1000000` -/
def gklsSeed (dim nmin nf : Nat) : Nat := (nf - 1) + (nmin - 1) * 100 + dim * 1000000

/-- a number `k·2^-52` in any numeric type -/
def unit {α : Type} [NatCast α] [Div α] (k : Nat) : α := (k : α) / ((2 ^ 52 : Nat) : α)

/-- `local_min[0][i] = domain_left + rnd * (domain_right - domain_left)` with the box `[-1, 1]`: the
paraboloid vertex of GKLS(dim, nf) with `nmin` minima, as numerators `k` of `rnd = k·2^-52` -/
def gklsVertexNumer (dim nmin nf : Nat) : List Nat := (batch (gklsSeed dim nmin nf) 0).1.take dim

/-! ## Driver hook (`gn.` commands) -/

structure Ctx where
  /-- the seed table sent by `gn.matcon` -/
  matcon : List (List Nat) := []
  /-- memo of the last Knuth seed: `(seed, ranfStart seed, [batch seed 0, batch seed 1, …])` (speed only) -/
  memo : Option (Nat × List Nat × List (List Nat × List Nat)) := none

/-- `ranfStart seed` through the memo -/
def startM (c : Ctx) (seed : Nat) : Ctx × List Nat :=
  match c.memo with
  | some (s, st, _) => if s == seed then (c, st) else
      let st := ranfStart seed; ({ c with memo := some (seed, st, []) }, st)
  | none => let st := ranfStart seed; ({ c with memo := some (seed, st, []) }, st)

/-- `batch seed b` through the memo: extends the list of batches of `seed` up to index `b` -/
def batchM (c : Ctx) (seed b : Nat) : Ctx × (List Nat × List Nat) :=
  let (c, st) := startM c seed
  let bs : List (List Nat × List Nat) := match c.memo with | some (_, _, bs) => bs | none => []
  let bs := (List.range (b + 1 - bs.length)).foldl (fun bs _ =>
    bs ++ [ranfArray (match bs.getLast? with | some l => l.2 | none => st)]) bs
  ({ c with memo := some (seed, st, bs) }, bs.getD b ([], []))

def fCoeff (q : Nat) : F := coeff q
def fUnit (k : Nat) : F := unit k

def parseBits (l : List String) : Option (List Nat) :=
  l.mapM fun s => match s.toNat? with
    | some b => if b ≤ 1 then some b else none
    | none => none

def fmtGrish (g : Grish) : String :=
  hxs ((g.af ++ g.bf ++ g.cf ++ g.df).flatten.map fCoeff)

/--
* `gn.matcon <rows> <rows·45 bits>`: sets the seed table `matcon`.
* `gn.grish <fn> <calls>`: the 4×49 coefficients (af, bf, cf, df, each row-major) of `GrishaginFunction(fn)`
  (`calls = 1`) or of the function object of the problem `Grishagin(fn)` (`calls = 2`: `SetFunctionNumber` ran twice).
* `gn.grishreg <fn> <calls>`: the register `icnf` of the same object.
* `gn.rndm <n> <45 bits>`: `n` calls of `rndm20`: the `n` doubles, then `|`, then the register.
* `gn.knuth <seed> <count>` / `gn.knuth2 <seed> <count>`: the first `count` numbers of the first / second
  batch of `GenerateNextNumbers()` after `Initialize(seed)`.
* `gn.state <seed> <b>`: the state `ran_u` after `Initialize(seed)` and `b` batches.
* `gn.gkls <dim> <nmin> <nf> <count>`: `GKLS_initialize_rnd(dim, nmin, nf)`, then the first `count` numbers of
  the first batch.
* `gn.vertex <dim> <nmin> <nf>`: `local_min[0]` of the generated GKLS function, `-1 + rnd·2`.
-/
def stepCmd (c : Ctx) (toks : List String) : Option (Ctx × String) :=
  match toks with
  | "gn.matcon" :: rows :: bits =>
    match rows.toNat?, parseBits bits with
    | some rows, some bs =>
      if bs.length != rows * 45 then some (c, "bad-op") else
      some ({ c with matcon := (List.range rows).map fun i => (bs.drop (45 * i)).take 45 }, "ok")
    | _, _ => some (c, "bad-op")
  | ["gn.grish", fn, calls] =>
    match fn.toNat?, calls.toNat? with
    | some fn, some 1 => some (c, fmtGrish (grishNew c.matcon fn))
    | some fn, some 2 => some (c, fmtGrish (grishProblem c.matcon fn))
    | _, _ => some (c, "bad-op")
  | ["gn.grishreg", fn, calls] =>
    match fn.toNat?, calls.toNat? with
    | some fn, some 1 => some (c, nats (grishNew c.matcon fn).icnf)
    | some fn, some 2 => some (c, nats (grishProblem c.matcon fn).icnf)
    | _, _ => some (c, "bad-op")
  | "gn.rndm" :: n :: bits =>
    match n.toNat?, parseBits bits with
    | some n, some row =>
      if row.length != 45 then some (c, "bad-op") else
      let r := draw n row
      some (c, hxs (r.2.map fun q => (unit (q * 2 ^ 16) : F)) ++ " | " ++ nats r.1)
    | _, _ => some (c, "bad-op")
  | ["gn.knuth", seed, count] =>
    match seed.toNat?, count.toNat? with
    | some seed, some count =>
      let (c, r) := batchM c seed 0
      some (c, hxs ((r.1.take count).map fUnit))
    | _, _ => some (c, "bad-op")
  | ["gn.knuth2", seed, count] =>
    match seed.toNat?, count.toNat? with
    | some seed, some count =>
      let (c, r) := batchM c seed 1
      some (c, hxs ((r.1.take count).map fUnit))
    | _, _ => some (c, "bad-op")
  | ["gn.state", seed, b] =>
    match seed.toNat?, b.toNat? with
    | some seed, some b =>
      match b with
      | 0 => let (c, st) := startM c seed; some (c, hxs (st.map fUnit))
      | b + 1 => let (c, r) := batchM c seed b; some (c, hxs (r.2.map fUnit))
    | _, _ => some (c, "bad-op")
  | ["gn.gkls", dim, nmin, nf, count] =>
    match dim.toNat?, nmin.toNat?, nf.toNat?, count.toNat? with
    | some dim, some nmin, some nf, some count =>
      let (c, r) := batchM c (gklsSeed dim nmin nf) 0
      some (c, hxs ((r.1.take count).map fUnit))
    | _, _, _, _ => some (c, "bad-op")
  | ["gn.vertex", dim, nmin, nf] =>
    match dim.toNat?, nmin.toNat?, nf.toNat? with
    | some dim, some nmin, some nf =>
      some (c, hxs ((gklsVertexNumer dim nmin nf).map fun k => (-1.0 : F) + fUnit k * (1.0 - (-1.0))))
    | _, _, _ => some (c, "bad-op")
  | _ => none

end Gens
