import IOptModel.Evolvent
/-!
# The `Evolvent` object with its scratch array (`self.yValues`) — model for property C17

Python aliasing is made explicit by a small heap of arrays: `Ref` = index into `Heap.cells`.
Arrays owned by the caller (arguments, previously returned results) and the object's scratch array
live in the same heap, so "a later query changes an array returned earlier" is expressible — and is
what the theorems of `IOptProps/C17.lean` exclude.  Every operation reports the refs it wrote.

Statement-level correspondence with `evolvent.py`:
* `GetImage(x)`:  N = 1: `self.yValues[0] = x - 0.5` IN PLACE;  N ≥ 2: `self.yValues = np.zeros(N)` (fresh),
  accumulation in place;  then `__TransformP2D` in place;  `return np.copy(self.yValues)` (fresh).
* `GetInverseImage(y)` / `GetPreimages(y)`: `self.yValues = np.copy(y)` (fresh), `__TransformD2P` in place,
  `__GetXonY` (N ≥ 2 consumes the scratch array in place), returns a number.
* `SetBounds(lo, hi)`: `np.copy` of both arguments.
-/

structure Heap (α : Type) where
  cells : Array (List α) := #[]

namespace Heap
variable {α : Type}
def alloc (h : Heap α) (v : List α) : Heap α × Nat := ({ cells := h.cells.push v }, h.cells.size)
def read (h : Heap α) (r : Nat) : List α := h.cells[r]?.getD []
def write (h : Heap α) (r : Nat) (v : List α) : Heap α := { cells := h.cells.setIfInBounds r v }
end Heap

section
variable {α : Type} [Add α] [Sub α] [Mul α] [Div α] [Neg α] [LT α] [LE α]
  [DecidableLT α] [DecidableLE α] [OfNat α 0] [OfNat α 1] [OfNat α 2] [NatCast α] [TruncNat α]

namespace EvObj

structure Obj (α : Type) where
  n : Nat
  m : Nat
  /-- private copies made by `__init__` / `SetBounds` -/
  lower : List α
  upper : List α
  /-- `self.yValues` -/
  scratch : Nat

inductive Op (α : Type) where
  | image (x : α)
  | inverse (arg : Nat)
  | preimages (arg : Nat)
  | setBounds (lo hi : Nat)

inductive Out (α : Type) where
  | array (ref : Nat)
  | number (x : α)
  | unit

structure StepResult (α : Type) where
  heap : Heap α
  obj : Obj α
  out : Out α
  /-- refs written (in place) or allocated by this call -/
  wrote : List Nat
  allocated : List Nat

/-- `Evolvent.__init__`: copies the bounds, allocates the scratch array -/
def init (h : Heap α) (n m : Nat) (lo hi : Nat) : Heap α × Obj α :=
  let (h, s) := h.alloc (List.replicate n 0)
  (h, { n := n, m := m, lower := h.read lo, upper := h.read hi, scratch := s })

def step (h : Heap α) (o : Obj α) : Op α → StepResult α
  | .image x =>
    if o.n == 1 then
      -- in place on the existing scratch array
      let y0 := (h.read o.scratch).set 0 (x - Ev.half)
      let h1 := h.write o.scratch y0
      let h2 := h1.write o.scratch (Ev.p2d o.lower o.upper y0)
      let (h3, r) := h2.alloc (h2.read o.scratch)
      { heap := h3, obj := o, out := .array r, wrote := [o.scratch], allocated := [r] }
    else
      let (h1, s) := h.alloc (List.replicate o.n 0)
      let cube := Ev.imageCube o.n o.m x
      let h2 := h1.write s cube
      let h3 := h2.write s (Ev.p2d o.lower o.upper cube)
      let (h4, r) := h3.alloc (h3.read s)
      { heap := h4, obj := { o with scratch := s }, out := .array r, wrote := [s], allocated := [s, r] }
  | .inverse arg | .preimages arg =>
    let (h1, s) := h.alloc (h.read arg)
    let cube := Ev.d2p o.lower o.upper (h1.read s)
    let h2 := h1.write s cube
    let x := Ev.inverseCube o.n o.m cube
    -- N ≥ 2: `__GetXonY` leaves the residuals in the scratch array; their values are never read again
    { heap := h2, obj := { o with scratch := s }, out := .number x, wrote := [s], allocated := [s] }
  | .setBounds lo hi =>
    { heap := h, obj := { o with lower := h.read lo, upper := h.read hi }, out := .unit, wrote := [], allocated := [] }

end EvObj
end
