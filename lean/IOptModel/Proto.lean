import IOptModel.Arith
/-!
# Helpers of the line protocol shared by the driver and by stream handlers defined next to their models
-/

abbrev F := Float

def hx (x : F) : String := hexOfFloat x
def hxs (xs : List F) : String := " ".intercalate (xs.map hx)
def hxo (x : Option F) (dflt : String) : String := match x with | some v => hx v | none => dflt

def parseF (s : String) : Option F := floatOfHex? s
def parseFs (l : List String) : Option (List F) := l.mapM parseF


def ints (l : List Int) : String := " ".intercalate (l.map toString)
def nats (l : List Nat) : String := " ".intercalate (l.map toString)
def optNat (o : Option Nat) : String := match o with | some n => toString n | none => "-"
