import IOptModel.Arith
/-!
# Models of the benchmark objective functions (`iOpt/problems/*.py`)

Each family is one function over a numeric type `α`, written in the association order of the Python
source so that the `Float` instance is bit-exact.  Coefficient tables are *arguments*: the driver and
the generated obligations (`IOptGen`) pass the tables extracted from the running Python modules.
-/

section
variable {α : Type} [Add α] [Sub α] [Mul α] [Div α] [Neg α] [LT α] [LE α]
  [DecidableLT α] [DecidableLE α] [OfNat α 0] [OfNat α 1] [OfNat α 2] [NatCast α] [MathFns α]

namespace Prob

def nat (n : Nat) : α := (n : α)

/-- `Hill.Calculate`: `res = res + a[i]*sin(2*i*pi*x) + b[i]*cos(2*i*pi*x)` for i = 0..13 -/
def hill (a b : List α) (x : α) : α :=
  (List.zip a b).zipIdx.foldl
    (fun res ((ai, bi), i) =>
      res + ai * MathFns.sin (nat (2 * i) * MathFns.pi * x) + bi * MathFns.cos (nat (2 * i) * MathFns.pi * x))
    0

/-- `Shekel.Calculate`: `res = res - 1 / (k[i]*pow(x - a[i], 2) + c[i])` -/
def shekel (k a c : List α) (x : α) : α :=
  (List.zip k (List.zip a c)).foldl
    (fun res (ki, ai, ci) => res - 1 / (ki * MathFns.pow (x - ai) 2 + ci))
    0

/-- `Shekel4.Calculate` with the first `maxI` rows of `a`, `c` -/
def shekel4 (a : List (List α)) (c : List α) (x : List α) : α :=
  (List.zip a c).foldl
    (fun res (ai, ci) =>
      let den := (List.zip x ai).foldl (fun den (xj, aij) => den + MathFns.pow (xj - aij) 2) 0
      res - 1 / (den + ci))
    0

/-- `Rastrigin.Calculate`: `sum += x*x - 10*cos(2*pi*x) + 10` -/
def rastrigin (x : List α) : α :=
  x.foldl (fun sum xi => sum + (xi * xi - nat 10 * MathFns.cos (2 * MathFns.pi * xi) + nat 10)) 0

/-- `XSquared.Calculate` -/
def xsquared (x : List α) : α :=
  x.foldl (fun sum xi => sum + xi * xi) 0

/-- the angle-addition recurrences of `GrishaginFunction.Calculate`: `(sn[0..6], cs[0..6])` -/
def grishTrig (t : α) : List α × List α :=
  let d := MathFns.pi * t
  let s1 := MathFns.sin d
  let c1 := MathFns.cos d
  let rec go : Nat → α → α → List α → List α → List α × List α
    | 0, _, _, sn, cs => (sn.reverse, cs.reverse)
    | k+1, s, c, sn, cs =>
      let s' := s * c1 + c * s1
      let c' := c * c1 - s * s1
      go k s' c' (s' :: sn) (c' :: cs)
  go 6 s1 c1 [s1] [c1]

/-- `GrishaginFunction.Calculate` with coefficient matrices as lists of rows `af[i][j]` -/
def grishagin (af bf cf df : List (List α)) (x0 x1 : α) : α :=
  let (snx, csx) := grishTrig x0
  let (sny, csy) := grishTrig x1
  let rows := List.zip (List.zip af bf) (List.zip cf df) |>.zip (List.zip snx csx)
  let (d1, d2) := rows.foldl
    (fun (acc : α × α) (((afi, bfi), (cfi, dfi)), (sxi, cxi)) =>
      let cols := List.zip (List.zip afi bfi) (List.zip cfi dfi) |>.zip (List.zip sny csy)
      cols.foldl (fun (acc : α × α) (((a, b), (c, d)), (syj, cyj)) =>
        (acc.1 + a * sxi * syj + b * cxi * cyj, acc.2 + c * sxi * syj - d * cxi * cyj)) acc)
    (0, 0)
  let minusOne : α := -1
  minusOne * MathFns.sqrt (d1 * d1 + d2 * d2)

/-! ### GKLS (D-type function) -/

/-- the data produced by `GKLS_arg_generate` that `CalculateDFunction` reads -/
structure GklsData (α : Type) where
  dim : Nat
  /-- `local_min[i]`, i = 0..num_minima-1 (index 0 = paraboloid vertex, 1 = global minimiser) -/
  localMin : List (List α)
  rho : List α
  f : List α

/-- constants of `GKLSFunction` that appear in `CalculateDFunction` -/
structure GklsConsts (α : Type) where
  maxValue : α      -- 1E+100
  precision : α     -- 1.0E-10
  domainLeft : α    -- -1.0
  domainRight : α   --  1.0
  three : α         -- 3.0
  four : α          -- 4.0

/-- `GKLS_norm` -/
def gklsNorm (x1 x2 : List α) : α :=
  MathFns.sqrt ((List.zip x1 x2).foldl (fun n (a, b) => n + (a - b) * (a - b)) 0)

/-- the `while` search for the first ball (index ≥ 1) containing `x` -/
def gklsFindBall (x : List α) : List (List α × α × α) → Option (List α × α × α)
  | [] => none
  | (m, rho, f) :: t => if rho < gklsNorm m x then gklsFindBall x t else some (m, rho, f)

/-- `GKLSFunction.CalculateDFunction` (with `isArgSet = 1`) -/
def gkls (k : GklsConsts α) (d : GklsData α) (x : List α) : α :=
  if x.any (fun xi => xi < k.domainLeft - k.precision ∨ k.domainRight + k.precision < xi) then k.maxValue
  else
    let t := d.localMin.headD []
    let f0 := d.f.headD 0
    match gklsFindBall x ((List.zip d.localMin (List.zip d.rho d.f)).drop 1) with
    | none =>
      let norm := gklsNorm t x
      norm * norm + f0
    | some (m, rho, fi) =>
      if gklsNorm x m < k.precision then fi
      else
        let norm0 := gklsNorm t m
        let a := norm0 * norm0 + f0 - fi
        let norm := gklsNorm m x
        let scal := (List.zip x (List.zip t m)).foldl (fun s (xi, ti, mi) => s + (xi - mi) * (ti - mi)) 0
        (2 / rho / rho * scal / norm - 2 * a / rho / rho / rho) * norm * norm * norm
          + (1 - k.four * scal / norm / rho + k.three * a / rho / rho) * norm * norm + fi

end Prob
end
