/-!
# Model of `iOpt/method/search_data.py` at pointer level

`SearchData` is modelled as the code builds it: `trials` = `_allTrials` (insertion order; the index
of an item in it is its identity), each item with its coordinate, its two neighbour links and its
characteristics; `first` = `__firstDataItem`; the queues are lists kept in descending key order.

`CharacteristicsQueue` wraps the third-party `depq.DEPQ`; its contract (recorded in the trusted
base and checked against the real DEPQ on every correspondence run): `insert` puts the entry after
all entries whose key is `≥` the new key, `popfirst` removes the head, and when `maxlen` is
exceeded the last entry is dropped.

Keys and coordinates live in arbitrary types with Boolean comparison functions, so the same
definitions run on doubles in the driver and are reasoned about over any linear order.
-/

namespace SD

/-! ## The bounded priority queue -/

/-- DEPQ.insert: after all entries with key ≥ k (`le k k'` reads `k ≤ k'`). -/
def qinsertRaw {κ β : Type} (le : κ → κ → Bool) (k : κ) (v : β) : List (κ × β) → List (κ × β)
  | [] => [(k, v)]
  | (k', v') :: t => if le k k' then (k', v') :: qinsertRaw le k v t else (k, v) :: (k', v') :: t

/-- insert followed by the `maxlen` eviction (`_poplast`) -/
def qinsert {κ β : Type} (le : κ → κ → Bool) (maxlen : Option Nat) (k : κ) (v : β)
    (q : List (κ × β)) : List (κ × β) :=
  let q' := qinsertRaw le k v q
  match maxlen with
  | some n => if n < q'.length then q'.dropLast else q'
  | none => q'

/-! ## Items and the container -/

structure Item (χ κ : Type) where
  x : χ
  left : Option Nat := none
  right : Option Nat := none
  globalR : κ
  localR : κ
deriving Repr

structure State (χ κ : Type) where
  trials : Array (Item χ κ) := #[]
  first : Option Nat := none
  gq : List (κ × Nat) := []
  lq : List (κ × Nat) := []
  maxlen : Option Nat := none
  dual : Bool := false

inductive Err where
  | attributeError   -- Python raises AttributeError ('NoneType' object has no attribute ...)
  | indexError       -- DEPQ is already empty
deriving Repr, DecidableEq

variable {χ κ : Type}

def setLeft (s : State χ κ) (i : Nat) (l : Option Nat) : State χ κ :=
  { s with trials := s.trials.modify i fun it => { it with left := l } }

def setRight (s : State χ κ) (i : Nat) (r : Option Nat) : State χ κ :=
  { s with trials := s.trials.modify i fun it => { it with right := r } }

/-- `for item in self` : follow `right` from `first` (fuel = number of items; the walk of a
well-formed container ends earlier) -/
def walk (s : State χ κ) : Nat → Option Nat → List Nat
  | 0, _ => []
  | _, none => []
  | fuel+1, some i => i :: walk s fuel (s.trials[i]?.bind (·.right))

def traversal (s : State χ κ) : List Nat := walk s s.trials.size s.first

/-- `FindDataItemByOneDimensionalPoint`: first item in traversal order with `X > x` -/
def find (lt : χ → χ → Bool) (s : State χ κ) (x : χ) : Option Nat :=
  (traversal s).find? fun i => match s.trials[i]? with
    | some it => lt x it.x
    | none => false

def qIns (le : κ → κ → Bool) (s : State χ κ) (q : List (κ × Nat)) (k : κ) (i : Nat) : List (κ × Nat) :=
  qinsert le s.maxlen k i q

/-- `InsertFirstDataItem(left, right)` with fresh items -/
def insertFirst (s : State χ κ) (l r : Item χ κ) : State χ κ :=
  let li := s.trials.size
  let ri := li + 1
  { s with trials := (s.trials.push { l with right := some ri }).push { r with left := some li },
           first := some li }

/-- `InsertDataItem(new, right)`; `hint = none` is the call without a right neighbour. The four
pointer writes are in the code's order; `AttributeError` where Python would dereference `None`. -/
def insert (lt : χ → χ → Bool) (le : κ → κ → Bool) (s : State χ κ) (new : Item χ κ) (hint : Option Nat) :
    Except Err (State χ κ) :=
  let flag := hint.isSome
  let rightOpt := match hint with
    | some h => some h
    | none => find lt s new.x
  match rightOpt with
  | none => .error .attributeError           -- rightDataItem.GetLeft() on None
  | some r =>
    match s.trials[r]? with
    | none => .error .attributeError
    | some rit =>
      let ni := s.trials.size
      let newL := rit.left                    -- newDataItem.SetLeft(rightDataItem.GetLeft())
      let s1 : State χ κ := { s with trials := s.trials.push { new with left := newL, right := some r } }
      let s2 := setLeft s1 r (some ni)        -- rightDataItem.SetLeft(newDataItem)
      match newL with
      | none => .error .attributeError        -- newDataItem.GetLeft().SetRight(...) on None
      | some l =>
        let s3 := setRight s2 l (some ni)
        let gq := qIns le s3 s3.gq new.globalR ni
        let lq := if s.dual then qIns le s3 s3.lq new.localR ni else s3.lq
        let (gq, lq) := if flag then
            (qIns le s3 gq rit.globalR r, if s.dual then qIns le s3 lq rit.localR r else lq)
          else (gq, lq)
        .ok { s3 with gq := gq, lq := lq }

def clearQueue (s : State χ κ) : State χ κ := { s with gq := [], lq := [] }

/-- `RefillQueue` -/
def refill (le : κ → κ → Bool) (s : State χ κ) : State χ κ :=
  let s0 := clearQueue s
  (traversal s).foldl (fun acc i => match acc.trials[i]? with
    | some it => { acc with gq := qIns le acc acc.gq it.globalR i,
                            lq := if acc.dual then qIns le acc acc.lq it.localR i else acc.lq }
    | none => acc) s0

/-- base-class `GetDataItemWithMaxGlobalR`: refill if empty, pop the head -/
def popMaxGlobal (le : κ → κ → Bool) (s : State χ κ) : Except Err (State χ κ × Nat × κ) :=
  let s := if s.gq.isEmpty then refill le s else s
  match s.gq with
  | [] => .error .indexError
  | (k, i) :: t => .ok ({ s with gq := t }, i, k)

/-- dual-queue `GetDataItemWithMax{Global,Local}R`: pop until the queued key equals the item's
current characteristic, refilling when the queue runs empty. Structural recursion on `fuel`
(callers pass queue length + number of items + 2, enough when keys are comparable with `ne`). -/
def popCurrent (le : κ → κ → Bool) (ne : κ → κ → Bool) (glob : Bool) :
    Nat → State χ κ → Except Err (State χ κ × Nat × κ)
  | 0, _ => .error .indexError
  | fuel+1, s =>
    let q := if glob then s.gq else s.lq
    let s := if q.isEmpty then refill le s else s
    let q := if glob then s.gq else s.lq
    match q with
    | [] => .error .indexError
    | (k, i) :: t =>
      let s' : State χ κ := if glob then { s with gq := t } else { s with lq := t }
      match s'.trials[i]? with
      | none => .error .attributeError
      | some it =>
        let cur := if glob then it.globalR else it.localR
        if ne k cur then popCurrent le ne glob fuel s' else .ok (s', i, k)

def setGlobalR (s : State χ κ) (i : Nat) (k : κ) : State χ κ :=
  { s with trials := s.trials.modify i fun it => { it with globalR := k } }

def setLocalR (s : State χ κ) (i : Nat) (k : κ) : State χ κ :=
  { s with trials := s.trials.modify i fun it => { it with localR := k } }

end SD
