import IOptModel.Arith
import IOptModel.SearchData
/-!
# Model of `iOpt/method/method.py` (the AGP iteration) and of `Process` in `iOpt/method/process.py`

The search information is held as the list of items in traversal order (increasing curve
coordinate); identity of an item is its index in `_allTrials` (`id`).  The pointer-level container
is modelled separately in `SearchData.lean`; `IOptProps/C19.lean` proves that, under the hint
precondition established here (`IOptProps/C02.lean`, `next_point_inside`), the pointer-level
operations refine exactly these list operations.

The objective is not part of the state: an iteration is split into `prepare` (everything up to the
call of `Problem.Calculate`: recalculation, selection, the new coordinate and its image) and
`commit` (everything after it, given the value returned).  `iterate` composes them with an oracle
that may fail (C16).

All arithmetic is written in the association order of the Python source, so that the `Float`
instance reproduces the implementation bit for bit.
-/

section
variable {α : Type} [Add α] [Sub α] [Mul α] [Div α] [Neg α] [LT α] [LE α]
  [DecidableLT α] [DecidableLE α] [OfNat α 0] [OfNat α 1] [OfNat α 2] [OfNat α 4] [Fns α]

namespace AGP

/-- An element of the search information: the interval `(left.x, x]` with its right end. -/
structure Item (α : Type) where
  id : Nat
  x : α
  /-- image of `x` on the box -/
  point : List α
  /-- `GetZ()`; `Fns.big` for the never-evaluated end points -/
  z : α
  /-- `functionValues[0].value`: the content of the item's value holder (what a `Solution` reports);
  equals `z` for evaluated items until a local refinement overwrites it; `0.0` for end points -/
  hv : α
  /-- `GetIndex() == 0` (evaluated) as opposed to `-2` -/
  ev : Bool
  delta : α
  /-- `globalR`; `none` is `-inf` (the first item, which has no left neighbour) -/
  R : Option α

/-- Order on queue keys: `none` (= `-inf`) is below everything. `keyLe a b` reads `a ≤ b`. -/
def keyLe : Option α → Option α → Bool
  | none, _ => true
  | some _, none => false
  | some a, some b => decide (a ≤ b)

structure Params (α : Type) where
  n : Nat
  r : α
  eps : α
  itersLimit : Nat
  /-- `evolvent.GetImage` -/
  image : α → List α

/-- State of `Method` + `SearchData` + the `Solution` fields after the first iteration. -/
structure State (α : Type) where
  /-- traversal order -/
  items : List (Item α)
  /-- `_RGlobalQueue`: (key, item id), head = best -/
  queue : List (Option α × Nat)
  M : α
  Z : α
  /-- id of `Method.best` = `solution.bestTrials[0]` -/
  best : Nat
  recalc : Bool
  iters : Nat
  /-- `solution.solutionAccuracy`; `none` = `inf` -/
  minDelta : Option α
  /-- `solution.numberOfGlobalTrials` -/
  nTrials : Nat
  /-- `len(_allTrials)` -/
  nextId : Nat

inductive Raise where
  | leftIsNone          -- "CalculateNextPointCoordinate: Left point is NONE"
  | outsideInterval     -- "CalculateNextPointCoordinate: x is outside of interval"
  | objective           -- the objective raised
  | emptyQueue
deriving Repr, DecidableEq

def half : α := 1 / 2

/-- `Method.CalculateDelta` -/
def calcDelta (n : Nat) (lx rx : α) : α := Fns.root (rx - lx) n

/-- `Method.CalculateGlobalR(curr, left)` for `left ≠ None`. -/
def calcR (r M Z : α) (left cur : Item α) : α :=
  let zl := left.z
  let zr := cur.z
  let d := cur.delta
  if left.ev == cur.ev then
    d + (zr - zl) * (zr - zl) / (d * M * M * r * r) - 2 * (zr + zl - 2 * Z) / (r * M)
  else if !left.ev && cur.ev then
    2 * d - 4 * (zr - Z) / (r * M)
  else
    2 * d - 4 * (zl - Z) / (r * M)

/-- `for item in searchData: CalculateGlobalR(item, item.GetLeft())` -/
def recalcItems (r M Z : α) : Option (Item α) → List (Item α) → List (Item α)
  | _, [] => []
  | none, it :: t => let it' := { it with R := none }; it' :: recalcItems r M Z (some it') t
  | some l, it :: t => let it' := { it with R := some (calcR r M Z l it) }; it' :: recalcItems r M Z (some it') t

def qinsert (q : List (Option α × Nat)) (k : Option α) (i : Nat) : List (Option α × Nat) :=
  SD.qinsertRaw keyLe k i q

/-- `RefillQueue` -/
def refillQueue (items : List (Item α)) : List (Option α × Nat) :=
  items.foldl (fun q it => qinsert q it.R it.id) []

/-- `RecalcAllCharacteristics` (when `recalc` is set) -/
def recalcAll (p : Params α) (s : State α) : State α :=
  if s.recalc then
    let items := recalcItems p.r s.M s.Z none s.items
    { s with items := items, queue := refillQueue items, recalc := false }
  else s

def findItem (items : List (Item α)) (id : Nat) : Option (Item α) := items.find? (·.id == id)

/-- left neighbour in traversal order of the item with this id -/
def leftOf : List (Item α) → Nat → Option (Item α)
  | a :: b :: t, id => if b.id == id then some a else leftOf (b :: t) id
  | _, _ => none

/-- `Method.CalculateNextPointCoordinate` (without the final range test) -/
def nextX (p : Params α) (M : α) (left cur : Item α) : α :=
  let xl := left.x
  let xr := cur.x
  if left.ev == cur.ev then
    let dif := cur.z - left.z
    let q := half * Fns.powN (Fns.abs dif / M) p.n / p.r
    if 0 < dif then half * (xl + xr) - q else half * (xl + xr) + q
  else half * (xl + xr)

def minOpt (a : α) : Option α → α
  | none => a
  | some b => if b < a then b else a     -- Python `min(a, b)`: `b` only if `b < a`

/-- What `CalculateIterationPoint` hands to the evaluation. -/
structure Prep (α : Type) where
  s : State α          -- state after recalculation, pop and the `min_delta` update
  old : Item α
  left : Item α
  x : α
  point : List α

/-- `Method.CalculateIterationPoint`. On a raise the partially updated state is returned. -/
def prepare (p : Params α) (s : State α) : Except (State α × Raise) (Prep α) :=
  let s := recalcAll p s
  let s := if s.queue.isEmpty then { s with queue := refillQueue s.items } else s
  match s.queue with
  | [] => .error (s, .emptyQueue)
  | (_, oid) :: q =>
    let s := { s with queue := q }
    match findItem s.items oid with
    | none => .error (s, .emptyQueue)
    | some old =>
      let s := { s with minDelta := some (minOpt old.delta s.minDelta) }
      match leftOf s.items oid with
      | none => .error (s, .leftIsNone)
      | some left =>
        let x := nextX p s.M left old
        if x ≤ left.x ∨ old.x ≤ x then .error (s, .outsideInterval)
        else .ok { s := s, old := old, left := left, x := x, point := p.image x }

/-- `Method.CalculateM(curr, left)` -/
def calcM (M : α) (recalc : Bool) (left cur : Item α) : α × Bool :=
  if left.ev == cur.ev then
    let m := Fns.abs (left.z - cur.z) / cur.delta
    if M < m then (m, true) else (M, recalc)
  else (M, recalc)

/-- insert `new` immediately before the item with id `oid`, replacing that item by `old'` -/
def insertBefore (new old' : Item α) : List (Item α) → List (Item α)
  | [] => []
  | it :: t => if it.id == old'.id then new :: old' :: t else it :: insertBefore new old' t

/-- `CalculateFunctionals` + `UpdateOptimum` + `RenewSearchData` + `FinalizeIteration`
for the value `z` returned by the objective. -/
def commit (p : Params α) (pr : Prep α) (z : α) : State α :=
  let s := pr.s
  let new0 : Item α := { id := s.nextId, x := pr.x, point := pr.point, z := z, hv := z, ev := true,
                         delta := 0, R := none }
  -- UpdateOptimum
  let bestZ := (findItem s.items s.best).map (·.z)
  let better := match bestZ with
    | some bz => decide (z < bz)
    | none => true
  let (best, recalc, Z) := if better then (new0.id, true, z) else (s.best, s.recalc, s.Z)
  -- RenewSearchData
  let old1 := { pr.old with delta := calcDelta p.n pr.x pr.old.x }
  let new1 := { new0 with delta := calcDelta p.n pr.left.x pr.x }
  let (M, recalc) := calcM s.M recalc pr.left new1
  let (M, recalc) := calcM M recalc new1 old1
  let new2 := { new1 with R := some (calcR p.r M Z pr.left new1) }
  let old2 := { old1 with R := some (calcR p.r M Z new2 old1) }
  let items := insertBefore new2 old2 s.items
  let q := qinsert s.queue new2.R new2.id
  let q := qinsert q old2.R old2.id
  { s with items := items, queue := q, M := M, Z := Z, best := best, recalc := recalc,
           iters := s.iters + 1, nTrials := s.nTrials + 1, nextId := s.nextId + 1 }

/-- `Method.FirstIteration` for the value `z` of the objective at `image 0.5`. -/
def firstIteration (p : Params α) (z : α) : State α :=
  let x : α := half
  let left : Item α := { id := 0, x := 0, point := p.image 0, z := Fns.big, hv := 0, ev := false, delta := 0, R := none }
  let middle0 : Item α := { id := 2, x := x, point := p.image x, z := z, hv := z, ev := true,
                            delta := calcDelta p.n 0 x, R := none }
  let right0 : Item α := { id := 1, x := 1, point := p.image 1, z := Fns.big, hv := 0, ev := false,
                           delta := calcDelta p.n x 1, R := none }
  let M : α := 1
  let Z := z
  let middle := { middle0 with R := some (calcR p.r M Z left middle0) }
  let right := { right0 with R := some (calcR p.r M Z middle right0) }
  let q := qinsert [] middle.R middle.id
  let q := qinsert q right.R right.id
  { items := [left, middle, right], queue := q, M := M, Z := Z, best := 2, recalc := true,
    iters := 1, minDelta := none, nTrials := 1, nextId := 3 }

/-- the point of the first trial -/
def firstPoint (p : Params α) : List α := p.image half

/-- `Method.CheckStopCondition` -/
def stopCond (p : Params α) (s : State α) : Bool :=
  (match s.minDelta with
   | some d => decide (d < p.eps)
   | none => false) || decide (p.itersLimit ≤ s.iters)

/-- One global iteration (not the first) with an objective that may fail. -/
def iterate (p : Params α) (f : List α → Option α) (s : State α) : Except (State α × Raise) (State α) :=
  match prepare p s with
  | .error e => .error e
  | .ok pr =>
    match f pr.point with
    | none => .error (pr.s, .objective)
    | some z => .ok (commit p pr z)

end AGP
end
