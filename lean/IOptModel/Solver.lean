import IOptModel.Process
import IOptModel.Evolvent
/-!
# Model of `Solver.__init__` (`iOpt/solver.py`): how the parts are wired

`Solver(problem, parameters)` builds `Evolvent(problem.lower, problem.upper, problem.numberOfFloatVariables,
parameters.evolventDensity)` and hands it, with the parameters, to `Method`/`Process`.  The only
content here is WHICH density and bounds reach the evolvent (property C20; defect F4 was that the
density was not passed at all and the evolvent default 10 was used).
-/

section
variable {α : Type} [Add α] [Sub α] [Mul α] [Div α] [Neg α] [LT α] [LE α]
  [DecidableLT α] [DecidableLE α] [OfNat α 0] [OfNat α 1] [OfNat α 2] [NatCast α] [TruncNat α]

namespace Solver

/-- the fields of `Problem` and `SolverParameters` that the global search reads -/
structure Config (α : Type) where
  /-- `problem.numberOfFloatVariables` -/
  n : Nat
  lower : List α
  upper : List α
  /-- `SolverParameters` -/
  eps : α
  r : α
  itersLimit : Nat
  evolventDensity : Nat

/-- `Solver.__init__`: the parameters of the search, with the evolvent of the CONFIGURED density -/
def mk (c : Config α) : AGP.Params α :=
  { n := c.n, r := c.r, eps := c.eps, itersLimit := c.itersLimit,
    image := fun x => Ev.getImage c.n c.evolventDensity c.lower c.upper x }

end Solver
end
