import IOptModel.Proto
/-!
# Several `Solver` instances in one Python process — aliasing model for property C12

What can leak between solver instances in Python is *shared mutable objects*.  This model makes object identity
explicit and records WHO allocates, aliases and writes WHAT; the numeric search itself is modelled elsewhere
(`IOptModel/Method.lean`, `Process.lean`) and enters here only through oracle inputs: the value `z` of the new trial
and the flag `better` ("the new trial became `Method.best`").

## Objects (`Cell`) and addresses (`Ref`)
* `Cell.list c`        a Python list of length ≤ 1 (`Solution.bestTrials`, `Trial.functionValues`); `c` = its element
* `Cell.holder v`      a `FunctionValue` with `.value = v`
* `Cell.item fv`       a `Trial` / `SearchDataItem`; `fv` = its `.functionValues` (a list)
* `Cell.solution l k`  a `Solution`; `l` = its `.bestTrials` (a list), `k` = its `.numberOfGlobalTrials`

An address `Ref` is the pair (allocating solver, serial number of the allocation by that solver); `owner = none` is the
module level (objects created once at import time: default-argument values).  Only identity of addresses matters (the
line protocol prints identities canonically, numbered by first appearance), so this choice is without loss against a
flat address space; it makes "allocated by" a property of the address.  Nothing in `step` is restricted to the region
of the acting solver: every read and write goes through a `Ref` found by following pointers, wherever it points; that
the pointers of solver `i` never leave region `i` in the current code is a THEOREM (`IOptProps/C12.lean`), and fails in
the legacy variant below.

## Statement-level correspondence (repaired code)
* `Solver.__init__` → `SearchData.__init__`: `self.solution = Solution(problem)`; `Solution.__init__`:
  `bestTrials = [Trial([], [])]` (fresh list, fresh placeholder trial whose `functionValues` is a fresh EMPTY list).
* `Method.FirstIteration`: `middle`, `left`, `right = SearchDataItem(...)`, each with `functionValues = [FunctionValue()]`
  (fresh); `CalculateFunctionals(middle)`; `UpdateOptimum(middle)`; `_allTrials = [left, right, middle]`.
* `OptimizationTask.Calculate`: `item.functionValues[0] = problem.Calculate(item.point, item.functionValues[0])` — the problem
  writes `.value` of the holder and returns it; it is stored back into the list; then `solution.numberOfGlobalTrials += 1`.
* `Method.UpdateOptimum`: `self.best = point` if better; `self.searchData.solution.bestTrials[0] = self.best` on EVERY call.
* `Method.CalculateIterationPoint`: `new = copy.deepcopy(SearchDataItem(...))`: item, list and holder all fresh.
* `Process.GetResults`: `return self.searchData.solution` (no write).
## Legacy variant (the pinned code before the repair, negative control)
`Solution.__init__(bestTrials=[Trial([], [])])` and `SearchDataItem.__init__(functionValues=[FunctionValue()])`: the default
values are module-level objects created once; `Variant.sharedBestTrials` / `sharedFunctionValues` switch them on
individually.  With `sharedFunctionValues` the `deepcopy` in `CalculateIterationPoint` copies the shared list and holder
(with the holder's current value), so items of later iterations are still fresh.
-/

namespace World

/-- address of an object: who allocated it (`none` = module level, at import time) and its serial number there -/
structure Ref where
  owner : Option Nat
  idx : Nat
deriving DecidableEq, Repr

inductive Cell (V : Type) where
  | list (content : Option Ref)
  | holder (value : V)
  | item (fv : Ref)
  | solution (bestTrials : Ref) (trials : Nat)
deriving DecidableEq, Repr

/-- the pointers stored in a cell -/
def Cell.refs {V : Type} : Cell V → List Ref
  | .list c => c.toList
  | .holder _ => []
  | .item fv => [fv]
  | .solution l _ => [l]

/-! Attribute access on the result of a read (`none` = Python raises `AttributeError` / `IndexError`) -/
/-- `x.functionValues` of a trial -/
def Cell.fv? {V : Type} : Option (Cell V) → Option Ref
  | some (.item fl) => some fl
  | _ => none
/-- `x[0]` of a list -/
def Cell.head? {V : Type} : Option (Cell V) → Option Ref
  | some (.list (some h)) => some h
  | _ => none
/-- `x.value` of a `FunctionValue` -/
def Cell.value? {V : Type} : Option (Cell V) → Option V
  | some (.holder v) => some v
  | _ => none
/-- `(x.bestTrials, x.numberOfGlobalTrials)` of a `Solution` -/
def Cell.sol? {V : Type} : Option (Cell V) → Option (Ref × Nat)
  | some (.solution l k) => some (l, k)
  | _ => none

/-- what a `Solver` object (with its `SearchData`, `Method`, `Process`) holds -/
structure SolverSt where
  /-- `searchData.solution` -/
  solution : Ref
  /-- `searchData._allTrials`, in order -/
  items : List Ref := []
  /-- `method.best` -/
  best : Option Ref := none
  /-- `not process.__first_iteration` -/
  started : Bool := false
deriving DecidableEq, Repr

/-- everything that belongs to one solver: the objects it allocated, its fields, and the `Solution` references its
user has received from `GetResults` so far -/
structure Comp (V : Type) where
  heap : List (Cell V) := []
  st : Option SolverSt := none
  handed : List Ref := []

structure State (V : Type) where
  /-- objects created at import time (default-argument values) -/
  modHeap : List (Cell V) := []
  solver : Nat → Comp V := fun _ => {}

structure Variant where
  /-- `Solution.__init__(bestTrials=[Trial([], [])])` -/
  sharedBestTrials : Bool := false
  /-- `SearchDataItem.__init__(functionValues=[FunctionValue()])` -/
  sharedFunctionValues : Bool := false
deriving DecidableEq, Repr

/-- the current code -/
def repaired : Variant := {}
/-- the pinned code before the repair -/
def legacy : Variant := { sharedBestTrials := true, sharedFunctionValues := true }

inductive Op (V : Type) where
  /-- `Solver(problem, params)` -/
  | construct
  /-- `DoGlobalIteration(1)` on a solver that has not iterated yet; `z` = objective value at the middle point -/
  | first (z : V)
  /-- `DoGlobalIteration(1)` afterwards; `z` = value at the new point, `better` = the new point became `method.best` -/
  | iter (z : V) (better : Bool)
  /-- `GetResults()` -/
  | results
deriving Repr

/-- what a step did -/
structure Out where
  /-- refs of pre-existing or new objects that were assigned to -/
  wrote : List Ref := []
  /-- refs of the objects created by the step -/
  allocated : List Ref := []
  /-- the `Solution` returned to the user (`results`) -/
  returned : Option Ref := none
deriving DecidableEq, Repr

section
variable {V : Type}

def upd {β : Type} (f : Nat → β) (k : Nat) (v : β) : Nat → β := fun j => if j = k then v else f j

namespace State

def setComp (w : State V) (k : Nat) (c : Comp V) : State V := { w with solver := upd w.solver k c }

def read (w : State V) (r : Ref) : Option (Cell V) :=
  match r.owner with
  | none => w.modHeap[r.idx]?
  | some k => (w.solver k).heap[r.idx]?

/-- assignment to a field / element of the object at `r` (no effect on an address never allocated) -/
def write (w : State V) (r : Ref) (c : Cell V) : State V :=
  match r.owner with
  | none => { w with modHeap := w.modHeap.set r.idx c }
  | some k => w.setComp k { w.solver k with heap := (w.solver k).heap.set r.idx c }

/-- object creation executed by solver `k` -/
def alloc (w : State V) (k : Nat) (c : Cell V) : State V × Ref :=
  (w.setComp k { w.solver k with heap := (w.solver k).heap ++ [c] }, ⟨some k, (w.solver k).heap.length⟩)

end State

/-! ### module-level objects of the legacy variant -/
variable [OfNat V 0]

/-- import time: the default-argument objects, if the variant has them.
`sharedBestTrials`: `[]` (functionValues of the placeholder), `Trial([], [])`, `[Trial]`;
`sharedFunctionValues`: `FunctionValue()`, `[FunctionValue]`. -/
def init (vr : Variant) : State V :=
  { modHeap :=
      (if vr.sharedBestTrials then [.list none, .item ⟨none, 0⟩, .list (some ⟨none, 1⟩)] else []) ++
      (if vr.sharedFunctionValues then
        (if vr.sharedBestTrials then [.holder 0, .list (some ⟨none, 3⟩)] else [.holder 0, .list (some ⟨none, 0⟩)])
       else []) }

/-- the default `bestTrials` list -/
def modBestTrials : Ref := ⟨none, 2⟩
/-- the default `functionValues` list -/
def modFunctionValues (vr : Variant) : Ref := ⟨none, if vr.sharedBestTrials then 4 else 1⟩

/-! ### pieces of the steps -/

/-- `SearchDataItem(y, x)` as called by `FirstIteration`: returns the item and the refs created -/
def newItem (vr : Variant) (w : State V) (i : Nat) : State V × Ref × List Ref :=
  if vr.sharedFunctionValues then
    let (w, n) := w.alloc i (.item (modFunctionValues vr))
    (w, n, [n])
  else
    let (w, h) := w.alloc i (.holder 0)
    let (w, fl) := w.alloc i (.list (some h))
    let (w, n) := w.alloc i (.item fl)
    (w, n, [h, fl, n])

/-- value of the holder inside the list `fl` (default `0` when there is none) -/
def holderValue (w : State V) (fl : Ref) : V :=
  match (Cell.head? (w.read fl)).bind (fun h => Cell.value? (w.read h)) with
  | some v => v
  | none => 0

/-- `copy.deepcopy(SearchDataItem(y, x))` as called by `CalculateIterationPoint`: item, list and holder are all new;
in the variant with the shared default the copy carries the shared holder's current value -/
def newItemCopy (vr : Variant) (w : State V) (i : Nat) : State V × Ref × List Ref :=
  let v0 : V := if vr.sharedFunctionValues then holderValue w (modFunctionValues vr) else 0
  let (w, h) := w.alloc i (.holder v0)
  let (w, fl) := w.alloc i (.list (some h))
  let (w, n) := w.alloc i (.item fl)
  (w, n, [h, fl, n])

/-- `CalculateFunctionals(n)`: `n.functionValues[0] = problem.Calculate(n.point, n.functionValues[0])` (the problem assigns
`.value = z` and returns the same holder), then `solution.numberOfGlobalTrials += 1`.  `none` = Python raises.
Returns the refs assigned to. -/
def calculate (w : State V) (sol n : Ref) (z : V) : Option (State V × List Ref) := do
  let fl ← Cell.fv? (w.read n)            -- n.functionValues
  let h ← Cell.head? (w.read fl)          -- [0]
  let _ ← Cell.value? (w.read h)          -- it is a FunctionValue
  let w := w.write h (.holder z)          -- functionValue.value = z   (inside problem.Calculate)
  let w := w.write fl (.list (some h))    -- n.functionValues[0] = <returned holder>
  let (l, k) ← Cell.sol? (w.read sol)
  some (w.write sol (.solution l (k + 1)), [h, fl, sol])   -- solution.numberOfGlobalTrials += 1

/-- the tail of `UpdateOptimum`: `self.searchData.solution.bestTrials[0] = self.best` (`IndexError` on an empty list) -/
def storeBest (w : State V) (sol b : Ref) : Option (State V × List Ref) := do
  let (l, _) ← Cell.sol? (w.read sol)     -- solution.bestTrials
  let _ ← Cell.head? (w.read l)           -- must have an element 0
  some (w.write l (.list (some b)), [l])

/-! ### the steps -/

/-- one user-level operation on solver `i`; `none` = not applicable in this state (the protocol answers `bad-op`) or
the Python code would raise; the state is then unchanged -/
def step (vr : Variant) (w : State V) (i : Nat) : Op V → Option (State V × Out)
  | .construct =>
    match (w.solver i).st with
    | some _ => none
    | none =>
      if vr.sharedBestTrials then
        let (w, s) := w.alloc i (.solution modBestTrials 0)
        some (w.setComp i { w.solver i with st := some { solution := s } }, { allocated := [s] })
      else
        let (w, e) := w.alloc i (.list none)
        let (w, t) := w.alloc i (.item e)
        let (w, l) := w.alloc i (.list (some t))
        let (w, s) := w.alloc i (.solution l 0)
        some (w.setComp i { w.solver i with st := some { solution := s } }, { allocated := [e, t, l, s] })
  | .first z => do
    let s ← (w.solver i).st
    if s.started then none else
    let (w, middle, a1) := newItem vr w i
    let (w, left, a2) := newItem vr w i
    let (w, right, a3) := newItem vr w i
    let (w, w1) ← calculate w s.solution middle z
    let (w, w2) ← storeBest w s.solution middle
    some (w.setComp i { w.solver i with
            st := some { s with items := [left, right, middle], best := some middle, started := true } },
          { wrote := w1 ++ w2, allocated := a1 ++ a2 ++ a3 })
  | .iter z better => do
    let s ← (w.solver i).st
    if !s.started then none else
    let b ← s.best
    let (w, n, a) := newItemCopy vr w i
    let (w, w1) ← calculate w s.solution n z
    let b' := if better then n else b
    let (w, w2) ← storeBest w s.solution b'
    some (w.setComp i { w.solver i with st := some { s with items := s.items ++ [n], best := some b' } },
          { wrote := w1 ++ w2, allocated := a })
  | .results => do
    let s ← (w.solver i).st
    some (w.setComp i { w.solver i with handed := (w.solver i).handed ++ [s.solution] }, { returned := some s.solution })

/-- a step that is not applicable leaves the state unchanged -/
def stepW (vr : Variant) (w : State V) (a : Nat × Op V) : State V :=
  match step vr w a.1 a.2 with
  | some (w', _) => w'
  | none => w

/-- run a schedule: a list of (solver id, operation) -/
def runFrom (vr : Variant) (w : State V) (sched : List (Nat × Op V)) : State V := sched.foldl (stepW vr) w

def run (vr : Variant) (sched : List (Nat × Op V)) : State V := runFrom vr (init vr) sched

/-! ### observations -/

/-- `sol.bestTrials[0].functionValues[0].value` for a `Solution` reference `sol`; `none` = Python raises (`IndexError` on the
placeholder of a solver that has not iterated) -/
def report (w : State V) (sol : Ref) : Option V := do
  let (l, _) ← Cell.sol? (w.read sol)
  let b ← Cell.head? (w.read l)
  let fl ← Cell.fv? (w.read b)
  let h ← Cell.head? (w.read fl)
  Cell.value? (w.read h)

/-- `sol.numberOfGlobalTrials` -/
def reportTrials (w : State V) (sol : Ref) : Option Nat := (Cell.sol? (w.read sol)).map (·.2)

/-- the objects hanging on a trial: the trial, its `functionValues` list, the holder in it -/
def itemRefs (w : State V) (r : Ref) : List Ref :=
  r :: match Cell.fv? (w.read r) with
    | some fl => fl :: (Cell.head? (w.read fl)).toList
    | none => []

/-- every object reachable from solver `i`'s fields: its `Solution`, the `bestTrials` list and the trial in it, all
trials of `_allTrials`, `method.best`, with their lists and holders -/
def reach (w : State V) (i : Nat) : List Ref :=
  match (w.solver i).st with
  | none => []
  | some s =>
    (s.solution :: match Cell.sol? (w.read s.solution) with
      | some (l, _) => l :: match Cell.head? (w.read l) with
        | some b => itemRefs w b
        | none => []
      | none => [])
    ++ s.items.flatMap (itemRefs w) ++ s.best.toList.flatMap (itemRefs w)

end

/-! ## driver hook (`w.` commands) -/

structure Ctx where
  vr : Variant := {}
  w : State F := {}
  /-- constructed solver ids, in construction order -/
  ids : List Nat := []
  /-- every `Solution` handed out by `w.results`, in order -/
  handedAll : Array Ref := #[]
  /-- identity table: refs in order of first appearance in the output -/
  seen : Array Ref := #[]

/-- canonical identity number of a ref (numbered by first appearance over the whole script) -/
def ident (c : Ctx) (r : Ref) : Ctx × String :=
  match c.seen.findIdx? (· == r) with
  | some k => (c, s!"#{k}")
  | none => ({ c with seen := c.seen.push r }, s!"#{c.seen.size}")

def fmtVal (v : Option F) : String := match v with | some v => hx v | none => "error"

/-- `item#/list#/holder#=value` of a trial (`-` where Python has no such object) -/
def fmtItem (c : Ctx) (r : Ref) : Ctx × String :=
  let (c, a) := ident c r
  match c.w.read r with
  | some (.item fl) =>
    let (c, b) := ident c fl
    match c.w.read fl with
    | some (.list (some h)) =>
      let (c, d) := ident c h
      let v := match c.w.read h with | some (.holder v) => hx v | _ => "?"
      (c, s!"{a}/{b}/{d}={v}")
    | _ => (c, s!"{a}/{b}/-")
  | _ => (c, s!"{a}/?")

def fmtSolution (c : Ctx) (sol : Ref) : Ctx × String :=
  let (c, a) := ident c sol
  match c.w.read sol with
  | some (.solution l k) =>
    let (c, b) := ident c l
    (c, s!"sol={a} list={b} value={fmtVal (report c.w sol)} trials={k}")
  | _ => (c, s!"sol={a} ?")

def fmtSolver (c : Ctx) (i : Nat) : Ctx × String :=
  match (c.w.solver i).st with
  | none => (c, s!"S{i}:-")
  | some s =>
    let (c, a) := fmtSolution c s.solution
    let (c, b0) := match c.w.read s.solution with
      | some (.solution l _) => match c.w.read l with
        | some (.list (some b)) => fmtItem c b
        | _ => (c, "-")
      | _ => (c, "?")
    let (c, its) := s.items.foldl (fun (acc : Ctx × List String) r => let (c, t) := fmtItem acc.1 r; (c, acc.2 ++ [t])) (c, [])
    let (c, bs) := match s.best with
      | some b => let (c, t) := ident c b; (c, t)
      | none => (c, "-")
    (c, s!"S{i}: {a} top={b0} best={bs} items[{" ".intercalate its}]")

def parseBool (s : String) : Option Bool := if s == "1" then some true else if s == "0" then some false else none

def runOp (c : Ctx) (i : Nat) (op : Op F) : Option (Ctx × Out) :=
  match step c.vr c.w i op with
  | some (w, o) => some ({ c with w := w }, o)
  | none => none

def stepCmd (c : Ctx) (toks : List String) : Option (Ctx × String) :=
  match toks with
  | ["w.reset"] => some ({}, "ok")
  | ["w.reset", a, b] =>
    match parseBool a, parseBool b with
    | some a, some b =>
      let vr : Variant := { sharedBestTrials := a, sharedFunctionValues := b }
      some ({ vr := vr, w := init vr }, "ok")
    | _, _ => some (c, "bad-op")
  | ["w.construct", i] =>
    match i.toNat? with
    | some i => match runOp c i .construct with
      | some (c, _) => some ({ c with ids := c.ids ++ [i] }, "ok")
      | none => some (c, "bad-op")
    | none => some (c, "bad-op")
  | ["w.first", i, z] =>
    match i.toNat?, parseF z with
    | some i, some z => match runOp c i (.first z) with
      | some (c, _) => some (c, "ok")
      | none => some (c, "bad-op")
    | _, _ => some (c, "bad-op")
  | ["w.iter", i, z, b] =>
    match i.toNat?, parseF z, parseBool b with
    | some i, some z, some b => match runOp c i (.iter z b) with
      | some (c, _) => some (c, "ok")
      | none => some (c, "bad-op")
    | _, _, _ => some (c, "bad-op")
  | ["w.results", i] =>
    match i.toNat? with
    | some i => match runOp c i .results with
      | some (c, o) =>
        match o.returned with
        | some sol =>
          let k := c.handedAll.size
          let c := { c with handedAll := c.handedAll.push sol }
          let (c, t) := fmtSolution c sol
          some (c, s!"k={k} {t}")
        | none => some (c, "bad-op")
      | none => some (c, "bad-op")
    | none => some (c, "bad-op")
  | ["w.report", k] =>
    match k.toNat? with
    | some k => match c.handedAll[k]? with
      | some sol => let (c, t) := fmtSolution c sol; some (c, t)
      | none => some (c, "bad-op")
    | none => some (c, "bad-op")
  | ["w.shape"] =>
    let (c, parts) := c.ids.foldl (fun (acc : Ctx × List String) i => let (c, t) := fmtSolver acc.1 i; (c, acc.2 ++ [t])) (c, [])
    some (c, " | ".intercalate parts)
  | _ => none

end World
