/-!
# Numeric interface of the model

Every numeric part of the model is written once over a type `α` carrying the *standard* operator
classes (`Add`, `Sub`, `Mul`, `Div`, `Neg`, `LT`, `LE` with decidable comparisons and the literals
0, 1, 2, 4) plus the few library functions the Python code calls (`Fns`).  It is

* executed at `α := Float` by the driver (bit-exact against CPython doubles), and
* reasoned about at an arbitrary linearly ordered field, where the standard classes are the
  canonical Mathlib instances, so `ring`, `linarith`, `field_simp` apply directly; the laws of
  `Fns` needed by a proof are explicit hypotheses of the theorem (`FnsLaws` in `IOptProofs`).

No Mathlib import here: the driver is a compiled executable.
-/

/-- Library functions used by the code under model. -/
class Fns (α : Type) where
  /-- Python `abs` on floats. -/
  abs : α → α
  /-- `pow(x, 1.0 / N)` as in `Method.CalculateDelta`. -/
  root : α → Nat → α
  /-- `pow(x, N)` with an `int` exponent (`CalculateNextPointCoordinate`). -/
  powN : α → Nat → α
  /-- `sys.float_info.max`: the value stored in never-evaluated end points (never used in arithmetic). -/
  big : α

instance : Fns Float where
  abs := Float.abs
  root x n := Float.pow x (1.0 / n.toFloat)
  powN x n := Float.pow x n.toFloat
  big := Float.ofBits 0x7FEFFFFFFFFFFFFF

/-- Python `int -> float` conversion in mixed arithmetic -/
instance : NatCast Float := ⟨Float.ofNat⟩

/-- `math`/`numpy` functions used by the benchmark problems. -/
class MathFns (α : Type) where
  sin : α → α
  cos : α → α
  exp : α → α
  sqrt : α → α
  /-- `math.pi` -/
  pi : α
  /-- libm `pow(x, y)` with a float exponent -/
  pow : α → α → α

instance : MathFns Float where
  sin := Float.sin
  cos := Float.cos
  exp := Float.exp
  sqrt := Float.sqrt
  pi := Float.ofBits 0x400921FB54442D18
  pow := Float.pow

namespace Hex

def digit (c : Char) : Option Nat :=
  if '0' ≤ c ∧ c ≤ '9' then some (c.toNat - '0'.toNat)
  else if 'a' ≤ c ∧ c ≤ 'f' then some (c.toNat - 'a'.toNat + 10)
  else if 'A' ≤ c ∧ c ≤ 'F' then some (c.toNat - 'A'.toNat + 10)
  else none

def toNat? (s : String) : Option Nat :=
  if s.isEmpty then none else
  s.foldl (fun acc c => match acc, digit c with
    | some a, some d => some (a * 16 + d)
    | _, _ => none) (some 0)

def ofNat16 (n : Nat) : String :=
  let ds := (List.range 16).reverse.map fun i =>
    let d := (n >>> (4 * i)) % 16
    if d < 10 then Char.ofNat (d + '0'.toNat) else Char.ofNat (d - 10 + 'a'.toNat)
  String.ofList ds

end Hex

/-- A double from its 16-hex-digit bit pattern. -/
def floatOfHex? (s : String) : Option Float :=
  (Hex.toNat? s).map fun n => Float.ofBits n.toUInt64

/-- Canonical output of a double: 16 hex digits of its bits (all NaNs are printed as one pattern). -/
def hexOfFloat (x : Float) : String :=
  if x.isNaN then "7ff8000000000000" else Hex.ofNat16 x.toBits.toNat
