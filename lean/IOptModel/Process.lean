import IOptModel.Method
/-!
# Model of `Process` (`iOpt/method/process.py`): `DoGlobalIteration`, `Solve`,
`DoLocalRefinement`, `GetResults`, and the listener notifications as an event log.
-/

section
variable {α : Type} [Add α] [Sub α] [Mul α] [Div α] [Neg α] [LT α] [LE α]
  [DecidableLT α] [DecidableLE α] [OfNat α 0] [OfNat α 1] [OfNat α 2] [OfNat α 4] [Fns α]

namespace Proc
open AGP

/-- What the listeners are told (each attached listener receives every event). -/
inductive Event where
  /-- `BeforeMethodStart(method)` -/
  | beforeStart
  /-- `OnEndIteration(savedNewPoints, solution)`: ids of the new trials of this call, in order -/
  | endIteration (newIds : List Nat)
  /-- `OnMethodStop(searchData, solution, status)` -/
  | methodStop (status : Bool)
  /-- the line `Exception was thrown` printed by `Solve` -/
  | exceptionPrinted
deriving Repr, DecidableEq

structure PState (α : Type) where
  /-- `none` while `__first_iteration` is still `True` -/
  m : Option (State α) := none
  /-- events in order of emission -/
  log : List Event := []
  /-- every point handed to `Problem.Calculate` by the global search, with the value returned -/
  evals : List (List α × α) := []
  /-- `solution.numberOfLocalTrials` -/
  nLocal : Nat := 0
  /-- number of calls of `Problem.Calculate` made by the global search so far (failed ones included) -/
  calls : Nat := 0
  /-- the id of the trial improved by the last local refinement (`Process.__refinedTrial`) -/
  refined : Option Nat := none

/-- result of an operation that may propagate a Python exception to the caller -/
structure Res (α : Type) where
  s : PState α
  raised : Option Raise := none

/-- one pass of the `for _ in range(number)` body of `DoGlobalIteration`; returns the id of the new trial -/
def oneIteration (p : Params α) (f : Nat → List α → Option α) (ps : PState α) : Except (PState α × Raise) (PState α × Nat) :=
  match ps.m with
  | none =>
    -- listeners: BeforeMethodStart, then FirstIteration
    let ps := { ps with log := ps.log ++ [Event.beforeStart] }
    let pt := firstPoint p
    let ps := { ps with calls := ps.calls + 1 }
    match f (ps.calls - 1) pt with
    | none => .error (ps, .objective)
    | some z =>
      let s := firstIteration p z
      .ok ({ ps with m := some s, evals := ps.evals ++ [(pt, z)] }, 2)
  | some s =>
    match prepare p s with
    | .error (s', e) => .error ({ ps with m := some s' }, e)
    | .ok pr =>
      let ps := { ps with calls := ps.calls + 1 }
      match f (ps.calls - 1) pr.point with
      | none => .error ({ ps with m := some pr.s }, .objective)
      | some z =>
        let s' := commit p pr z
        .ok ({ ps with m := some s', evals := ps.evals ++ [(pr.point, z)] }, pr.s.nextId)

/-- `DoGlobalIteration(number)` -/
def doGlobalIteration (p : Params α) (f : Nat → List α → Option α) : (number : Nat) → PState α → List Nat → Res α
  | 0, ps, saved => { s := { ps with log := ps.log ++ [Event.endIteration saved] } }
  | k+1, ps, saved =>
    match oneIteration p f ps with
    | .error (ps', e) => { s := ps', raised := some e }
    | .ok (ps', id) => doGlobalIteration p f k ps' (saved ++ [id])

def stopNow (p : Params α) (ps : PState α) : Bool :=
  match ps.m with
  | none => decide (p.itersLimit ≤ 0)        -- min_delta = inf, iterationsCount = 0
  | some s => stopCond p s

/-- the `while not CheckStopCondition(): DoGlobalIteration()` loop inside `try` -/
def solveLoop (p : Params α) (f : Nat → List α → Option α) : (fuel : Nat) → PState α → PState α × Bool
  | 0, ps => (ps, false)
  | fuel+1, ps =>
    if stopNow p ps then (ps, false)
    else
      let r := doGlobalIteration p f 1 ps []
      match r.raised with
      | some _ => ({ r.s with log := r.s.log ++ [Event.exceptionPrinted] }, true)
      | none => solveLoop p f fuel r.s

/-- Result of `scipy.optimize.minimize(..., method='Nelder-Mead', bounds=...)` as seen by
`DoLocalRefinement`: the returned point, the value the objective returns there, and `nfev`. -/
structure LocalResult (α : Type) where
  x : List α
  fx : α
  nfev : Nat

/-- the trial that `GetResults()` reports: the refined one while it is another trial than the method's best and its value holder is strictly
smaller than the best's, else the method's best -/
def reportedId (ps : PState α) (s : State α) : Nat :=
  match ps.refined with
  | none => s.best
  | some r =>
    match findItem s.items r, findItem s.items s.best with
    | some ri, some bi => if r ≠ s.best ∧ ri.hv < bi.hv then r else s.best
    | _, _ => s.best

/-- `DoLocalRefinement`: overwrite point and value holder of the reported trial (`GetResults().bestTrials[0]`) in place
and remember it as `__refinedTrial`. -/
def doLocalRefinement (ps : PState α) (lr : LocalResult α) : PState α :=
  match ps.m with
  | none => ps
  | some s =>
    let rid := reportedId ps s
    let items := s.items.map fun it => if it.id == rid then { it with point := lr.x, hv := lr.fx } else it
    { ps with m := some { s with items := items }, nLocal := lr.nfev, refined := some rid }

/-- `Solve` (without refinement; the driver applies `doLocalRefinement` in between when asked to).
Fuel `itersLimit + 1` always suffices (`IOptProps/C03.lean`). -/
def solve (p : Params α) (f : Nat → List α → Option α) (refine : PState α → Option (LocalResult α)) (ps : PState α) : PState α :=
  let (ps, _) := solveLoop p f (p.itersLimit + 1) ps
  let ps := match refine ps with
    | some lr => doLocalRefinement ps lr
    | none => ps
  { ps with log := ps.log ++ [Event.methodStop (stopNow p ps)] }

end Proc
end
