import IOptModel.Problems
import IOptModel.Proto
/-!
# The world of benchmark problem instances — stateful model for property C15

The evaluation *formulas* of the shipped families are the pure functions of `IOptModel/Problems.lean`
(`Prob.hill`, …).  This file models the STATE those formulas are applied to in the Python library:

* module-level coefficient tables (`hill_generation.aHill`, `shekel_generation.kShekel`, … — numpy arrays
  created once at import time and read by every instance): heap cells owned by `.module`, allocated by
  `World.init`, before any operation;
* per-instance tables built by `__init__` (bounds, known optimum, for `Grishagin` the generator register
  `icnf` and the matrices `af/bf/cf/df`, for `GKLS` the generator buffers `rnd_num`/`rand_condition` and the
  `GKLS_minima` arrays): cells owned by `.inst k`, allocated by the operation `construct`;
* caller objects: point arrays (`Point.floatVariables`, owner `.caller`) and value holders
  (`FunctionValue`, owner `.holder`, content `[value]`).

Python aliasing is explicit: a `Ref` is an index into `World.cells`.  Every operation reports the refs it
wrote and the refs it allocated.  The CONTENT of the tables of a construction is an input of the operation
(the correspondence supplies what the real constructor produced); what the model fixes is which cells are
allocated, which are written, and what `Calculate` reads (`evalOn`).

Statement-level correspondence:
* `Problem.Calculate(point, functionValue)`: reads the instance's tables and `point.floatVariables`,
  executes `functionValue.value = <formula>` and `return functionValue` — `exec … (.calculate i p h)`.
* `__init__`: allocates the arrays listed in `Family.layout` (for `Shekel4`/`Grishagin` the constructor also
  calls `Calculate` on the known-optimum holder *it allocated itself*) — `exec … (.construct fam args tables)`.
-/

namespace ProbWorld

/-- the shipped families -/
inductive Family where
  | hill | shekel | shekel4 | grishagin | gkls | rastrigin | xsquared
  deriving DecidableEq, Repr, Inhabited

/-- module-level tables, in allocation order (`ModTab.all`); `ref` is the heap index -/
inductive ModTab where
  | hillA | hillB | hillMin | hillMax | hillL
  | shekelK | shekelA | shekelC | shekelMin | shekelMax | shekelL
  | shekel4A | shekel4C | shekel4MaxI
  | grishMin | grishMatcon
  deriving DecidableEq, Repr

namespace ModTab
def all : List ModTab :=
  [hillA, hillB, hillMin, hillMax, hillL, shekelK, shekelA, shekelC, shekelMin, shekelMax, shekelL,
   shekel4A, shekel4C, shekel4MaxI, grishMin, grishMatcon]

def ref : ModTab → Nat
  | hillA => 0 | hillB => 1 | hillMin => 2 | hillMax => 3 | hillL => 4
  | shekelK => 5 | shekelA => 6 | shekelC => 7 | shekelMin => 8 | shekelMax => 9 | shekelL => 10
  | shekel4A => 11 | shekel4C => 12 | shekel4MaxI => 13
  | grishMin => 14 | grishMatcon => 15

/-- Python name (module.attribute) — documentation and the key used by the correspondence -/
def pyName : ModTab → String
  | hillA => "Hill.hill_generation.aHill" | hillB => "Hill.hill_generation.bHill"
  | hillMin => "Hill.hill_generation.minHill" | hillMax => "Hill.hill_generation.maxHill"
  | hillL => "Hill.hill_generation.lConstantHill"
  | shekelK => "Shekel.shekel_generation.kShekel" | shekelA => "Shekel.shekel_generation.aShekel"
  | shekelC => "Shekel.shekel_generation.cShekel" | shekelMin => "Shekel.shekel_generation.minShekel"
  | shekelMax => "Shekel.shekel_generation.maxHill" | shekelL => "Shekel.shekel_generation.lConstantHill"
  | shekel4A => "Shekel4.shekel4_generation.a" | shekel4C => "Shekel4.shekel4_generation.c"
  | shekel4MaxI => "Shekel4.shekel4_generation.maxI"
  | grishMin => "grishagin_function.grishagin_generation.rand_minimums"
  | grishMatcon => "grishagin_function.grishagin_generation.matcon"
end ModTab

namespace Family

def name : Family → String
  | hill => "hill" | shekel => "shekel" | shekel4 => "shekel4" | grishagin => "grishagin"
  | gkls => "gkls" | rastrigin => "rastrigin" | xsquared => "xsquared"

def ofName : String → Option Family
  | "hill" => some hill | "shekel" => some shekel | "shekel4" => some shekel4
  | "grishagin" => some grishagin | "gkls" => some gkls | "rastrigin" => some rastrigin
  | "xsquared" => some xsquared | _ => none

/-- the private arrays/objects allocated by `__init__`, in the order in which `construct` allocates them.
`scalars` collects every numeric attribute of the instance (and of its `function` object) in one cell, so
that a write to ANY instance attribute is a write to an instance cell. -/
def layout : Family → List String
  | grishagin => ["lower", "upper", "optPoint", "optValue", "scalars", "icnf", "af", "bf", "cf", "df"]
  | gkls => ["lower", "upper", "optValue", "scalars", "domLeft", "domRight", "rndNum", "randCond",
             "localMin", "wRho", "peak", "rho", "f", "gmIndex"]
  | _ => ["lower", "upper", "optPoint", "optValue", "scalars"]

def privCount (f : Family) : Nat := f.layout.length

/-- number of float variables, from the constructor arguments -/
def dim : Family → List Nat → Nat
  | hill, _ | shekel, _ => 1
  | shekel4, _ => 4
  | grishagin, _ => 2
  | gkls, a | rastrigin, a | xsquared, a => a.headD 0

/-- constructor arguments accepted by the real classes (`hill`/`shekel`: row index of the tables;
`shekel4`: 1..3; `grishagin`: 1..100; `gkls`: dimension 2..5, number 1..100; others: dimension ≥ 1) -/
def validArgs : Family → List Nat → Bool
  | hill, [fn] | shekel, [fn] => fn < 1000
  | shekel4, [fn] => 1 ≤ fn && fn ≤ 3
  | grishagin, [fn] => 1 ≤ fn && fn ≤ 100
  | gkls, [d, fn] => 2 ≤ d && d ≤ 5 && 1 ≤ fn && fn ≤ 100
  | rastrigin, [n] | xsquared, [n] => 1 ≤ n
  | _, _ => false

end Family

/-- `shekel4_generation.maxI[fn - 1]` -/
def shekel4Rows (fn : Nat) : Nat := [5, 7, 10].getD (fn - 1) 0

inductive Owner where
  | module
  | inst (k : Nat)
  /-- a point array of the caller -/
  | caller
  /-- a `FunctionValue` of the caller; content `[value]` -/
  | holder
  deriving DecidableEq, Repr

/-- cells that no operation may write after their allocation -/
def Owner.isTable : Owner → Bool
  | .module | .inst _ => true
  | _ => false

structure Cell (α : Type) where
  owner : Owner
  data : List α

structure Inst where
  family : Family
  args : List Nat
  /-- refs of the private cells, in `Family.layout` order -/
  priv : List Nat
  deriving DecidableEq, Repr

structure World (α : Type) where
  cells : List (Cell α) := []
  insts : List Inst := []

namespace World
variable {α : Type}

def read (w : World α) (r : Nat) : List α :=
  match w.cells[r]? with
  | some c => c.data
  | none => []

def owner? (w : World α) (r : Nat) : Option Owner := (w.cells[r]?).map (·.owner)

/-- allocate consecutive fresh cells with one owner -/
def allocMany (w : World α) (o : Owner) (vs : List (List α)) : World α × List Nat :=
  ({ w with cells := w.cells ++ vs.map (fun v => { owner := o, data := v }) },
   List.range' w.cells.length vs.length)

def alloc (w : World α) (o : Owner) (v : List α) : World α × Nat :=
  ({ w with cells := w.cells ++ [{ owner := o, data := v }] }, w.cells.length)

/-- in-place write of the content (the owner tag is kept) -/
def write (w : World α) (r : Nat) (v : List α) : World α :=
  { w with cells := w.cells.modify r (fun c => { c with data := v }) }

/-- the world right after import: the module tables and nothing else -/
def init (mod : ModTab → List α) : World α :=
  { cells := ModTab.all.map (fun t => { owner := .module, data := mod t }), insts := [] }

end World

/-- the `i`-th row of a row-major table with `n` columns -/
def row {α : Type} (n i : Nat) (t : List α) : List α := (t.drop (n * i)).take n

/-- the first `cnt` rows -/
def rows {α : Type} (n cnt : Nat) (t : List α) : List (List α) := (List.range cnt).map fun i => row n i t

section
variable {α : Type} [Add α] [Sub α] [Mul α] [Div α] [Neg α] [LT α] [LE α]
  [DecidableLT α] [DecidableLE α] [OfNat α 0] [OfNat α 1] [OfNat α 2] [NatCast α] [MathFns α]

/-- What `Calculate` of an instance of `fam` constructed with `args` computes at `x`, as a function of the
CONTENT of the module tables (`mod`) and of the instance's private tables (`priv`, in layout order). -/
def evalOn (k : Prob.GklsConsts α) (fam : Family) (args : List Nat) (mod : ModTab → List α)
    (priv : List (List α)) (x : List α) : α :=
  let fn := args.headD 0
  let tab := fun (i : Nat) => priv.getD i []
  match fam with
  | .hill => Prob.hill (row 14 fn (mod .hillA)) (row 14 fn (mod .hillB)) (x.headD 0)
  | .shekel =>
    Prob.shekel (row 10 fn (mod .shekelK)) (row 10 fn (mod .shekelA)) (row 10 fn (mod .shekelC)) (x.headD 0)
  | .shekel4 =>
    let n := shekel4Rows fn
    Prob.shekel4 (rows 4 n (mod .shekel4A)) ((mod .shekel4C).take n) x
  | .rastrigin => Prob.rastrigin x
  | .xsquared => Prob.xsquared x
  | .grishagin =>
    Prob.grishagin (rows 7 7 (tab 6)) (rows 7 7 (tab 7)) (rows 7 7 (tab 8)) (rows 7 7 (tab 9))
      (x.getD 0 0) (x.getD 1 0)
  | .gkls =>
    let d := fn
    Prob.gkls k { dim := d, localMin := rows d 10 (tab 8), rho := tab 11, f := tab 12 } x

/-- the tables of a construction must have the shapes the real constructor produces (only the shapes
that `Calculate` relies on are checked) -/
def shapesOk (fam : Family) (args : List Nat) (tables : List (List α)) : Bool :=
  let d := fam.dim args
  let len := fun (i : Nat) => (tables.getD i []).length
  tables.length == fam.privCount && len 0 == d && len 1 == d &&
  match fam with
  | .grishagin => len 2 == d && len 3 == 1 && len 5 == 45 && len 6 == 49 && len 7 == 49 && len 8 == 49 && len 9 == 49
  | .gkls => len 2 == 1 && len 4 == d && len 5 == d && len 6 == 1009 && len 7 == 100 && len 8 == 10 * d &&
             len 9 == 10 && len 10 == 10 && len 11 == 10 && len 12 == 10 && len 13 == 10
  | _ => len 2 == d && len 3 == 1

inductive Op (α : Type) where
  /-- `Family(*args)`; `tables` = content of the private arrays the constructor produced -/
  | construct (fam : Family) (args : List Nat) (tables : List (List α))
  /-- the caller creates an array -/
  | point (v : List α)
  /-- the caller overwrites an array of its own in place (`arr[:] = v`, same length) -/
  | setPoint (r : Nat) (v : List α)
  /-- the caller creates a `FunctionValue()` (value 0.0) -/
  | holder
  /-- `insts[i].Calculate(Point(cells[p]), cells[h])` -/
  | calculate (i p h : Nat)

inductive Out (α : Type) where
  | inst (k : Nat) (cells : List Nat)
  | ref (r : Nat)
  /-- returned holder and the value stored in it -/
  | value (h : Nat) (v : α)
  | unit
  | error

structure StepResult (α : Type) where
  world : World α
  out : Out α
  /-- refs whose content was written by the call (in place, or initialised after allocation) -/
  wrote : List Nat
  /-- refs allocated by the call -/
  allocated : List Nat

def fail (w : World α) : StepResult α := { world := w, out := .error, wrote := [], allocated := [] }

/-- the value `Calculate` of instance `inst` computes in world `w` at point content `x` -/
def evalInst (k : Prob.GklsConsts α) (w : World α) (inst : Inst) (x : List α) : α :=
  evalOn k inst.family inst.args (fun t => w.read t.ref) (inst.priv.map w.read) x

/-- one operation -/
def exec (k : Prob.GklsConsts α) (w : World α) : Op α → StepResult α
  | .construct fam args tables =>
    if fam.validArgs args && shapesOk fam args tables then
      let id := w.insts.length
      let (w1, refs) := w.allocMany (.inst id) tables
      let w2 := { w1 with insts := w1.insts ++ [{ family := fam, args := args, priv := refs }] }
      { world := w2, out := .inst id refs, wrote := refs, allocated := refs }
    else fail w
  | .point v =>
    let (w1, r) := w.alloc .caller v
    { world := w1, out := .ref r, wrote := [r], allocated := [r] }
  | .setPoint r v =>
    if w.owner? r = some .caller ∧ (w.read r).length = v.length then
      { world := w.write r v, out := .unit, wrote := [r], allocated := [] }
    else fail w
  | .holder =>
    let (w1, r) := w.alloc .holder [0]
    { world := w1, out := .ref r, wrote := [r], allocated := [r] }
  | .calculate i p h =>
    match w.insts[i]?, w.cells[p]?, w.cells[h]? with
    | some inst, some pc, some hc =>
      if hc.owner = .holder ∧ pc.owner ≠ .holder ∧ pc.data.length = inst.family.dim inst.args then
        let v := evalInst k w inst pc.data
        { world := w.write h [v], out := .value h v, wrote := [h], allocated := [] }
      else fail w
    | _, _, _ => fail w

/-- a history -/
def run (k : Prob.GklsConsts α) (w : World α) (ops : List (Op α)) : World α :=
  ops.foldl (fun w op => (exec k w op).world) w

/-! ### negative controls: what a stateful `Calculate` would look like -/

/-- A `Calculate` that caches `value :: point` of its last call in the instance's `scalars` cell and returns
the cached value when the new point is `close` to the cached one. -/
def execLeakyCache (close : List α → List α → Bool) (k : Prob.GklsConsts α) (w : World α) : Op α → StepResult α
  | .calculate i p h =>
    match w.insts[i]?, w.cells[p]?, w.cells[h]? with
    | some inst, some pc, some hc =>
      if hc.owner = .holder ∧ pc.owner ≠ .holder ∧ pc.data.length = inst.family.dim inst.args then
        let cacheRef := inst.priv.getD (if inst.family = .gkls then 3 else 4) 0
        let v := match w.read cacheRef with
          | cv :: cx => if cx.length = pc.data.length ∧ close cx pc.data then cv else evalInst k w inst pc.data
          | [] => evalInst k w inst pc.data
        let w1 := w.write cacheRef (v :: pc.data)
        { world := w1.write h [v], out := .value h v, wrote := [cacheRef, h], allocated := [] }
      else fail w
    | _, _, _ => fail w
  | op => exec k w op

/-- A `Calculate` that normalises the point array in place (here: overwrites it with `f point`) before
evaluating. -/
def execLeakyPoint (f : List α → List α) (k : Prob.GklsConsts α) (w : World α) : Op α → StepResult α
  | .calculate i p h =>
    match w.insts[i]?, w.cells[p]?, w.cells[h]? with
    | some inst, some pc, some hc =>
      if hc.owner = .holder ∧ pc.owner ≠ .holder ∧ pc.data.length = inst.family.dim inst.args then
        let w1 := w.write p (f pc.data)
        let v := evalInst k w1 inst (w1.read p)
        { world := w1.write h [v], out := .value h v, wrote := [p, h], allocated := [] }
      else fail w
    | _, _, _ => fail w
  | op => exec k w op

end

/-! ### driver hook (commands `pw.*`) -/

/-- NaN-canonical bit pattern -/
def canonBits (x : F) : UInt64 := if x.isNaN then 0x7ff8000000000000 else x.toBits

/-- order- and length-sensitive 64-bit digest of an array (every single-cell change changes it) -/
def digest (xs : List F) : UInt64 :=
  let step := fun (acc : UInt64 × UInt64) (x : F) =>
    let (h, i) := acc
    (h + (canonBits x ^^^ 0x9E3779B97F4A7C15) * (2 * (i * 0x100000001B3 + 0x2545F4914F6CDD1D) + 1), i + 1)
  (xs.foldl step ((0xCBF29CE484222325 : UInt64) + xs.length.toUInt64, 0)).1

def dg (xs : List F) : String := Hex.ofNat16 (digest xs).toNat

def gklsConstsF : Prob.GklsConsts F :=
  { maxValue := 1e100, precision := 1e-10, domainLeft := -1.0, domainRight := 1.0, three := 3.0, four := 4.0 }

structure Ctx where
  /-- module tables received by `pw.module` (index = `ModTab.ref`) -/
  mods : List (Nat × List F) := []
  w : World F := {}

def splitBar (toks : List String) : List (List String) :=
  toks.foldr (fun t acc => if t == "|" then [] :: acc else match acc with
    | g :: rest => (t :: g) :: rest
    | [] => [[t]]) [[]]

def commas (l : List Nat) : String := ",".intercalate (l.map toString)

def fmtCell (r : Nat) (c : Cell F) : String :=
  match c.owner with
  | .module => s!"{r}:M:{c.data.length}:{dg c.data}"
  | .inst k => s!"{r}:I{k}:{c.data.length}:{dg c.data}"
  | .caller => s!"{r}:P:{",".intercalate (c.data.map hx)}"
  | .holder => s!"{r}:H:{",".intercalate (c.data.map hx)}"

def fmtInst (k : Nat) (i : Inst) : String := s!"i{k}={i.family.name}({commas i.args})[{commas i.priv}]"

def fmtSnapshot (w : World F) : String :=
  let cs := (w.cells.zipIdx.map fun (c, r) => fmtCell r c)
  let is := (w.insts.zipIdx.map fun (i, k) => fmtInst k i)
  s!"cells={w.cells.length} insts={w.insts.length} | " ++ " ".intercalate cs ++ " | " ++ " ".intercalate is

def stepCmd (c : Ctx) (toks : List String) : Option (Ctx × String) :=
  match toks with
  | "pw.module" :: idx :: rest =>
    match idx.toNat?, parseFs rest with
    | some i, some fs =>
      if i < ModTab.all.length then
        some ({ c with mods := (i, fs) :: c.mods.filter (·.1 != i) }, s!"ok {fs.length} {dg fs}")
      else some (c, "bad-op")
    | _, _ => some (c, "bad-op")
  | ["pw.reset"] =>
    if ModTab.all.all (fun t => (c.mods.lookup t.ref).isSome) then
      let w : World F := World.init (fun t => (c.mods.lookup t.ref).getD [])
      some ({ c with w := w }, s!"ok cells={w.cells.length}")
    else some (c, "bad-op")
  | "pw.construct" :: fam :: rest =>
    match Family.ofName fam, splitBar rest with
    | some fam, args :: tabs =>
      match args.mapM String.toNat?, tabs.mapM parseFs with
      | some args, some tabs =>
        let r := exec gklsConstsF c.w (.construct fam args tabs)
        match r.out with
        | .inst k cells => some ({ c with w := r.world }, s!"inst={k} cells={commas cells} changed={commas (r.wrote.filter (· < c.w.cells.length))}")
        | _ => some (c, "error")
      | _, _ => some (c, "bad-op")
    | _, _ => some (c, "bad-op")
  | "pw.point" :: n :: rest =>
    -- `pw.point <n> <v1> … <vn>` (the count keeps the command at ≥ 3 tokens)
    match n.toNat?, parseFs rest with
    | some n, some fs =>
      if fs.length != n then some (c, "bad-op") else
      let r := exec gklsConstsF c.w (.point fs)
      match r.out with
      | .ref ref => some ({ c with w := r.world }, s!"ref={ref}")
      | _ => some (c, "error")
    | _, _ => some (c, "bad-op")
  | "pw.setpoint" :: ref :: rest =>
    match ref.toNat?, parseFs rest with
    | some ref, some fs =>
      let r := exec gklsConstsF c.w (.setPoint ref fs)
      match r.out with
      | .unit => some ({ c with w := r.world }, "ok")
      | _ => some (c, "error")
    | _, _ => some (c, "bad-op")
  | ["pw.holder"] =>
    let r := exec gklsConstsF c.w .holder
    match r.out with
    | .ref ref => some ({ c with w := r.world }, s!"ref={ref}")
    | _ => some (c, "error")
  | ["pw.calc", i, p, h] =>
    match i.toNat?, p.toNat?, h.toNat? with
    | some i, some p, some h =>
      let r := exec gklsConstsF c.w (.calculate i p h)
      match r.out with
      | .value ret v => some ({ c with w := r.world }, s!"ret={ret} same=1 value={hx v} wrote={commas r.wrote}")
      | _ => some (c, "error")
    | _, _, _ => some (c, "bad-op")
  | ["pw.snapshot"] => some (c, fmtSnapshot c.w)
  | _ => none

end ProbWorld
