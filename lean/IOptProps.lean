-- root of the property-theorem library; one import per file
import IOptProps.C09
import IOptProps.C07num
import IOptProps.C07
import IOptProps.C08
import IOptProps.C03
import IOptProps.C19
import IOptProps.C11
import IOptProps.C02
import IOptProps.C06
import IOptProps.C04
import IOptProps.C16
import IOptProps.C01
import IOptProps.C08holder
import IOptProps.C13
import IOptProps.C05
import IOptProps.C01dimN
import IOptProps.C17
