-- root of the property-theorem library; one import per file
import IOptProps.C09
import IOptProps.C07num
