import IOptModel
import IOptGen.StronginC3Src
/-!
# Line-protocol driver: runs the `Float` instance of the model.

One command per input line, one output line per command.  Doubles travel as the 16 hex digits of
their IEEE-754 bits.  The Python harness sends the same script to the real implementation and
compares the output streams literally.
-/

open AGP Proc

/-! ### driver state -/

structure SvCtx where
  p : Params F
  ps : PState F
  oracle : Array (Option F)
  localRes : Option (LocalResult F)
  printedEvals : Nat
  printedLog : Nat

structure EoCtx where
  heap : Heap F := {}
  obj : EvObj.Obj F
  /-- caller-visible arrays (arguments and returned results), in creation order: heap refs -/
  vis : Array Nat := #[]

structure Ctx where
  sd : SD.State F F := {}
  sv : Option SvCtx := none
  eo : Option EoCtx := none
  world : World.Ctx := {}
  pw : ProbWorld.Ctx := {}

def fle (a b : F) : Bool := decide (a ≤ b)
def flt (a b : F) : Bool := decide (a < b)
def fne (a b : F) : Bool := a != b

/-! ### formatting -/


def fmtItem (it : Item F) : String :=
  s!"{it.id}:{hx it.x}:{hxs it.point |>.replace " " ","}:{hx it.z}:{hx it.hv}:{if it.ev then 1 else 0}:{hx it.delta}:{hxo it.R "-inf"}"

def fmtState (s : State F) : String :=
  s!"iters={s.iters} trials={s.nTrials} best={s.best} recalc={if s.recalc then 1 else 0} M={hx s.M} Z={hx s.Z} minDelta={hxo s.minDelta "inf"} count={s.nextId} qlen={s.queue.length}"

def fmtRaise : Raise → String
  | .leftIsNone => "leftIsNone"
  | .outsideInterval => "outsideInterval"
  | .objective => "objective"
  | .emptyQueue => "emptyQueue"

def fmtEvent : Event → String
  | .beforeStart => "before"
  | .endIteration ids => "end[" ++ ",".intercalate (ids.map toString) ++ "]"
  | .methodStop st => s!"stop({if st then 1 else 0})"
  | .exceptionPrinted => "printed"

def fmtPS (c : SvCtx) : String :=
  match c.ps.m with
  | none => s!"fresh calls={c.ps.calls}"
  | some s => fmtState s ++ s!" calls={c.ps.calls} nlocal={c.ps.nLocal}"

/-- newly made evaluations and events since the last report -/
def fmtNew (c : SvCtx) : String × SvCtx :=
  let ev := c.ps.evals.drop c.printedEvals
  let lg := c.ps.log.drop c.printedLog
  let evs := " ".intercalate (ev.map fun (pt, v) => (hxs pt).replace " " "," ++ "=" ++ hx v)
  let lgs := " ".intercalate (lg.map fmtEvent)
  (s!"evals[{evs}] events[{lgs}]", { c with printedEvals := c.ps.evals.length, printedLog := c.ps.log.length })

/-! ### commands -/

def sdItem (x g l : F) : SD.Item F F := { x := x, globalR := g, localR := l }

def fmtSdTrav (s : SD.State F F) : String :=
  " ".intercalate ((SD.traversal s).map fun i =>
    match s.trials[i]? with
    | some it => s!"{i}:{hx it.x}:{optNat it.left}:{optNat it.right}"
    | none => s!"{i}:?")

def fmtQ (q : List (F × Nat)) : String := " ".intercalate (q.map fun (k, i) => s!"{hx k}:{i}")

def oracleFn (o : Array (Option F)) : Nat → List F → Option F := fun k _ => (o[k]?).join

def takeSplit (l : List String) (n : Nat) : List String × List String := (l.take n, l.drop n)

def libm (op : String) (a : List F) : Option F :=
  match op, a with
  | "add", [x, y] => some (x + y)
  | "sub", [x, y] => some (x - y)
  | "mul", [x, y] => some (x * y)
  | "div", [x, y] => some (x / y)
  | "pow", [x, y] => some (Float.pow x y)
  | "sqrt", [x] => some (Float.sqrt x)
  | "exp", [x] => some (Float.exp x)
  | "sin", [x] => some (Float.sin x)
  | "cos", [x] => some (Float.cos x)
  | "abs", [x] => some (Float.abs x)
  | _, _ => none

/-- remaining commands (split only to keep the pattern match of `step` small) -/
def stepRest (c : Ctx) (toks : List String) : Ctx × String :=
  match toks with
  -- search data ---------------------------------------------------------------------------
  | ["sd.new", dual, maxlen] =>
    ({ c with sd := { dual := dual == "1", maxlen := maxlen.toNat? } }, "ok")
  | ["sd.first", xl, gl, ll, xr, gr, lr] =>
    match parseFs [xl, gl, ll, xr, gr, lr] with
    | some [xl, gl, ll, xr, gr, lr] =>
      ({ c with sd := SD.insertFirst c.sd (sdItem xl gl ll) (sdItem xr gr lr) }, "ok")
    | _ => (c, "bad-op")
  | ["sd.insert", x, g, l, hint] =>
    match parseFs [x, g, l] with
    | some [x, g, l] =>
      let h := hint.toNat?
      if hint != "-" && h.isNone then (c, "bad-op") else
      match SD.insert flt fle c.sd (sdItem x g l) h with
      | .ok s => ({ c with sd := s }, "ok")
      | .error _ => (c, "error")
    | _ => (c, "bad-op")
  | ["sd.find", x] =>
    match parseF x with
    | some x => (c, optNat (SD.find flt c.sd x))
    | none => (c, "bad-op")
  | ["sd.trav"] => (c, s!"count={c.sd.trials.size} first={optNat c.sd.first} | " ++ fmtSdTrav c.sd)
  | ["sd.queues"] => (c, s!"g[{fmtQ c.sd.gq}] l[{fmtQ c.sd.lq}]")
  | ["sd.clear"] => ({ c with sd := SD.clearQueue c.sd }, "ok")
  | ["sd.refill"] => ({ c with sd := SD.refill fle c.sd }, "ok")
  | ["sd.popg"] =>
    let r := if c.sd.dual then SD.popCurrent fle fne true (c.sd.gq.length + c.sd.trials.size + 2) c.sd
             else SD.popMaxGlobal fle c.sd
    match r with
    | .ok (s, i, k) => ({ c with sd := s }, s!"{i} {hx k}")
    | .error _ => (c, "error")
  | ["sd.popl"] =>
    if !c.sd.dual then (c, "bad-op") else
    match SD.popCurrent fle fne false (c.sd.lq.length + c.sd.trials.size + 2) c.sd with
    | .ok (s, i, k) => ({ c with sd := s }, s!"{i} {hx k}")
    | .error _ => (c, "error")
  | ["sd.setg", i, k] =>
    match i.toNat?, parseF k with
    | some i, some k => ({ c with sd := SD.setGlobalR c.sd i k }, "ok")
    | _, _ => (c, "bad-op")
  | ["sd.setl", i, k] =>
    match i.toNat?, parseF k with
    | some i, some k => ({ c with sd := SD.setLocalR c.sd i k }, "ok")
    | _, _ => (c, "bad-op")
  -- solver --------------------------------------------------------------------------------
  | "sv.new" :: n :: m :: lim :: r :: eps :: rest =>
    match n.toNat?, m.toNat?, lim.toNat?, parseF r, parseF eps, parseFs rest with
    | some n, some m, some lim, some r, some eps, some bs =>
      if bs.length == 2 * n then
        let lower := bs.take n; let upper := bs.drop n
        let p : Params F := Solver.mk { n := n, lower := lower, upper := upper, eps := eps, r := r,
                                        itersLimit := lim, evolventDensity := m }
        ({ c with sv := some { p := p, ps := {}, oracle := #[], localRes := none, printedEvals := 0, printedLog := 0 } }, "ok")
      else (c, "bad-op")
    | _, _, _, _, _, _ => (c, "bad-op")
  | "sv.oracle" :: vals =>
    match c.sv with
    | none => (c, "bad-op")
    | some sv =>
      let vs := vals.map fun v => if v == "raise" then some none else (parseF v).map some
      match vs.mapM id with
      | some vs => ({ c with sv := some { sv with oracle := sv.oracle ++ vs.toArray } }, "ok")
      | none => (c, "bad-op")
  | "sv.local" :: nfev :: fx :: xs =>
    match c.sv, nfev.toNat?, parseF fx, parseFs xs with
    | some sv, some nfev, some fx, some xs =>
      ({ c with sv := some { sv with localRes := some { x := xs, fx := fx, nfev := nfev } } }, "ok")
    | _, _, _, _ => (c, "bad-op")
  | ["sv.setparams", lim, eps] =>
    -- the caller changes `parameters.itersLimit` / `parameters.eps` of the shared parameters object in place
    match c.sv, lim.toNat?, parseF eps with
    | some sv, some lim, some eps => ({ c with sv := some { sv with p := { sv.p with itersLimit := lim, eps := eps } } }, "ok")
    | _, _, _ => (c, "bad-op")
  | ["sv.iter", k] =>
    match c.sv, k.toNat? with
    | some sv, some k =>
      let r := doGlobalIteration sv.p (oracleFn sv.oracle) k sv.ps []
      let sv := { sv with ps := r.s }
      let (nw, sv) := fmtNew sv
      let ex := if sv.ps.calls > sv.oracle.size then " oracle-exhausted" else ""
      ({ c with sv := some sv }, s!"raised={match r.raised with | some e => fmtRaise e | none => "-"} {fmtPS sv} {nw}{ex}")
    | _, _ => (c, "bad-op")
  | ["sv.solve"] =>
    match c.sv with
    | some sv =>
      let ps := solve sv.p (oracleFn sv.oracle) (fun _ => sv.localRes) sv.ps
      let sv := { sv with ps := ps }
      let (nw, sv) := fmtNew sv
      let ex := if sv.ps.calls > sv.oracle.size then " oracle-exhausted" else ""
      ({ c with sv := some sv }, s!"{fmtPS sv} {nw}{ex}")
    | none => (c, "bad-op")
  | ["sv.refine"] =>
    match c.sv with
    | some sv =>
      match sv.localRes with
      | some lr => let sv := { sv with ps := doLocalRefinement sv.ps lr }; ({ c with sv := some sv }, fmtPS sv)
      | none => (c, "bad-op")
    | none => (c, "bad-op")
  | ["sv.dump"] =>
    match c.sv with
    | some sv =>
      match sv.ps.m with
      | some s =>
        let items := " ".intercalate (s.items.map fmtItem)
        let q := " ".intercalate (s.queue.map fun (k, i) => s!"{hxo k "-inf"}:{i}")
        (c, s!"items[{items}] queue[{q}]")
      | none => (c, "items[] queue[]")
    | none => (c, "bad-op")
  | ["sv.result"] =>
    match c.sv with
    | some sv =>
      match sv.ps.m with
      | some s =>
        match findItem s.items (Proc.reportedId sv.ps s) with
        | some b => (c, s!"point={(hxs b.point).replace " " ","} value={hx b.hv} trials={s.nTrials} local={sv.ps.nLocal} accuracy={hxo s.minDelta "inf"}")
        | none => (c, "no-best")
      | none => (c, "fresh")
    | none => (c, "bad-op")
  | _ =>
    match World.stepCmd c.world toks with
    | some (w, o) => ({ c with world := w }, o)
    | none =>
      match ProbWorld.stepCmd c.pw toks with
      | some (w, o) => ({ c with pw := w }, o)
      | none => (c, "bad-op")


def step (c : Ctx) (line : String) : Ctx × String :=
  let toks := (line.splitOn " ").filter (· ≠ "")
  match toks with
  | [] => (c, "")
  | "impl" :: _ => (c, "ok")      -- directives for the implementation side only
  | "libm" :: op :: args =>
    match parseFs args with
    | some a => match libm op a with
      | some r => (c, hx r)
      | none => (c, "bad-op")
    | none => (c, "bad-op")
  | ["libm.root", x, n] =>
    match parseF x, n.toNat? with
    | some x, some n => (c, hx (Fns.root x n))
    | _, _ => (c, "bad-op")
  | ["libm.pown", x, n] =>
    match parseF x, n.toNat? with
    | some x, some n => (c, hx (Fns.powN x n))
    | _, _ => (c, "bad-op")
  -- evolvent ------------------------------------------------------------------------------
  | ["ev.node", n, d] =>
    match n.toNat?, d.toNat? with
    | some n, some d => let (l, u, v) := Ev.node n d; (c, s!"{l} | {ints u} | {ints v}")
    | _, _ => (c, "bad-op")
  | "ev.numbr" :: n :: us =>
    match n.toNat?, us.mapM String.toInt? with
    | some n, some u => let (iis, l, v) := Ev.numbr n u; (c, s!"{iis} {l} | {ints v}")
    | _, _ => (c, "bad-op")
  | "ev.image" :: n :: m :: rest =>
    match n.toNat?, m.toNat?, parseFs rest with
    | some n, some m, some fs =>
      if fs.length == 2 * n + 1 then
        let lower := fs.take n; let upper := (fs.drop n).take n; let x := fs.getD (2 * n) 0
        (c, hxs (Ev.getImage n m lower upper x))
      else (c, "bad-op")
    | _, _, _ => (c, "bad-op")
  | "ev.inverse" :: n :: m :: rest =>
    match n.toNat?, m.toNat?, parseFs rest with
    | some n, some m, some fs =>
      if fs.length == 3 * n then
        let lower := fs.take n; let upper := (fs.drop n).take n; let y := fs.drop (2 * n)
        (c, hx (Ev.getInverseImage n m lower upper y))
      else (c, "bad-op")
    | _, _, _ => (c, "bad-op")
  | "ev.cubeY" :: n :: ds =>
    match n.toNat?, ds.mapM String.toNat? with
    | some n, some ds => (c, ints (Ev.cubeY n ds))
    | _, _ => (c, "bad-op")
  -- benchmark problems (tables travel with the command) ---------------------------------------
  | "pb.hill" :: rest =>
    match parseFs rest with
    | some fs => if fs.length == 29 then
        (c, hx (Prob.hill (fs.take 14) ((fs.drop 14).take 14) (fs.getD 28 0))) else (c, "bad-op")
    | none => (c, "bad-op")
  | "pb.shekel" :: rest =>
    match parseFs rest with
    | some fs => if fs.length == 31 then
        (c, hx (Prob.shekel (fs.take 10) ((fs.drop 10).take 10) ((fs.drop 20).take 10) (fs.getD 30 0))) else (c, "bad-op")
    | none => (c, "bad-op")
  | "pb.shekel4" :: rows :: rest =>
    match rows.toNat?, parseFs rest with
    | some rows, some fs => if fs.length == 5 * rows + 4 then
        let a := (List.range rows).map fun i => (fs.drop (4 * i)).take 4
        let cc := (fs.drop (4 * rows)).take rows
        (c, hx (Prob.shekel4 a cc (fs.drop (5 * rows)))) else (c, "bad-op")
    | _, _ => (c, "bad-op")
  | "pb.rastrigin" :: rest =>
    match parseFs rest with
    | some fs => (c, hx (Prob.rastrigin fs))
    | none => (c, "bad-op")
  | "pb.xsquared" :: rest =>
    match parseFs rest with
    | some fs => (c, hx (Prob.xsquared fs))
    | none => (c, "bad-op")
  | "pb.grishagin" :: rest =>
    match parseFs rest with
    | some fs => if fs.length == 4 * 49 + 2 then
        let mat := fun (k : Nat) => (List.range 7).map fun i => ((fs.drop (49 * k + 7 * i)).take 7)
        (c, hx (Prob.grishagin (mat 0) (mat 1) (mat 2) (mat 3) (fs.getD 196 0) (fs.getD 197 0))) else (c, "bad-op")
    | none => (c, "bad-op")
  | "pb.s3" :: which :: rest =>
    -- StronginC3: the functions are the translation of the current source text (IOptGen/StronginC3Src.lean)
    match parseFs rest with
    | some [x1, x2] =>
      let lit := fun (bits : List Nat) (k : Nat) => Float.ofBits (bits.getD k 0).toUInt64
      match which with
      | "obj" => (c, hx (Gen.S3.objective (lit Gen.S3.objectiveLits) x1 x2))
      | "c0" => (c, hx (Gen.S3.constraint0 (lit Gen.S3.constraint0Lits) x1 x2))
      | "c1" => (c, hx (Gen.S3.constraint1 (lit Gen.S3.constraint1Lits) x1 x2))
      | "c2" => (c, hx (Gen.S3.constraint2 (lit Gen.S3.constraint2Lits) x1 x2))
      | _ => (c, "bad-op")
    | _ => (c, "bad-op")
  | "pb.gkls" :: dim :: rest =>
    match dim.toNat?, parseFs rest with
    | some dim, some fs => if fs.length == 10 * dim + 20 + dim then
        let lm := (List.range 10).map fun i => (fs.drop (dim * i)).take dim
        let rho := (fs.drop (10 * dim)).take 10
        let f := (fs.drop (10 * dim + 10)).take 10
        let x := fs.drop (10 * dim + 20)
        let k : Prob.GklsConsts F := { maxValue := 1e100, precision := 1e-10, domainLeft := -1.0, domainRight := 1.0,
                                       three := 3.0, four := 4.0 }
        (c, hx (Prob.gkls k { dim := dim, localMin := lm, rho := rho, f := f } x)) else (c, "bad-op")
    | _, _ => (c, "bad-op")
  -- evolvent object with scratch aliasing (C17) ------------------------------------------------
  | "eo.new" :: n :: m :: rest =>
    match n.toNat?, m.toNat?, parseFs rest with
    | some n, some m, some fs =>
      if fs.length == 2 * n then
        let h : Heap F := {}
        let (h, lo) := h.alloc (fs.take n)
        let (h, hi) := h.alloc (fs.drop n)
        let (h, o) := EvObj.init h n m lo hi
        ({ c with eo := some { heap := h, obj := o, vis := #[lo, hi] } }, "ok")
      else (c, "bad-op")
    | _, _, _ => (c, "bad-op")
  | "eo.arri" :: rest =>      -- an integer-typed array on the implementation side; same values here
    match c.eo, parseFs rest with
    | some e, some fs =>
      let (h, r) := e.heap.alloc fs
      ({ c with eo := some { e with heap := h, vis := e.vis.push r } }, toString e.vis.size)
    | _, _ => (c, "bad-op")
  | "eo.arr" :: rest =>
    match c.eo, parseFs rest with
    | some e, some fs =>
      let (h, r) := e.heap.alloc fs
      ({ c with eo := some { e with heap := h, vis := e.vis.push r } }, toString e.vis.size)
    | _, _ => (c, "bad-op")
  | "eo.image" :: [x] =>
    match c.eo, parseF x with
    | some e, some x =>
      let r := EvObj.step e.heap e.obj (.image x)
      match r.out with
      | .array ref => ({ c with eo := some { e with heap := r.heap, obj := r.obj, vis := e.vis.push ref } },
                       s!"{e.vis.size}: {hxs (r.heap.read ref)}")
      | _ => (c, "bad-op")
    | _, _ => (c, "bad-op")
  | [op, a] =>
    if op == "eo.inverse" || op == "eo.preimages" then
      match c.eo, a.toNat? with
      | some e, some i =>
        match e.vis[i]? with
        | some ref =>
          let r := EvObj.step e.heap e.obj (if op == "eo.inverse" then .inverse ref else .preimages ref)
          match r.out with
          | .number x => ({ c with eo := some { e with heap := r.heap, obj := r.obj } }, hx x)
          | _ => (c, "bad-op")
        | none => (c, "bad-op")
      | _, _ => (c, "bad-op")
    else stepRest c toks
  | ["eo.setbounds", a, b] =>
    match c.eo, a.toNat?, b.toNat? with
    | some e, some i, some j =>
      match e.vis[i]?, e.vis[j]? with
      | some ri, some rj =>
        let r := EvObj.step e.heap e.obj (.setBounds ri rj)
        ({ c with eo := some { e with heap := r.heap, obj := r.obj } }, "ok")
      | _, _ => (c, "bad-op")
    | _, _, _ => (c, "bad-op")
  | "eo.poke" :: i :: rest =>
    -- the CALLER overwrites, in place, an array it owns (a bounds array it passed, an argument, a result it was handed)
    match c.eo, i.toNat?, parseFs rest with
    | some e, some i, some fs =>
      match e.vis[i]? with
      | some ref =>
        if fs.length == (e.heap.read ref).length then
          ({ c with eo := some { e with heap := e.heap.write ref fs } }, "ok")
        else (c, "bad-op")
      | none => (c, "bad-op")
    | _, _, _ => (c, "bad-op")
  | ["eo.visible"] =>
    match c.eo with
    | some e => (c, " | ".intercalate (e.vis.toList.map fun r => hxs (e.heap.read r)))
    | none => (c, "bad-op")
  | _ => stepRest c toks

partial def loop (h : IO.FS.Stream) (out : IO.FS.Stream) (c : Ctx) : IO Unit := do
  let line ← h.getLine
  if line.isEmpty then return ()
  let (c', o) := step c (line.trimAscii.toString)
  out.putStrLn o
  loop h out c'

def main : IO Unit := do
  let stdin ← IO.getStdin
  let stdout ← IO.getStdout
  loop stdin stdout {}
