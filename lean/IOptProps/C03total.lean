import IOptProofs.ComposeRun
import IOptProofs.ProcessField
import IOptProps.C02
import IOptProps.C03
import IOptProps.C11
/-!
# C03 / C11 / C02 for an objective that never raises: the "nothing raises" hypotheses are discharged

Setting: a linearly ordered field with the laws of the library functions (`FnsLaws`), `1 < r`,
`0 < n` (= N), and a TOTAL objective (`∀ k pt, (f k pt).isSome`).  Then the exceptions of
`CalculateIterationPoint` are unreachable (`IOptProofs/MethodProc.lean`), so nothing raises, and the
conditional statements of `IOptProps/C03.lean`, `IOptProps/C11.lean` hold outright.

`C02_process*`: every evaluation made by a process started fresh is placed by the AGP decision rule of
`IOptProps/C02.lean` (argmax of the characteristic, the new-point formula, strictly inside, never a
repeated coordinate).
-/
set_option linter.unusedSectionVars false

namespace C03
open AGP AGP.Ctl Proc
variable {α : Type} [Field α] [LinearOrder α] [IsStrictOrderedRing α] [Fns α]

theorem ne_none_of_total {f : Nat → List α → Option α} (htot : ∀ k pt, (f k pt).isSome = true) :
    ∀ i pt, f i pt ≠ none := by
  intro i pt h
  have := htot i pt
  rw [h] at this
  cases this

/-- **C03 for a total objective.**  `Solve` on a fresh solver
1. never raises: the `try` of `Solve` catches nothing (`solveLoop … = (_, false)`, `solveRaise = none`);
2. terminates by the stop rule: `CheckStopCondition` holds in the final state;
3. `numberOfGlobalTrials = iterationsCount =` number of recorded evaluations `=` number of calls of
   the objective `≤ itersLimit ≤ max itersLimit 1`, and the `i`-th record is the value returned by the
   `i`-th call;
4. performs exactly `K` iterations where `K ≤ itersLimit` (`1 ≤ K` if `itersLimit ≥ 1`), and either
   `K = itersLimit` or `δ_K < eps`, while `δ_k ≥ eps` for every `k < K` (`δ_k = delta p f k` is the
   Hölder length of the interval subdivided by iteration `k ≥ 2`; it is defined for all `2 ≤ k ≤ K`):
   `K = min(first k with δ_k < eps, itersLimit)`. -/
theorem C03_total (p : Params α) (f : Nat → List α → Option α)
    (refine : PState α → Option (LocalResult α)) (hL : FnsLaws α) (hr : 1 < p.r) (hn : 0 < p.n)
    (htot : ∀ k pt, (f k pt).isSome = true) :
    ((solveLoop p f (p.itersLimit + 1) {}).2 = false ∧ solveRaise p f (p.itersLimit + 1) {} = none) ∧
    stopNow p (solve p f refine {}) = true ∧
    ((solve p f refine {}).nTrials = (solve p f refine {}).evals.length ∧
      (solve p f refine {}).iters = (solve p f refine {}).nTrials ∧
      (solve p f refine {}).calls = (solve p f refine {}).nTrials ∧
      (solve p f refine {}).nTrials ≤ p.itersLimit ∧
      (solve p f refine {}).calls ≤ max p.itersLimit 1 ∧
      ∀ i pt z, (solve p f refine {}).evals[i]? = some (pt, z) → f i pt = some z) ∧
    ∃ K, (solve p f refine {}).nTrials = K ∧ K ≤ p.itersLimit ∧ (1 ≤ p.itersLimit → 1 ≤ K) ∧
      (K = p.itersLimit ∨ ∃ d, delta p f K = some d ∧ d < p.eps) ∧
      (∀ k d, k < K → delta p f k = some d → ¬ d < p.eps) ∧
      (∀ k, 2 ≤ k → k ≤ K → ∃ d, delta p f k = some d) := by
  have hne := ne_none_of_total htot
  have hnr : (solveLoop p f (p.itersLimit + 1) {}).2 = false := solve_fresh_no_raise hL hr hn hne
  have hsr : solveRaise p f (p.itersLimit + 1) {} = none := by
    have := solveLoop_raised p f (p.itersLimit + 1) {}
    rw [hnr] at this
    cases h : solveRaise p f (p.itersLimit + 1) ({} : PState α) with
    | none => rfl
    | some e => rw [h] at this; cases this
  obtain ⟨t1, t2, t3, t4, t5, -, -, t8⟩ := C03_trials_eq_evals p f refine
  have hcalls := t8 hne
  obtain ⟨K, psK, ids, hrun, hK, -, -, hst, hcrit, hmin⟩ := C03_stop_exact_generic p f refine hnr
  obtain ⟨K', hK', -, hdef, -, -⟩ := C03_accuracy_is_min p f refine hnr
  have hKK : K' = K := by rw [← hK', hK]
  subst hKK
  refine ⟨⟨hnr, hsr⟩, hst, ⟨t1, t2, hcalls, t3, by rw [hcalls]; exact t4, t5⟩, K', hK, by rw [← hK]; exact t3, ?_, ?_, ?_,
    hdef⟩
  · intro hlim
    obtain ⟨K2, h1, -, h3, -⟩ := C03_stop_exact p f refine hlim hnr
    rw [← hK, h1]; exact h3
  · rcases Nat.eq_zero_or_pos p.itersLimit with h0 | hlim
    · left
      have : K' ≤ p.itersLimit := by rw [← hK]; exact t3
      omega
    · obtain ⟨K2, h1, -, -, -, h5, -⟩ := C03_stop_exact p f refine hlim hnr
      have : K2 = K' := by rw [← h1, hK]
      subst this; exact h5
  · rcases Nat.eq_zero_or_pos p.itersLimit with h0 | hlim
    · intro k d hk
      have : K' ≤ p.itersLimit := by rw [← hK]; exact t3
      omega
    · obtain ⟨K2, h1, -, -, -, -, h6, -⟩ := C03_stop_exact p f refine hlim hnr
      have : K2 = K' := by rw [← h1, hK]
      subst this; exact h6

end C03

namespace C11
open AGP AGP.Ctl Proc
variable {α : Type} [Field α] [LinearOrder α] [IsStrictOrderedRing α] [Fns α]

/-- **C11 for a total objective: nothing raises along the canonical sequence.**  From a fresh solver
the canonical sequence `iterN p f k {}` exists for every `k`; `DoGlobalIteration(k)` never raises from a
reachable process state (`ProcOK`, in particular from a fresh solver and after any number of successful
batches). -/
theorem C11_no_raise_total {p : Params α} {f : Nat → List α → Option α} (hL : FnsLaws α) (hr : 1 < p.r)
    (hn : 0 < p.n) (htot : ∀ k pt, (f k pt).isSome = true) :
    (∀ k, ∃ ps' ids, iterN p f k {} = .ok (ps', ids) ∧ ProcOK p ps') ∧
    (∀ k (ps : PState α) (saved : List Nat), ProcOK p ps →
      (doGlobalIteration p f k ps saved).raised = none ∧ ProcOK p (doGlobalIteration p f k ps saved).s) := by
  have hne := C03.ne_none_of_total htot
  constructor
  · intro k
    obtain ⟨ps', ids, h⟩ := iterN_total hL hr hn hne k (procOK_fresh p)
    exact ⟨ps', ids, h, iterN_procOK (procOK_fresh p) h⟩
  · intro k ps saved h
    have := doGlobalIteration_total hL hr hn hne k (saved := saved) h
    exact ⟨this, doGlobalIteration_procOK k h this⟩

/-- **C11 for a total objective: batches, then `Solve`.**  For every list of batch sizes `ks`
(`n = Σ k_j`): after `DoGlobalIteration(k_1); …; DoGlobalIteration(k_n)` on a fresh solver the state is, up
to the event log, state `n` of the canonical sequence; a following `Solve` stops, without raising, in
(the refinement of) a state `X` that is, up to the log, state `n + j` of the same sequence, `n + j` being
the FIRST index `≥ n` at which the stop criterion holds; `OnMethodStop` reports `True`. -/
theorem C11_batches_then_solve_total (p : Params α) (f : Nat → List α → Option α)
    (refine : PState α → Option (LocalResult α)) (hL : FnsLaws α) (hr : 1 < p.r) (hn : 0 < p.n)
    (htot : ∀ k pt, (f k pt).isSome = true) (ks : List Nat) :
    ∃ ps0 ids0 j psj ids X,
      iterN p f ks.sum {} = .ok (ps0, ids0) ∧
      (runOps p f refine (ks.map Op.iter) {}).core = ps0.core ∧
      iterN p f (ks.sum + j) {} = .ok (psj, ids0 ++ ids) ∧ stopNow p psj = true ∧
      (∀ i, i < j → ∃ psi idsi, iterN p f (ks.sum + i) {} = .ok (psi, idsi) ∧ stopNow p psi = false) ∧
      X.core = psj.core ∧
      runOps p f refine (ks.map Op.iter ++ [Op.solve]) {} =
        (refineStep refine X).appendLog [Event.methodStop true] := by
  have hne := C03.ne_none_of_total htot
  obtain ⟨ps0, ids0, h0⟩ := iterN_total hL hr hn hne ks.sum (procOK_fresh p)
  obtain ⟨j, psj, ids, X, hrun, hpre, hsolve, hcase⟩ := C11_solve_after_batches p f refine ks {} ps0 ids0 h0
  have hok : ProcOK p psj := iterN_procOK (procOK_fresh p) hrun
  rcases hcase with ⟨hst, hcX⟩ | ⟨-, pe, e, herr, -⟩
  · refine ⟨ps0, ids0, j, psj, ids, X, h0, batches_sum (refine := refine) ks h0, hrun, hst, hpre, hcX, ?_⟩
    rw [hsolve, stopNow_congr hcX, hst]
  · obtain ⟨ps', id, hone⟩ := oneIteration_ok_of_total hL hr hn hne hok
    rw [hone] at herr; cases herr

/-- **C11 for a total objective: `Solve` is idempotent** (no hypothesis on raising). -/
theorem C11_solve_idempotent_total (p : Params α) (f : Nat → List α → Option α)
    (refine refine2 : PState α → Option (LocalResult α)) (hL : FnsLaws α) (hr : 1 < p.r) (hn : 0 < p.n)
    (htot : ∀ k pt, (f k pt).isSome = true) :
    solve p f (fun _ => none) (solve p f refine {}) = (solve p f refine {}).appendLog [Event.methodStop true] ∧
    solve p f refine2 (solve p f refine {}) =
      (refineStep refine2 (solve p f refine {})).appendLog [Event.methodStop true] ∧
    (solve p f refine2 (solve p f refine {})).evals = (solve p f refine {}).evals ∧
    (solve p f refine2 (solve p f refine {})).calls = (solve p f refine {}).calls ∧
    (solve p f refine2 (solve p f refine {})).nTrials = (solve p f refine {}).nTrials :=
  C11_solve_idempotent p f refine refine2 {} (solve_fresh_no_raise hL hr hn (C03.ne_none_of_total htot))

end C11

namespace AGP
open AGP.Ctl Proc
variable {α : Type} [Field α] [LinearOrder α] [IsStrictOrderedRing α] [Fns α]

/-- The evaluation `(pt, z)` made by a pass from the process state `ps` is placed by the AGP rule, and
the pass leaves the method state `m'`:
* the first pass evaluates the image of `x = 1/2`;
* a later pass, from the reachable method state `s` (which satisfies the invariant), selects by
  `prepare` the neighbouring pair `(pr.left, pr.old)` whose characteristic is maximal among all
  neighbouring pairs (`Spec.R` with the current `M`, `Z`), evaluates the image of
  `pr.x = Spec.newPoint …` — strictly inside the selected interval and different from every stored
  coordinate — and commits the value. -/
def PlacedByRule (p : Params α) (ps : PState α) (pt : List α) (z : α) (m' : Option (State α)) : Prop :=
  (ps.m = none ∧ pt = p.image (1 / 2) ∧ m' = some (firstIteration p z)) ∨
  ∃ s pr, ps.m = some s ∧ Reach p s ps.evals ∧ Inv p s ∧ prepare p s = .ok pr ∧
    m' = some (commit p pr z) ∧ pt = p.image pr.x ∧
    Neighbours pr.s.items pr.left pr.old ∧ pr.s.items.map eraseR = s.items.map eraseR ∧
    (∀ a b, Neighbours s.items a b →
      Spec.R p.n p.r s.M s.Z a b ≤ Spec.R p.n p.r s.M s.Z pr.left pr.old) ∧
    pr.x = Spec.newPoint p.n p.r s.M pr.left pr.old ∧
    pr.left.x < pr.x ∧ pr.x < pr.old.x ∧ ∀ it ∈ s.items, it.x ≠ pr.x

/-- **C02 at process level, one pass.**  A successful pass of `DoGlobalIteration` from a reachable
process state (`ProcOK`: fresh, or reached by successful passes) records exactly one new evaluation
`(pt, z)`, `z` being what the objective returned at call number `ps.calls`, and that evaluation is
placed by the AGP rule; the new process state is reachable again. -/
theorem C02_process {p : Params α} {f : Nat → List α → Option α} (hL : FnsLaws α) (hr : 1 < p.r)
    (hn : 0 < p.n) {ps ps' : PState α} {id : Nat} (hok : ProcOK p ps)
    (h : oneIteration p f ps = .ok (ps', id)) :
    ProcOK p ps' ∧ ∃ pt z, f ps.calls pt = some z ∧ ps'.evals = ps.evals ++ [(pt, z)] ∧
      PlacedByRule p ps pt z ps'.m := by
  refine ⟨oneIteration_procOK hok h, ?_⟩
  obtain ⟨-, -, pt, z, hz, hev, hcase⟩ := oneIteration_ok h
  refine ⟨pt, z, hz, hev, ?_⟩
  rcases hcase with ⟨hm, hpt, hm', -, -⟩ | ⟨s, pr, hm, hpr, hpt, hm', -, -⟩
  · exact .inl ⟨hm, hpt, hm'⟩
  · right
    have hre : Reach p s ps.evals := by
      unfold ProcOK at hok; rw [hm] at hok; exact hok
    have hI := hre.inv hL hr hn
    obtain ⟨pr', hp', hnb, hitems, hin1, hin2⟩ := C02_prepare_ok hL hr hn hI
    rw [hpr] at hp'; cases hp'
    obtain ⟨hx, hpp⟩ := C02_new_point_formula hL hr hn hI hpr
    exact ⟨s, pr, hm, hre, hI, hpr, hm', by rw [hpt, hpp], hnb, hitems,
      C02_selection_is_argmax_items hL hr hn hI hpr, hx, hin1, hin2, C02_no_repeat hL hr hn hI hpr⟩

/-- **C02 at process level, the `(k+1)`-th evaluation of a run from a fresh solver.**  If the canonical
sequence makes `k + 1` passes, then the state `psk` after `k` passes is reachable, has made `k`
evaluations with `k` calls, and pass `k + 1` appends one evaluation `(pt, z)` — entry number `k` of the
record, `z` being the value returned by call number `k` — which is placed by the AGP rule. -/
theorem C02_process_kth {p : Params α} {f : Nat → List α → Option α} (hL : FnsLaws α) (hr : 1 < p.r)
    (hn : 0 < p.n) {k : Nat} {ps' : PState α} {ids : List Nat}
    (h : iterN p f (k + 1) {} = .ok (ps', ids)) :
    ∃ psk idsk pt z, iterN p f k {} = .ok (psk, idsk) ∧ ProcOK p psk ∧ psk.evals.length = k ∧
      psk.calls = k ∧ f k pt = some z ∧ ps'.evals = psk.evals ++ [(pt, z)] ∧
      ps'.evals[k]? = some (pt, z) ∧ PlacedByRule p psk pt z ps'.m := by
  obtain ⟨psk, idsk, id, hk, h1, -⟩ := iterN_succ_ok h
  have hok := iterN_procOK (procOK_fresh p) hk
  obtain ⟨-, -, c3, c4, -⟩ := iterN_counters hk
  have hlen : psk.evals.length = k := by rw [c4]; exact Nat.zero_add k
  have hcalls : psk.calls = k := by rw [c3]; exact Nat.zero_add k
  obtain ⟨-, pt, z, hz, hev, hrule⟩ := C02_process hL hr hn hok h1
  refine ⟨psk, idsk, pt, z, hk, hok, hlen, hcalls, by rw [← hcalls]; exact hz, hev, ?_, hrule⟩
  rw [hev, List.getElem?_append_right (by omega), hlen]; simp

/-- **C02 for `Solve` with a total objective.**  Every evaluation recorded by `Solve` on a fresh solver
is placed by the AGP rule: for every `k <` `numberOfGlobalTrials`, entry `k` of the record is the
evaluation `(pt, z)` made by pass `k + 1` of the canonical sequence from the state `psk` after `k`
passes, `z` is the value the objective returned at its call number `k`, and `PlacedByRule` holds. -/
theorem C02_solve_total (p : Params α) (f : Nat → List α → Option α)
    (refine : PState α → Option (LocalResult α)) (hL : FnsLaws α) (hr : 1 < p.r) (hn : 0 < p.n)
    (htot : ∀ k pt, (f k pt).isSome = true) (k : Nat) (hk : k < (solve p f refine {}).nTrials) :
    ∃ psk idsk ps1 ids1 pt z, iterN p f k {} = .ok (psk, idsk) ∧ iterN p f (k + 1) {} = .ok (ps1, ids1) ∧
      ProcOK p psk ∧ psk.evals.length = k ∧ f k pt = some z ∧
      (solve p f refine {}).evals[k]? = some (pt, z) ∧ PlacedByRule p psk pt z ps1.m := by
  have hnr := solve_fresh_no_raise hL hr hn (C03.ne_none_of_total htot)
  obtain ⟨K, psK, idsK, hrun, hK, hev, -⟩ := C03.C03_stop_exact_generic p f refine hnr
  rw [hK] at hk
  have hsplit : K = (k + 1) + (K - (k + 1)) := by omega
  rw [hsplit] at hrun
  obtain ⟨ps1, ids1, h1, hpre⟩ := iterN_prefix_ok hrun
  obtain ⟨psk, idsk, pt, z, hk0, hok, hlen, -, hz, hev1, hget, hrule⟩ := C02_process_kth hL hr hn h1
  refine ⟨psk, idsk, ps1, ids1, pt, z, hk0, h1, hok, hlen, hz, ?_, hrule⟩
  rw [hev]
  obtain ⟨t, ht⟩ := hpre
  rw [← ht, List.getElem?_append_left (by rw [hev1]; simp [hlen])]
  exact hget

end AGP

/-! ## Non-vacuity (over ℝ with the real-number library functions, `N = 1`) -/
section NonVacuity
open AGP AGP.Ctl Proc
attribute [local instance] Fns.real

/-- parameters of the example: `N = 1`, `r = 2`, `eps = 1/100`, at most 20 iterations -/
noncomputable def C03.exampleParams : Params ℝ :=
  { n := 1, r := 2, eps := 1 / 100, itersLimit := 20, image := fun x => [x] }

/-- a total objective: `(x - 1/3)^2` -/
noncomputable def C03.exampleObj : Nat → List ℝ → Option ℝ := fun _ pt => some ((pt.headD 0 - 1 / 3) ^ 2)

/-- all hypotheses of `C03_total`, `C11_*_total`, `C02_solve_total` hold for this instance, and the run
makes at least one trial (so `k = 0` is a valid index in `C02_solve_total`) -/
example : FnsLaws ℝ ∧ 1 < C03.exampleParams.r ∧ 0 < C03.exampleParams.n ∧
    (∀ k pt, (C03.exampleObj k pt).isSome = true) ∧
    0 < (solve C03.exampleParams C03.exampleObj (fun _ => none) {}).nTrials := by
  have hr : (1 : ℝ) < C03.exampleParams.r := by norm_num [C03.exampleParams]
  have hn : 0 < C03.exampleParams.n := by norm_num [C03.exampleParams]
  have htot : ∀ k pt, (C03.exampleObj k pt).isSome = true := fun _ _ => rfl
  refine ⟨FnsLaws.real, hr, hn, htot, ?_⟩
  obtain ⟨-, -, -, K, hK, -, h1, -⟩ := C03.C03_total C03.exampleParams C03.exampleObj (fun _ => none)
    FnsLaws.real hr hn htot
  rw [hK]
  exact h1 (by norm_num [C03.exampleParams])

/-- the hypotheses of `C02_process` / `C02_process_kth` hold for the 4th pass of that run -/
example : ∃ ps' ids, iterN C03.exampleParams C03.exampleObj (3 + 1) {} = .ok (ps', ids) := by
  have hr : (1 : ℝ) < C03.exampleParams.r := by norm_num [C03.exampleParams]
  have hn : 0 < C03.exampleParams.n := by norm_num [C03.exampleParams]
  exact iterN_total FnsLaws.real hr hn (fun _ _ => by simp [C03.exampleObj]) 4 (procOK_fresh _)

end NonVacuity
