import IOptProofs.MethodFacts
/-!
# C04 — the current best trial

"The current best trial is one of the evaluated points, its reported value equals the objective at
its reported point, and no evaluated trial has a smaller value."

`AGP.Reach p s log`: `s` is reachable with evaluation log `log` (points handed to the objective and
the values returned, oldest first). The trial with id `j + 2` is the `j`-th evaluation (ids 0 and 1 are
the two end points).
-/
set_option linter.unusedSectionVars false

namespace AGP
variable {α : Type} [Field α] [LinearOrder α] [IsStrictOrderedRing α] [Fns α]
variable {p : Params α} {s : State α}

/-- **C04.** In every reachable state the item with id `s.best` exists (and is the unique item with
that id); it is evaluated; its reported point and value `(point, hv)` are an entry of the evaluation
log — namely entry number `s.best - 2` — so the value is the objective at that point; no entry of the
log has a smaller value; and among the entries with that minimal value it is the EARLIEST one (ties
keep the earlier trial). Moreover `hv = z = s.Z`. -/
theorem C04_best (hL : FnsLaws α) (hr : 1 < p.r) (hn : 0 < p.n) {log : List (List α × α)}
    (h : Reach p s log) :
    ∃ it, findItem s.items s.best = some it ∧ it ∈ s.items ∧ it.id = s.best ∧ it.ev = true ∧
      (it.point, it.hv) ∈ log ∧ (∀ e ∈ log, it.hv ≤ e.2) ∧
      2 ≤ s.best ∧ log[s.best - 2]? = some (it.point, it.hv) ∧
      (∀ j e, log[j]? = some e → e.2 = it.hv → s.best - 2 ≤ j) ∧
      it.hv = it.z ∧ it.z = s.Z := by
  have hI := (h.inv hL hr hn).toInvItems
  have hl := h.logInv hL hr hn
  obtain ⟨bi, hbi, hid, hbe, hz⟩ := hI.best
  have hhv := hI.hv_eq bi hbi hbe
  have hfind := findItem_of_mem hI.ids_nodup hbi
  rw [hid] at hfind
  obtain ⟨h2, hidx⟩ := hl.idx bi hbi hbe
  rw [hid] at h2 hidx
  refine ⟨bi, hfind, hbi, hid, hbe, ?_, ?_, h2, ?_, ?_, hhv, hz⟩
  · rw [hhv]; exact hl.perm.mem_iff.1 (mem_evalsOf.2 ⟨bi, hbi, hbe, rfl⟩)
  · intro e he
    obtain ⟨it, hit, hev, rfl⟩ := mem_evalsOf.1 (hl.perm.mem_iff.2 he)
    rw [hhv, hz]; exact hI.Z_le it hit hev
  · rw [hhv]; exact hidx
  · intro j e hj he
    have hjlt : j < log.length := by
      by_contra hc
      rw [List.getElem?_eq_none (not_lt.1 hc)] at hj
      exact absurd hj (by simp)
    obtain ⟨it, hit, hev, hitid⟩ := hl.surj j hjlt
    obtain ⟨_, hidx'⟩ := hl.idx it hit hev
    rw [hitid, Nat.add_sub_cancel, hj] at hidx'
    have hze : it.z = s.Z := by
      have := Option.some.inj hidx'
      rw [this] at he
      rw [← hz, ← hhv]; exact he
    have := hI.best_first it hit hev hze
    omega

/-- **C04, ties keep the earlier trial (one step).** `commit` replaces the best trial only when the
new value is STRICTLY smaller than the best value so far; then the new trial becomes the best. -/
theorem C04_update_strict (hL : FnsLaws α) (hr : 1 < p.r) (hn : 0 < p.n) (h : Inv p s)
    {pr : Prep α} (hp : prepare p s = .ok pr) (z : α) :
    (z < s.Z → (commit p pr z).best = s.nextId ∧ (commit p pr z).Z = z) ∧
    (¬ z < s.Z → (commit p pr z).best = s.best ∧ (commit p pr z).Z = s.Z) := by
  have hs := prepare_spec' hL hr hn h hp
  have h1 : (commit p pr z).best = cBest pr z := by rw [commit_eq]
  have h2 : (commit p pr z).Z = cZ pr z := by rw [commit_eq]
  rw [h1, h2, cZ_eq hs, ← hs.Z_eq, ← hs.best_eq, ← hs.nextId_eq]
  unfold cBest
  rw [better_eq hs]
  constructor
  · intro hz; simp [hz]
  · intro hz; simp [hz]

/-! ## Non-vacuity -/
section NonVacuity
attribute [local instance] Fns.real

/-- a run with a tie: the values are `1, 0, 0, 2` (the minimum `0` is attained twice) -/
example : ∃ (p : Params ℝ) (s : State ℝ) (log : List (List ℝ × ℝ)) (pr : Prep ℝ),
    FnsLaws ℝ ∧ 1 < p.r ∧ 0 < p.n ∧ Reach p s log ∧ log.map (·.2) = [1, 0, 0, 2] ∧ Inv p s ∧
    prepare p s = .ok pr := by
  let p : Params ℝ := { n := 1, r := 2, eps := 1 / 100, itersLimit := 100, image := fun x => [x] }
  have hr : (1 : ℝ) < p.r := by norm_num [p]
  have hn : 0 < p.n := by norm_num [p]
  obtain ⟨s, log, hre, hlog⟩ := exists_reach (p := p) FnsLaws.real hr hn
    (fun k => if k = 0 then 1 else if k = 3 then 2 else 0) 3
  have hI := hre.inv FnsLaws.real hr hn
  obtain ⟨pr, hp, _⟩ := prepare_spec FnsLaws.real hr hn hI
  refine ⟨p, s, log, pr, FnsLaws.real, hr, hn, hre, ?_, hI, hp⟩
  rw [hlog]; simp [List.range_succ]

end NonVacuity
end AGP
