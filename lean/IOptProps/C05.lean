import IOptProofs.ProcessRefine
import IOptProofs.ProcessToy
/-!
# C05 (refinement part) — `DoLocalRefinement` only improves the reported best trial

`DoLocalRefinement` runs Nelder–Mead (scipy, with bounds) from the point of the best trial, then overwrites, in place,
the point and the value holder of that best trial and sets `numberOfLocalTrials`.  In the model the result of the scipy call
is an input (`LocalResult`: point `x`, value `fx` of the objective there, `nfev`); its contract is `NM` below (validated
against scipy separately).  The box clause for the trials of the *global* phase is proved elsewhere from the evolvent theorems.
-/

set_option linter.unusedSectionVars false

namespace C05
open AGP AGP.Ctl Proc

section generic
variable {α : Type} [Add α] [Sub α] [Mul α] [Div α] [Neg α] [LT α] [LE α]
  [DecidableLT α] [DecidableLE α] [OfNat α 0] [OfNat α 1] [OfNat α 2] [OfNat α 4] [Fns α]

/-- `x` lies in the box `[lo, hi]` (componentwise) -/
def InBox (lo hi x : List α) : Prop :=
  x.length = lo.length ∧ x.length = hi.length ∧
  ∀ (i : Nat) (l u v : α), lo[i]? = some l → hi[i]? = some u → x[i]? = some v → l ≤ v ∧ v ≤ u

/-- The contract of the Nelder–Mead call `minimize(obj, x0 = start, method = 'Nelder-Mead', bounds = [lo, hi])` followed by
the re-evaluation `obj(result.x)`: the returned point is inside the bounds, the returned value is the objective there, and it is
not worse than the value at the start point. -/
structure NM (obj : List α → α) (lo hi : List α) (lr : LocalResult α) (start : List α) : Prop where
  inside : InBox lo hi lr.x
  value : lr.fx = obj lr.x
  le_start : lr.fx ≤ obj start

/-- **C05, refinement.**  `DoLocalRefinement` on a solver that has done its first iteration (method state `s`); the trial it
refines is the REPORTED trial `rid = reportedId ps s` (what `GetResults()` returns: the method's best `s.best`, unless an earlier
refinement left another trial with a strictly smaller value holder; on the first refinement `rid = s.best`).  It

* changes ONLY the `point` and the value holder `hv` of the item(s) with id `rid`, `numberOfLocalTrials` (`nLocal := nfev`) and
  `__refinedTrial` (`refined := some rid`):
  every item keeps `id, x, z, ev, delta, R`, items with another id are untouched, the order and number of items,
  `M`, `Z`, `best`, the queue, `recalc`, `iters`, `minDelta`, `nTrials`, `nextId`, the records `evals`, `calls` and the event log are unchanged;
* the refined trial `b` becomes `b` with `point := lr.x`, `hv := lr.fx`; it is still the reported trial afterwards if it is the method's
  best or the new value is strictly below the value holder of the method's best (always the case under the Nelder–Mead contract over
  an ordered field: `C04.C04_refine_keeps_reported`);
* under the Nelder–Mead contract `NM` (started at `b.point`) and fidelity of the old record (`b.hv = obj b.point`), the new reported
  value is the objective at the new reported point, is `≤` the old reported value, and the new point is inside the box. -/
theorem C05_refine (ps : PState α) (s : State α) (lr : LocalResult α) (hm : ps.m = some s) :
    ∃ s', (doLocalRefinement ps lr).m = some s' ∧
      -- only the items change, and only as described
      s' = { s with items := s.items.map (refineItem (reportedId ps s) lr) } ∧
      s'.items.length = s.items.length ∧
      (∀ (i : Nat) (it : Item α), s.items[i]? = some it → ∃ it' : Item α, s'.items[i]? = some it' ∧
        it'.id = it.id ∧ it'.x = it.x ∧ it'.z = it.z ∧ it'.ev = it.ev ∧ it'.delta = it.delta ∧ it'.R = it.R ∧
        (it.id ≠ reportedId ps s → it' = it) ∧ (it.id = reportedId ps s → it' = { it with point := lr.x, hv := lr.fx })) ∧
      s'.M = s.M ∧ s'.Z = s.Z ∧ s'.best = s.best ∧ s'.queue = s.queue ∧ s'.recalc = s.recalc ∧ s'.iters = s.iters ∧
      s'.minDelta = s.minDelta ∧ s'.nTrials = s.nTrials ∧ s'.nextId = s.nextId ∧
      (doLocalRefinement ps lr).evals = ps.evals ∧ (doLocalRefinement ps lr).calls = ps.calls ∧
      (doLocalRefinement ps lr).log = ps.log ∧ (doLocalRefinement ps lr).nLocal = lr.nfev ∧
      (doLocalRefinement ps lr).refined = some (reportedId ps s) ∧
      -- the reported trial
      (∀ b : Item α, findItem s.items (reportedId ps s) = some b →
        findItem s'.items (reportedId ps s) = some { b with point := lr.x, hv := lr.fx } ∧
        ((reportedId ps s = s.best ∨ ∀ bi, findItem s.items s.best = some bi → lr.fx < bi.hv) →
          reportedId (doLocalRefinement ps lr) s' = reportedId ps s) ∧
        ∀ (obj : List α → α) (lo hi : List α), NM obj lo hi lr b.point → b.hv = obj b.point →
          lr.fx ≤ b.hv ∧ lr.fx = obj lr.x ∧ InBox lo hi lr.x) := by
  refine ⟨{ s with items := s.items.map (refineItem (reportedId ps s) lr) }, ?_, rfl, by simp, ?_, rfl, rfl, rfl, rfl, rfl, rfl, rfl,
    rfl, rfl, ?_, ?_, ?_, ?_, ?_, ?_⟩
  · rw [doLocalRefinement_some lr hm]
  · intro i it hi
    refine ⟨refineItem (reportedId ps s) lr it, by simp [hi], ?_⟩
    obtain ⟨f1, f2, f3, f4, f5, f6⟩ := refineItem_fields (reportedId ps s) lr it
    exact ⟨f1, f2, f3, f4, f5, f6, fun h => refineItem_of_ne lr h, fun h => refineItem_of_eq lr h⟩
  · rw [doLocalRefinement_some lr hm]
  · rw [doLocalRefinement_some lr hm]
  · rw [doLocalRefinement_some lr hm]
  · rw [doLocalRefinement_some lr hm]
  · rw [doLocalRefinement_some lr hm]
  · intro b hb
    have hbid : b.id = reportedId ps s := by
      have := List.find?_some hb
      simpa using this
    have hfind : findItem (s.items.map (refineItem (reportedId ps s) lr)) (reportedId ps s) =
        some { b with point := lr.x, hv := lr.fx } := by
      rw [findItem_map_refineItem, hb]
      simp [refineItem_of_eq lr hbid]
    refine ⟨hfind, ?_, fun obj lo hi hnm hfid => ⟨by rw [hfid]; exact hnm.le_start, hnm.value, hnm.inside⟩⟩
    intro hcase
    exact reportedId_doLocalRefinement lr hm hb hcase

/-- **C05, first refinement.**  When nothing was refined before (`ps.refined = none`: the first `Solve`, or any use of the solver
before the first `DoLocalRefinement`), the refined trial is the method's best `s.best`, and it is the reported trial before and after. -/
theorem C05_refine_first (ps : PState α) (s : State α) (lr : LocalResult α) (hm : ps.m = some s) (hr : ps.refined = none) :
    reportedId ps s = s.best ∧
    (doLocalRefinement ps lr).m = some { s with items := s.items.map (refineItem s.best lr) } ∧
    (doLocalRefinement ps lr).refined = some s.best ∧
    reportedId (doLocalRefinement ps lr) { s with items := s.items.map (refineItem s.best lr) } = s.best ∧
    (∀ b : Item α, findItem s.items s.best = some b →
      findItem (s.items.map (refineItem s.best lr)) s.best = some { b with point := lr.x, hv := lr.fx }) := by
  have h0 := reportedId_of_none s hr
  refine ⟨h0, by rw [doLocalRefinement_some_first lr hm hr], by rw [doLocalRefinement_some_first lr hm hr], ?_, ?_⟩
  · exact reportedId_eq_best_of_refined_eq (by rw [doLocalRefinement_some_first lr hm hr])
  · intro b hb
    have hbid : b.id = s.best := by
      have := List.find?_some hb
      simpa using this
    rw [findItem_map_refineItem, hb]
    simp [refineItem_of_eq lr hbid]

/-- on a fresh solver (no iteration done) the model's `doLocalRefinement` does nothing -/
theorem C05_refine_fresh (ps : PState α) (lr : LocalResult α) (hm : ps.m = none) : doLocalRefinement ps lr = ps :=
  doLocalRefinement_none lr hm

end generic

/-! ### non-vacuity on the toy instance: objective `(x - 1/3)^2` on `[0, 1]`, refinement result `x = 1/3`, value `0` -/
section examples
open ProcToy

/-- the objective as a plain function -/
def obj (pt : List Rat) : Rat := (pt.headD 0 - 1/3) * (pt.headD 0 - 1/3)
/-- a possible result of the local search -/
def lr0 : LocalResult Rat := { x := [1/3], fx := 0, nfev := 7 }

/-- after `Solve` (5 iterations) there is a best trial `b` whose record is faithful, and the contract holds for `lr0` -/
def check : Bool :=
  match (solve (P 5 (1/100)) F noRefine {}).m with
  | none => false
  | some s =>
    match findItem s.items s.best with
    | none => false
    | some b => decide (b.hv = obj b.point) && decide (lr0.fx ≤ obj b.point) && decide (lr0.fx = obj lr0.x)

example : check = true := by decide +kernel

example : InBox [0] [1] lr0.x := by
  refine ⟨rfl, rfl, ?_⟩
  intro i l u v hl hu hv
  cases i with
  | zero =>
    simp [lr0] at hl hu hv
    subst hl; subst hu; subst hv
    decide +kernel
  | succ i => simp at hl

/-- the refined solver reports value `0` at `[1/3]` with `numberOfLocalTrials = 7`; it is the first refinement, so the reported
trial is the method's best, before and after, and it is remembered as the refined trial -/
example :
    let ps0 := solve (P 5 (1/100)) F noRefine {}
    let ps := doLocalRefinement ps0 lr0
    ps0.refined = none ∧
    (ps.m.bind fun s => (findItem s.items s.best).map fun b => (b.point, b.hv)) = some ([1/3], 0) ∧
    (ps.m.bind fun s => (findItem s.items (reportedId ps s)).map fun b => (b.point, b.hv)) = some ([1/3], 0) ∧
    ps.nLocal = 7 ∧ ps.refined = ps0.m.map (·.best) ∧ ps.m.map (reportedId ps) = ps0.m.map (·.best) := by
  decide +kernel

end examples

end C05
