import IOptProofs.BenchSym
import IOptProofs.BenchDy
import IOptProofs.BenchMeta2
import IOptProofs.BenchMeta3
import IOptProofs.BenchShekel
import IOptProofs.ShekelCertAll
import IOptProofs.BenchShekel4
import IOptProofs.ShekelCertS4
/-!
# C10: the declared optimum of each benchmark family is the true one

"For every instance of every shipped family (… Rastrigin and XSquared in any dimension …) the objective at
the declared optimum point equals the declared optimum value within 1e-4, no point of the box has a value
lower than the declared one by more than 2e-3*max(1,|f*|), and the declared point lies within 0.5% of the
box side of a true global minimiser."

This file:
* XSquared and Rastrigin, symbolically, in every dimension (no computation): all three clauses hold with
  error 0, over all of `ℝⁿ` (not only the box);
* Shekel 0..999 by a verified interval branch-and-bound evaluated by the kernel (`IOptProofs/ShekelCert*.lean`);
* Shekel4 1..3 (4-dimensional branch-and-bound).
(GKLS: `C10gkls`; Hill, Grishagin, StronginC3 are not in this file.)
-/

namespace C10
open BenchSym BenchMeta

/-- **C10, XSquared, any dimension.** `Σ xᵢ²` is non-negative everywhere, is 0 at the origin, and a point
whose value is at most `τ` has every coordinate with `xᵢ² ≤ τ`. -/
theorem C10_xsquared :
    (∀ x : List ℝ, 0 ≤ Prob.xsquared x) ∧
    (∀ n : Nat, Prob.xsquared (List.replicate n (0 : ℝ)) = 0) ∧
    (∀ (x : List ℝ) (τ : ℝ), Prob.xsquared x ≤ τ → ∀ xi ∈ x, xi ^ 2 ≤ τ) :=
  ⟨xsquared_nonneg, xsquared_origin, xsquared_local⟩

/-- localisation of the near-minimisers of XSquared: value `≤ τ` forces `|xᵢ| ≤ √τ` -/
theorem C10_xsquared_near (x : List ℝ) (τ : ℝ) (h : Prob.xsquared x ≤ τ) :
    ∀ xi ∈ x, |xi| ≤ Real.sqrt τ :=
  fun xi hxi => abs_le_sqrt_of_sq_le (xsquared_local x τ h xi hxi)

/-- the instance for the tolerance `2e-3` of C10 (box `[-1,1]`, side 2): every point whose value is within
`2e-3` of the optimum has all coordinates within `0.045` of the origin -/
theorem C10_xsquared_near_2e3 (x : List ℝ) (h : Prob.xsquared x ≤ 2e-3) : ∀ xi ∈ x, |xi| ≤ 0.045 := by
  intro xi hxi
  have h2 := xsquared_local x _ h xi hxi
  rw [abs_le]
  constructor <;> nlinarith

/-- the only global minimiser of XSquared is the origin (so the declared point IS the global minimiser) -/
theorem C10_xsquared_unique (x : List ℝ) (h : Prob.xsquared x ≤ 0) : x = List.replicate x.length 0 := by
  apply eq_replicate_zero_of_forall
  intro xi hxi
  have := xsquared_local x 0 h xi hxi
  nlinarith

/-- **C10, Rastrigin, any dimension.** `Σ (xᵢ² - 10 cos 2πxᵢ + 10) ≥ Σ xᵢ² ≥ 0` (because
`10 - 10 cos(2πx) ≥ 0`), the value at the origin is 0, and near-minimisers are localised as for XSquared. -/
theorem C10_rastrigin :
    (∀ x : List ℝ, Prob.xsquared x ≤ Prob.rastrigin x ∧ 0 ≤ Prob.xsquared x) ∧
    (∀ n : Nat, Prob.rastrigin (List.replicate n (0 : ℝ)) = 0) ∧
    (∀ (x : List ℝ) (τ : ℝ), Prob.rastrigin x ≤ τ → ∀ xi ∈ x, xi ^ 2 ≤ τ) :=
  ⟨fun x => ⟨xsquared_le_rastrigin x, xsquared_nonneg x⟩, rastrigin_origin,
   fun x τ h => xsquared_local x τ (le_trans (xsquared_le_rastrigin x) h)⟩

theorem C10_rastrigin_near (x : List ℝ) (τ : ℝ) (h : Prob.rastrigin x ≤ τ) :
    ∀ xi ∈ x, |xi| ≤ Real.sqrt τ :=
  C10_xsquared_near x τ (le_trans (xsquared_le_rastrigin x) h)

/-- the only global minimiser of Rastrigin is the origin -/
theorem C10_rastrigin_unique (x : List ℝ) (h : Prob.rastrigin x ≤ 0) : x = List.replicate x.length 0 :=
  C10_xsquared_unique x (le_trans (xsquared_le_rastrigin x) h)

/-- non-vacuity: a non-trivial point and its values -/
example : Prob.xsquared [1, -2] = (5 : ℝ) := by
  rw [xsquared_eq_sum]; norm_num
example : (0 : ℝ) ≤ Prob.rastrigin [1, -2] ∧ Prob.rastrigin (List.replicate 3 (0 : ℝ)) = 0 :=
  ⟨le_trans (xsquared_nonneg _) (xsquared_le_rastrigin _), rastrigin_origin 3⟩

/-! ### the three clauses of C10 for the declared metadata of the two families, every `n` -/

theorem dyR_dyZero : dyR dyZero = 0 := dyR_eq_zero (by simp [dyZero, Dy.toRat])

theorem declared_point (n : Nat) : (List.replicate n dyZero).map dyR = List.replicate n (0 : ℝ) := by
  rw [List.map_replicate, dyR_dyZero]

/-- **C10 for `XSquared(n)`, every n.** With the metadata the constructor declares (`xsquaredMeta n`,
identical to the table rows for n = 1..50 by `C18_meta_open_rows`): the objective at the declared point
equals the declared value exactly; no point at all has a lower value; every global minimiser of dimension
`n` is the declared point itself. -/
theorem C10_xsquared_declared (n : Nat) :
    Prob.xsquared ((xsquaredMeta n).optPoint.map dyR) = dyR (xsquaredMeta n).optValue ∧
    (∀ x : List ℝ, dyR (xsquaredMeta n).optValue ≤ Prob.xsquared x) ∧
    (∀ x : List ℝ, x.length = n → Prob.xsquared x ≤ dyR (xsquaredMeta n).optValue →
      x = (xsquaredMeta n).optPoint.map dyR) := by
  simp only [xsquaredMeta, declared_point, dyR_dyZero]
  exact ⟨xsquared_origin n, xsquared_nonneg, fun x hx h => hx ▸ C10_xsquared_unique x h⟩

/-- **C10 for `Rastrigin(n)`, every n.** Same three clauses, all with error 0. -/
theorem C10_rastrigin_declared (n : Nat) :
    Prob.rastrigin ((rastriginMeta n).optPoint.map dyR) = dyR (rastriginMeta n).optValue ∧
    (∀ x : List ℝ, dyR (rastriginMeta n).optValue ≤ Prob.rastrigin x) ∧
    (∀ x : List ℝ, x.length = n → Prob.rastrigin x ≤ dyR (rastriginMeta n).optValue →
      x = (rastriginMeta n).optPoint.map dyR) := by
  simp only [rastriginMeta, declared_point, dyR_dyZero]
  exact ⟨rastrigin_origin n, fun x => le_trans (xsquared_nonneg x) (xsquared_le_rastrigin x),
    fun x hx h => hx ▸ C10_rastrigin_unique x h⟩

theorem open_decl (r : Gen.MetaRow) (n : Nat) (h : r = rastriginMeta n ∨ r = xsquaredMeta n) :
    r.optPoint.map dyR = List.replicate n (0 : ℝ) ∧ dyR r.optValue = 0 ∧ r.dimension = n := by
  rcases h with rfl | rfl <;> exact ⟨declared_point _, dyR_dyZero, rfl⟩

/-- **The declared optimum of every Rastrigin / XSquared table row is the origin with value 0**
(rows of family code 5 / 6 of the metadata table read from the running classes, n = 1..50;
`arg0` is the constructor argument `n`). -/
theorem C10_open_declared_table : ∀ i < Gen.metaRowsPacked.size,
    ((Gen.metaDecode Gen.metaRowsPacked[i]!).family = 5 ∨ (Gen.metaDecode Gen.metaRowsPacked[i]!).family = 6) →
      (Gen.metaDecode Gen.metaRowsPacked[i]!).optPoint.map dyR
        = List.replicate (Gen.metaDecode Gen.metaRowsPacked[i]!).arg0 (0 : ℝ) ∧
      dyR (Gen.metaDecode Gen.metaRowsPacked[i]!).optValue = 0 ∧
      (Gen.metaDecode Gen.metaRowsPacked[i]!).dimension = (Gen.metaDecode Gen.metaRowsPacked[i]!).arg0 := by
  intro i hi hfam
  apply open_decl
  rcases hfam with hf | hf
  · exact Or.inl ((open_rows i hi).1 hf).1
  · exact Or.inr ((open_rows i hi).2 hf).1

/-! ### Shekel (1000 one-dimensional functions on `[0,10]`) -/

/-- **C10, Shekel, generic theorem.** If the Boolean certificate `Shk.shekelOK i` (computed from the
generated tables `Gen.shekelK/A/C/MinValue/MinPoint i` only) evaluates to `true`, then for
`f = Prob.shekel` with the (real values of the) coefficients of row `i`, `v` the tabulated minimum value
and `p` the tabulated minimum point:
`p ∈ [0,10]`; `|f p - v| ≤ 1e-4`; `f x ≥ v - 2e-3·max(1,|v|)` for all `x ∈ [0,10]`; and `f p < f x` for all
`x ∈ [0,10]` with `|x - p| ≥ 51/1024` (`51/1024 < 0.05` = 0.5 % of the side).  Moreover `f` is continuous. -/
theorem C10_shekel_generic (i : Nat) (h : Shk.shekelOK i = true) :
    Shk.ShekelC10 (Shk.shekelFn i) (dyR (Gen.shekelMinValue i)) (dyR (Gen.shekelMinPoint i)) ∧
    Continuous (Shk.shekelFn i) :=
  Shk.shekelOK_sound i h

/-- **C10, Shekel 0..999.** For every shipped Shekel function the three clauses hold, and in the words of
C10: a global minimiser on `[0,10]` exists, and EVERY global minimiser is within `0.05` (0.5 % of the box
side) of the declared point. -/
theorem C10_shekel (i : Nat) (hi : i < 1000) :
    Shk.ShekelC10 (Shk.shekelFn i) (dyR (Gen.shekelMinValue i)) (dyR (Gen.shekelMinPoint i)) ∧
    (∃ xs, 0 ≤ xs ∧ xs ≤ 10 ∧ ∀ x, 0 ≤ x → x ≤ 10 → Shk.shekelFn i xs ≤ Shk.shekelFn i x) ∧
    (∀ xs, 0 ≤ xs → xs ≤ 10 → (∀ x, 0 ≤ x → x ≤ 10 → Shk.shekelFn i xs ≤ Shk.shekelFn i x) →
      |xs - dyR (Gen.shekelMinPoint i)| < 0.05) := by
  obtain ⟨h, hc⟩ := Shk.shekelOK_sound i (Shk.shekel_all i hi)
  exact ⟨h, h.minimiser hc⟩

/-- the optimum that the `Shekel(i)` object declares (metadata row `1000 + i`, read from the running class)
is exactly the `minShekel` table entry used above, and its box is `[0, 10]` -/
theorem C10_shekel_declared (i : Nat) (hi : i < 1000) :
    1000 + i < Gen.metaRowsPacked.size ∧
    (Gen.metaDecode Gen.metaRowsPacked[1000 + i]!).family = 1 ∧
    (Gen.metaDecode Gen.metaRowsPacked[1000 + i]!).arg0 = i ∧
    (Gen.metaDecode Gen.metaRowsPacked[1000 + i]!).optPoint = [Gen.shekelMinPoint i] ∧
    (Gen.metaDecode Gen.metaRowsPacked[1000 + i]!).optValue = Gen.shekelMinValue i ∧
    (Gen.metaDecode Gen.metaRowsPacked[1000 + i]!).lower = [dyZero] ∧
    (Gen.metaDecode Gen.metaRowsPacked[1000 + i]!).upper = [dy10] :=
  shekel_meta_row i hi

/-- non-vacuity: the certificate of function 0 is `true`, its declared minimum value is below -1.8 -/
example : Shk.shekelOK 0 = true ∧ (Gen.shekelMinValue 0).toRat < -18 / 10 :=
  ⟨Shk.shekel_all 0 (by norm_num), by decide +kernel⟩

/-! ### Shekel4 (3 functions on `[0,10]⁴`) -/

/-- **C10, Shekel4, generic theorem.** If the Boolean certificate `Shk4.shekel4OK n` (computed from
`Gen.shekel4Rows`, `Gen.shekel4MaxI` and the metadata row of `Shekel4(n)`) evaluates to `true`, then the
metadata table has a row of family 2 with argument `n`, and for `f = Prob.shekel4` with the first
`maxI[n-1]` coefficient rows, the declared value `v` and the declared point `p` of that row:
every `pⱼ ∈ [0,10]`; `|f p - v| ≤ 1e-4`; `f x ≥ v - 2e-3·max(1,|v|)` on the whole cube; every point of the
cube with `f x ≤ f p` is within `25/1024` of `p` in every coordinate. -/
theorem C10_shekel4_generic (n : Nat) (h : Shk4.shekel4OK n = true) :
    ∃ row ∈ Gen.metaRowsPacked.toList, (Gen.metaDecode row).family = 2 ∧ (Gen.metaDecode row).arg0 = n ∧
      Shk4.Shekel4C10 (Shk4.shekel4Fn n) (dyR (Gen.metaDecode row).optValue)
        ((Gen.metaDecode row).optPoint.map dyR) :=
  let ⟨row, h1, h2, h3, h4, _⟩ := Shk4.shekel4OK_sound n h
  ⟨row, h1, h2, h3, h4⟩

/-- **C10, Shekel4 1..3.** The three clauses hold for the three shipped functions; a global minimiser on
the cube exists; every global minimiser is within `25/1024` of the declared point in every coordinate, hence
(dimension 4) within Euclidean distance `0.05` = 0.5 % of the box side. -/
theorem C10_shekel4 (n : Nat) (hn : n = 1 ∨ n = 2 ∨ n = 3) :
    ∃ row ∈ Gen.metaRowsPacked.toList, (Gen.metaDecode row).family = 2 ∧ (Gen.metaDecode row).arg0 = n ∧
      Shk4.Shekel4C10 (Shk4.shekel4Fn n) (dyR (Gen.metaDecode row).optValue)
        ((Gen.metaDecode row).optPoint.map dyR) ∧
      (∃ xs : List ℝ, xs.length = (Gen.metaDecode row).optPoint.length ∧ (∀ xj ∈ xs, 0 ≤ xj ∧ xj ≤ 10) ∧
        ∀ x : List ℝ, x.length = (Gen.metaDecode row).optPoint.length → (∀ xj ∈ x, 0 ≤ xj ∧ xj ≤ 10) →
          Shk4.shekel4Fn n xs ≤ Shk4.shekel4Fn n x) ∧
      (∀ xs : List ℝ, xs.length = (Gen.metaDecode row).optPoint.length → (∀ xj ∈ xs, 0 ≤ xj ∧ xj ≤ 10) →
        (∀ x : List ℝ, x.length = (Gen.metaDecode row).optPoint.length → (∀ xj ∈ x, 0 ≤ xj ∧ xj ≤ 10) →
          Shk4.shekel4Fn n xs ≤ Shk4.shekel4Fn n x) →
        List.Forall₂ (fun pj xj => |xj - pj| < 25 / 1024) ((Gen.metaDecode row).optPoint.map dyR) xs ∧
        Shk4.sqd xs ((Gen.metaDecode row).optPoint.map dyR)
          ≤ (Gen.metaDecode row).optPoint.length * (25 / 1024 : ℝ) ^ 2) := by
  have hok : Shk4.shekel4OK n = true := by
    rcases hn with rfl | rfl | rfl
    · exact Shk4.shekel4_cert_1
    · exact Shk4.shekel4_cert_2
    · exact Shk4.shekel4_cert_3
  obtain ⟨row, h1, h2, h3, h4, hc⟩ := Shk4.shekel4OK_sound n hok
  have hmin := h4.minimiser (by simpa using hc ((Gen.metaDecode row).optPoint.map dyR).length)
  simp only [List.length_map] at hmin
  refine ⟨row, h1, h2, h3, h4, hmin.1, fun xs hl hx hm => ?_⟩
  have hclose := hmin.2 xs hl hx hm
  refine ⟨hclose, ?_⟩
  have := Shk4.sqd_le_of_close (25 / 1024) _ _ hclose
  simpa using this

/-- the declared point of `Shekel4(1)` is `(4,4,4,4)` and `4·(25/1024)² < 0.05²` -/
example : (∃ row ∈ Gen.metaRowsPacked.toList, (Gen.metaDecode row).family = 2 ∧ (Gen.metaDecode row).arg0 = 1) ∧
    (4 : ℝ) * (25 / 1024) ^ 2 < 0.05 ^ 2 := by
  refine ⟨?_, by norm_num⟩
  obtain ⟨row, h1, h2, h3, _⟩ := C10_shekel4_generic 1 Shk4.shekel4_cert_1
  exact ⟨row, h1, h2, h3⟩

end C10
