import IOptProps.C14
/-!
# C10 (GKLS part) — the declared optimum of every shipped GKLS function is the true global optimum

For the 400 regenerated data sets (dimension 2..5 × function number 1..100): the declared optimum value is
`-1` and is attained at the declared optimum point, no point of the box `[-1,1]^n` has a smaller value, and
any point of the box with value `-1` is within `10⁻¹⁰` of the declared point.
-/

namespace Gkls
open Prob

/-- **C10 (GKLS).** For `d ∈ {2,3,4,5}`, `k ∈ 1..100`, `r = Gen.gkls d k` (which has `dim = d`):
`F optPoint = optValue = -1`; `F x ≥ optValue` for every `x` in the box; and `F x = -1` with `x` in the box
implies `‖x - optPoint‖ < 10⁻¹⁰`. -/
theorem C10_gkls : ∀ d ∈ [2, 3, 4, 5], ∀ k ∈ List.range' 1 100,
    (Gen.gkls d k).dim = d ∧
    F (Gen.gkls d k) ((Gen.gkls d k).optPoint.map toReal) = toReal (Gen.gkls d k).optValue ∧
    toReal (Gen.gkls d k).optValue = -1 ∧
    (∀ x : List ℝ, x.length = d → InBox x → toReal (Gen.gkls d k).optValue ≤ F (Gen.gkls d k) x) ∧
    (∀ x : List ℝ, x.length = d → InBox x → F (Gen.gkls d k) x = -1 →
      dist x ((Gen.gkls d k).optPoint.map toReal) < 1e-10) := by
  intro d hd k hk
  have hwf := wf_all d hd k hk
  obtain ⟨hc, hdim, _⟩ := C14_class d hd k hk
  obtain ⟨h1, h2, h3⟩ := C14_global_min (Gen.gkls d k) hwf
  rw [hc.optPoint_eq, hc.optValue_eq, hdim] at *
  exact ⟨rfl, h2, rfl, h1, h3⟩

/-- non-vacuity: the box of GKLS(3, 7) contains points of the right length (e.g. the declared optimum) -/
example : ∃ x : List ℝ, x.length = 3 ∧ InBox x := by
  have hD := good_of_WF _ (wf_all 3 (by decide) 7 (by decide))
  have hdim := (C14_class 3 (by decide) 7 (by decide)).2.1
  exact ⟨M (Gen.gkls 3 7) 1, by rw [← hdim]; exact hD.len_M 1 (by omega), Mi_inBox hD 1 (by omega)⟩

end Gkls
