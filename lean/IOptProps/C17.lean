import IOptProofs.EvObj

/-!
# C17 — evolvent queries are pure

Property (verbatim): "The result of an image or inverse-image query depends only on its argument and
the configured bounds and density, not on earlier queries made on the same object; arguments are
not modified, and arrays returned by earlier queries are not changed by later ones." — for every
interleaved sequence of GetImage / GetInverseImage / GetPreimages / SetBounds calls on one object,
every N and m.

Model: `IOptModel/EvObj.lean` — a heap of arrays addressed by `Nat` refs (`Heap`), the object
`EvObj.Obj` with its scratch array `self.yValues` (`scratch`), `EvObj.init` (`__init__`) and
`EvObj.step` (one call).  Pure functions: `Ev.getImage`, `Ev.getInverseImage`
(`IOptModel/Evolvent.lean`).  Helper lemmas about one call: `IOptProofs/EvObj.lean`.
The theorems are about aliasing only and hold for an arbitrary carrier `α` with the operator
classes of the model (no field axioms).

## Vocabulary
* `Setup`      : the caller's heap before the object exists, `n`, `m`, the refs `lo hi` of the two
                 bounds arrays handed to the constructor.  `Setup.WF`: these two refs are valid and
                 the arrays have `n` entries.
* `s.run ops`  : state (`Trace`: heap, object, outputs so far) after `__init__` and the calls `ops`.
                 A *point of a run* is a prefix `ops` of the call sequence.
* `s.returned ops` : refs returned by `GetImage` calls so far.
* `s.Knows ops r`  : `r` is an array the CALLER can name after `ops`: it existed before the object
                 was created (`r < s.heap.size`) or was returned by an earlier `GetImage`.
* `s.visible ops`  : the caller-visible refs of the property: the two bounds arrays, every ref used
                 as an argument so far, every ref returned so far.  (`⊆ Knows`, `knows_of_visible`.)
* `s.ArgsOK ops op`: every argument ref of the call `op` issued after `ops` is known to the caller
                 and is, at that time, an array with `n` entries.
* `s.Valid ops`    : `s.WF` and every call of `ops` had OK arguments when it was issued.  The caller
                 never writes (only the object acts: a run consists of calls only).
* `s.boundsInForce ops` : the CONTENTS, AT THE TIME OF THAT CALL, of the arrays passed to the last
                 `SetBounds` of `ops` (to the constructor if there is none).
* `s.answer ops op` : the value answered by the call `op` issued after `ops` (for an array output:
                 its contents right after the call).

## Hypotheses (all bundled in `s.Valid ops`; satisfiable, see `Example.valid1`, `Example.valid2`)
* the constructor's bounds arrays are valid refs with `n` entries (`Setup.WF`);
* every argument ref of every call is, when the call is issued, an array the caller can name
  (`Knows`: it existed before the object was created or was returned by an earlier `GetImage` —
  hence it is a valid ref) and has `n` entries;
* the caller never writes and allocates nothing during the session: all its arrays exist
  beforehand (the statements quantify over every initial heap) or are results of `GetImage`.
`Knows` cannot be weakened to "valid ref": a caller that passes the object's own scratch array
(Python attribute `yValues`) as an argument does see it modified (`Example`, below).
The length hypotheses are used only for `N = 1` (in-place `self.yValues[0] = x - 0.5` needs a
scratch array with one entry, and the scratch array is a copy of the last inverse-query argument).

## Statements
`C17_scratch_private` (invariant), `C17_step_writes`, `C17_frame`, `C17_frame_visible`,
`C17_args_unchanged`, `C17_functional` (+ `_image`, `_inverse`, `_preimages`), `C17_result_stable`,
`C17_history_independent` (+ `_inverse`, `_same_object`), `C17_preimages_eq_inverse` (+ `_run`);
characterisation of `boundsInForce`: `Setup.boundsInForce_nil/_setBounds/_query`.
Negative control: `Example.nc1`, `Example.nc2` (`stepNoCopy`).
-/

set_option linter.unusedSectionVars false

namespace EvObj

section
variable {α : Type} [Add α] [Sub α] [Mul α] [Div α] [Neg α] [LT α] [LE α]
  [DecidableLT α] [DecidableLE α] [OfNat α 0] [OfNat α 1] [OfNat α 2] [NatCast α] [TruncNat α]

/-! ## Vocabulary of the statements -/

/-- caller-level value of an output -/
inductive Val (α : Type) where
  | array (v : List α)
  | number (x : α)
  | unit
  deriving DecidableEq

/-- the value of an output: arrays are dereferenced in heap `h` -/
def Out.value (h : Heap α) : Out α → Val α
  | .array r => .array (h.read r)
  | .number x => .number x
  | .unit => .unit

/-- heap, object and the outputs of the calls made so far (oldest first) -/
structure Trace (α : Type) where
  heap : Heap α
  obj : Obj α
  outs : List (Out α)

/-- one call -/
def Trace.call (t : Trace α) (op : Op α) : Trace α :=
  let r := step t.heap t.obj op
  { heap := r.heap, obj := r.obj, outs := t.outs ++ [r.out] }

/-- run a sequence of calls from heap `h` and object `o`, collecting the outputs -/
def run (h : Heap α) (o : Obj α) (ops : List (Op α)) : Trace α :=
  ops.foldl Trace.call { heap := h, obj := o, outs := [] }

/-- the situation in which the object is created -/
structure Setup (α : Type) where
  /-- the caller's arrays -/
  heap : Heap α
  n : Nat
  m : Nat
  /-- refs of the bounds arrays passed to `Evolvent(...)` -/
  lo : Nat
  hi : Nat

/-- the constructor arguments are valid refs to arrays with `n` entries -/
def Setup.WF (s : Setup α) : Prop :=
  s.lo < s.heap.size ∧ s.hi < s.heap.size ∧
    (s.heap.read s.lo).length = s.n ∧ (s.heap.read s.hi).length = s.n

/-- `__init__` followed by the calls `ops` -/
def Setup.run (s : Setup α) (ops : List (Op α)) : Trace α :=
  EvObj.run (init s.heap s.n s.m s.lo s.hi).1 (init s.heap s.n s.m s.lo s.hi).2 ops

/-- refs returned to the caller by the calls `ops` -/
def Setup.returned (s : Setup α) (ops : List (Op α)) : List Nat :=
  (s.run ops).outs.flatMap Out.refs

/-- after `ops` the caller can name the array `r` -/
def Setup.Knows (s : Setup α) (ops : List (Op α)) (r : Nat) : Prop :=
  r < s.heap.size ∨ r ∈ s.returned ops

/-- caller-visible refs after `ops`: bounds arrays, arguments so far, results so far -/
def Setup.visible (s : Setup α) (ops : List (Op α)) : List Nat :=
  s.lo :: s.hi :: (ops.flatMap Op.args ++ s.returned ops)

/-- the arguments of the call `op`, issued after `ops`, are arrays known to the caller that have
`n` entries at that time -/
def Setup.ArgsOK (s : Setup α) (ops : List (Op α)) (op : Op α) : Prop :=
  ∀ r ∈ op.args, s.Knows ops r ∧ ((s.run ops).heap.read r).length = s.n

/-- a legal session: well-formed constructor call, then calls with OK arguments -/
inductive Setup.Valid (s : Setup α) : List (Op α) → Prop
  | nil : s.WF → Setup.Valid s []
  | snoc {ops : List (Op α)} {op : Op α} :
      Setup.Valid s ops → s.ArgsOK ops op → Setup.Valid s (ops ++ [op])

/-- contents, at the time of the call, of the arrays passed to the last `SetBounds` in `ops`
(to the constructor if `ops` contains no `SetBounds`) -/
def Setup.boundsInForce (s : Setup α) (ops : List (Op α)) : List α × List α :=
  (ops.foldl (fun (c : Trace α × (List α × List α)) op =>
      (c.1.call op,
        match op with
        | .setBounds lo hi => (c.1.heap.read lo, c.1.heap.read hi)
        | _ => c.2))
    (s.run [], (s.heap.read s.lo, s.heap.read s.hi))).2

/-- the value answered by the call `op` issued after the calls `ops` -/
def Setup.answer (s : Setup α) (ops : List (Op α)) (op : Op α) : Val α :=
  let r := step (s.run ops).heap (s.run ops).obj op
  r.out.value r.heap

/-! ## Unfolding lemmas for the vocabulary -/

theorem Setup.run_nil (s : Setup α) :
    s.run [] = { heap := (init s.heap s.n s.m s.lo s.hi).1, obj := (init s.heap s.n s.m s.lo s.hi).2,
                 outs := [] } := rfl

/-- a run is extended by one call -/
theorem Setup.run_snoc (s : Setup α) (ops : List (Op α)) (op : Op α) :
    s.run (ops ++ [op]) = (s.run ops).call op := by
  simp [Setup.run, EvObj.run, List.foldl_append]

/-- `answer` is what the extended run records: the last output, evaluated in the heap after it -/
theorem Setup.answer_eq (s : Setup α) (ops : List (Op α)) (op : Op α) :
    (s.run (ops ++ [op])).outs =
        (s.run ops).outs ++ [(step (s.run ops).heap (s.run ops).obj op).out] ∧
      s.answer ops op =
        (step (s.run ops).heap (s.run ops).obj op).out.value (s.run (ops ++ [op])).heap := by
  rw [Setup.run_snoc]; exact ⟨rfl, rfl⟩

theorem Setup.returned_nil (s : Setup α) : s.returned [] = [] := rfl

theorem Setup.returned_snoc (s : Setup α) (ops : List (Op α)) (op : Op α) :
    s.returned (ops ++ [op]) =
      s.returned ops ++ (step (s.run ops).heap (s.run ops).obj op).out.refs := by
  simp [Setup.returned, Setup.run_snoc, Trace.call]

private theorem boundsFold_fst (s : Setup α) (ops : List (Op α)) :
    (ops.foldl (fun (c : Trace α × (List α × List α)) op =>
      (c.1.call op,
        match op with
        | .setBounds lo hi => (c.1.heap.read lo, c.1.heap.read hi)
        | _ => c.2))
    (s.run [], (s.heap.read s.lo, s.heap.read s.hi))).1 = s.run ops := by
  induction ops using EvObj.list_snoc_induction with
  | nil => rfl
  | snoc ops op ih => rw [List.foldl_append, Setup.run_snoc, ← ih]; rfl

/-- without calls, the bounds in force are the contents of the constructor's arguments -/
theorem Setup.boundsInForce_nil (s : Setup α) :
    s.boundsInForce [] = (s.heap.read s.lo, s.heap.read s.hi) := rfl

/-- `SetBounds lo hi` puts in force the contents its arguments have when it is called -/
theorem Setup.boundsInForce_setBounds (s : Setup α) (ops : List (Op α)) (lo hi : Nat) :
    s.boundsInForce (ops ++ [.setBounds lo hi]) =
      ((s.run ops).heap.read lo, (s.run ops).heap.read hi) := by
  unfold Setup.boundsInForce
  rw [List.foldl_append]
  simp only [List.foldl_cons, List.foldl_nil]
  rw [boundsFold_fst]

/-- queries do not change the bounds in force -/
theorem Setup.boundsInForce_query (s : Setup α) (ops : List (Op α)) (op : Op α)
    (hop : ∀ lo hi, op ≠ .setBounds lo hi) :
    s.boundsInForce (ops ++ [op]) = s.boundsInForce ops := by
  unfold Setup.boundsInForce
  rw [List.foldl_append]
  cases op with
  | setBounds lo hi => exact absurd rfl (hop lo hi)
  | image x => rfl
  | inverse a => rfl
  | preimages a => rfl

/-! ## Structure of valid sessions -/

theorem Setup.Valid.wf {s : Setup α} {ops : List (Op α)} (hv : s.Valid ops) : s.WF := by
  induction hv with
  | nil h => exact h
  | snoc _ _ ih => exact ih

theorem Setup.Valid.of_snoc {s : Setup α} {ops : List (Op α)} {op : Op α}
    (hv : s.Valid (ops ++ [op])) : s.Valid ops ∧ s.ArgsOK ops op := by
  generalize hl : ops ++ [op] = l at hv
  cases hv with
  | nil h => simp at hl
  | snoc hv' ha =>
    obtain ⟨e1, e2⟩ := List.append_inj' hl rfl
    cases e2; subst e1; exact ⟨hv', ha⟩

/-- every point (prefix) of a valid session is a valid session -/
theorem Setup.Valid.prefix {s : Setup α} {ops1 ops2 : List (Op α)}
    (hv : s.Valid (ops1 ++ ops2)) : s.Valid ops1 := by
  induction ops2 using EvObj.list_snoc_induction with
  | nil => simpa using hv
  | snoc l op ih =>
    rw [← List.append_assoc] at hv
    exact ih hv.of_snoc.1

/-- THE INVARIANT at every point of every valid session (see `EvObj.Inv`) -/
theorem Setup.Valid.inv {s : Setup α} {ops : List (Op α)} (hv : s.Valid ops) :
    Inv s.heap.size s.n (s.returned ops) (s.run ops).heap (s.run ops).obj := by
  induction hv with
  | nil h =>
    obtain ⟨h1, h2, h3, h4⟩ := h
    exact Inv.init s.heap s.n s.m s.lo s.hi h1 h2 h3 h4
  | snoc hv' ha ih =>
    rw [Setup.returned_snoc, Setup.run_snoc]
    exact ih.step _ ha

theorem Setup.Valid.obj_n {s : Setup α} {ops : List (Op α)} (hv : s.Valid ops) :
    (s.run ops).obj.n = s.n := hv.inv.n_eq

theorem Setup.Valid.obj_m {s : Setup α} {ops : List (Op α)} (hv : s.Valid ops) :
    (s.run ops).obj.m = s.m := by
  induction hv with
  | nil h => rfl
  | snoc hv' ha ih => rw [Setup.run_snoc]; show (step _ _ _).obj.m = _; rw [step_m]; exact ih

/-- the object's private bounds ARE the bounds in force (they were copied at the time of the call) -/
theorem Setup.Valid.obj_bounds {s : Setup α} {ops : List (Op α)} (hv : s.Valid ops) :
    ((s.run ops).obj.lower, (s.run ops).obj.upper) = s.boundsInForce ops := by
  induction hv with
  | nil h => rw [Setup.run_nil, Setup.boundsInForce_nil]; exact init_bounds _ _ _ _ _ h.1 h.2.1
  | @snoc ops op hv' ha ih =>
    rw [Setup.run_snoc]
    show ((step _ _ _).obj.lower, (step _ _ _).obj.upper) = _
    rw [step_bounds]
    cases op with
    | setBounds lo hi => rw [Setup.boundsInForce_setBounds]
    | image x => rw [Setup.boundsInForce_query _ _ _ (by intro _ _ h; cases h)]; exact ih
    | inverse a => rw [Setup.boundsInForce_query _ _ _ (by intro _ _ h; cases h)]; exact ih
    | preimages a => rw [Setup.boundsInForce_query _ _ _ (by intro _ _ h; cases h)]; exact ih

/-- what the caller knows, it keeps knowing -/
theorem Setup.Knows.mono {s : Setup α} {ops1 : List (Op α)} {r : Nat} (hk : s.Knows ops1 r)
    (ops2 : List (Op α)) : s.Knows (ops1 ++ ops2) r := by
  induction ops2 using EvObj.list_snoc_induction with
  | nil => simpa using hk
  | snoc l op ih =>
    rw [← List.append_assoc]
    rcases ih with h | h
    · exact Or.inl h
    · exact Or.inr (by rw [Setup.returned_snoc]; exact List.mem_append_left _ h)

/-- every caller-visible ref (bounds arrays, arguments so far, results so far) is known to the
caller in the sense of `Knows` -/
theorem Setup.Valid.knows_of_visible {s : Setup α} {ops : List (Op α)} (hv : s.Valid ops) {r : Nat}
    (hr : r ∈ s.visible ops) : s.Knows ops r := by
  have hwf := hv.wf
  simp only [Setup.visible, List.mem_cons, List.mem_append] at hr
  rcases hr with e | e | hr | hr
  · exact Or.inl (e ▸ hwf.1)
  · exact Or.inl (e ▸ hwf.2.1)
  · clear hwf
    induction hv with
    | nil h => simp at hr
    | @snoc ops op hv' ha ih =>
      rw [List.flatMap_append, List.mem_append] at hr
      rcases hr with hr | hr
      · exact (ih hr).mono [op]
      · simp only [List.flatMap_cons, List.flatMap_nil, List.append_nil] at hr
        exact (ha r hr).1.mono [op]
  · exact Or.inr hr

/-! ## The property -/

/-- **C17, scratch privacy (invariant).**  At every point of every valid session the object's
scratch array `self.yValues` is a valid ref that the caller cannot name: it is not caller-visible
(neither a bounds array, nor an argument so far, nor a result so far), it did not exist before the
object was created, and it was never returned.  It is the array allocated by `__init__` or one
allocated inside a later call.  For `N = 1` it has exactly one entry. -/
theorem C17_scratch_private (s : Setup α) (ops : List (Op α)) (hv : s.Valid ops) :
    (s.run ops).obj.scratch < (s.run ops).heap.size ∧
    (s.run ops).obj.scratch ∉ s.visible ops ∧
    ¬ s.Knows ops (s.run ops).obj.scratch ∧
    ((s.run ops).obj.scratch = s.heap.size ∨
      ∃ pre op post, ops = pre ++ op :: post ∧
        (s.run ops).obj.scratch ∈ (step (s.run pre).heap (s.run pre).obj op).allocated) ∧
    (s.n = 1 → ((s.run ops).heap.read (s.run ops).obj.scratch).length = 1) := by
  have hi := hv.inv
  have hnk : ¬ s.Knows ops (s.run ops).obj.scratch := fun hk => (hi.known hk).2 rfl
  refine ⟨hi.scratch_lt, fun hvis => hnk (hv.knows_of_visible hvis), hnk, ?_, hi.scratch_len⟩
  clear hnk hi
  induction hv with
  | nil h => exact Or.inl rfl
  | @snoc ops op hv' ha ih =>
    rw [Setup.run_snoc]
    show (step _ _ _).obj.scratch = _ ∨ _
    rcases step_scratch_alloc (s.run ops).heap (s.run ops).obj op with e | hal
    · show (step _ _ _).obj.scratch = _ ∨
        ∃ pre op' post, _ ∧ (step _ _ _).obj.scratch ∈ _
      rw [e]
      rcases ih with h | ⟨pre, op', post, h1, h2⟩
      · exact Or.inl h
      · exact Or.inr ⟨pre, op', post ++ [op], by rw [h1]; simp, h2⟩
    · exact Or.inr ⟨ops, op, [], rfl, hal⟩

/-- **C17, write set of one call** (any heap, any object state, any call): every ref the call
writes is the object's scratch array before or after the call, and is the old scratch array or an
array allocated by this very call; allocated refs are fresh; and the report is honest — an array
that is neither reported written nor allocated has the same contents afterwards. -/
theorem C17_step_writes (h : Heap α) (o : Obj α) (op : Op α) :
    (∀ r ∈ (step h o op).wrote, r = o.scratch ∨ r = (step h o op).obj.scratch) ∧
    (∀ r ∈ (step h o op).wrote, r = o.scratch ∨ r ∈ (step h o op).allocated) ∧
    (∀ r ∈ (step h o op).allocated, h.size ≤ r ∧ r < (step h o op).heap.size) ∧
    (∀ r, r ∉ (step h o op).wrote → r ∉ (step h o op).allocated →
      (step h o op).heap.read r = h.read r) :=
  ⟨step_wrote_scratch h o op, step_wrote h o op, step_allocated_fresh h o op,
    fun r => step_read_of_not_reported h o op r⟩

/-- **C17, frame.**  In a valid session, an array the caller can name at some point (it existed
before the object was created, or was returned by an earlier `GetImage`) has the same contents at
every later point: no call of the rest of the session modifies it. -/
theorem C17_frame (s : Setup α) (ops1 ops2 : List (Op α)) (hv : s.Valid (ops1 ++ ops2))
    (r : Nat) (hk : s.Knows ops1 r) :
    (s.run (ops1 ++ ops2)).heap.read r = (s.run ops1).heap.read r := by
  induction ops2 using EvObj.list_snoc_induction with
  | nil => simp
  | snoc l op ih =>
    rw [← List.append_assoc] at hv ⊢
    have hv' := hv.of_snoc.1
    rw [Setup.run_snoc, ← ih hv']
    have hkn := hv'.inv.known (hk.mono l)
    exact step_read_of_ne_scratch _ _ op hkn.1 hkn.2

/-- **C17, frame for the caller-visible refs.**  Arguments are not modified, the bounds arrays are
not modified, and arrays returned by earlier queries never change: every caller-visible ref at a
point of a valid session has the same contents at every later point. -/
theorem C17_frame_visible (s : Setup α) (ops1 ops2 : List (Op α)) (hv : s.Valid (ops1 ++ ops2))
    (r : Nat) (hr : r ∈ s.visible ops1) :
    (s.run (ops1 ++ ops2)).heap.read r = (s.run ops1).heap.read r :=
  C17_frame s ops1 ops2 hv r (hv.prefix.knows_of_visible hr)

/-- **C17, arguments are not modified** (special case of the frame, spelled out): the arguments of
a call have, after the call and at every later point, the contents they had when the call was
issued. -/
theorem C17_args_unchanged (s : Setup α) (ops : List (Op α)) (op : Op α) (rest : List (Op α))
    (hv : s.Valid (ops ++ op :: rest)) (r : Nat) (hr : r ∈ op.args) :
    (s.run (ops ++ op :: rest)).heap.read r = (s.run ops).heap.read r := by
  have hv1 : s.Valid (ops ++ [op]) := by
    have : ops ++ op :: rest = (ops ++ [op]) ++ rest := by simp
    rw [this] at hv; exact hv.prefix
  exact C17_frame s ops (op :: rest) hv r (hv1.of_snoc.2 r hr).1

/-- what a call must answer: a function of the argument VALUE, `n`, `m` and a pair of bounds -/
def Op.spec (n m : Nat) (b : List α × List α) (h : Heap α) : Op α → Val α
  | .image x => .array (Ev.getImage n m b.1 b.2 x)
  | .inverse a => .number (Ev.getInverseImage n m b.1 b.2 (h.read a))
  | .preimages a => .number (Ev.getInverseImage n m b.1 b.2 (h.read a))
  | .setBounds _ _ => .unit

/-- **C17, functional.**  In a valid session the answer of every call is the pure function of its
argument value, `n`, `m` and the bounds in force (the contents of the arrays passed to the last
`SetBounds` / to the constructor at the time of that call) — nothing else of the history enters. -/
theorem C17_functional (s : Setup α) (ops : List (Op α)) (op : Op α)
    (hv : s.Valid ops) :
    s.answer ops op = op.spec s.n s.m (s.boundsInForce ops) (s.run ops).heap := by
  have hi := hv.inv
  have hb := hv.obj_bounds
  have hl : (s.run ops).obj.lower = (s.boundsInForce ops).1 := congrArg Prod.fst hb
  have hu : (s.run ops).obj.upper = (s.boundsInForce ops).2 := congrArg Prod.snd hb
  unfold Setup.answer
  cases op with
  | image x =>
    obtain ⟨r, h1, h2⟩ := step_image_value (s.run ops).heap (s.run ops).obj x hi.scratch_lt
      (fun hn => hi.scratch_len (hi.n_eq ▸ hn))
    simp only [h1, Out.value, h2, Op.spec, hv.obj_n, hv.obj_m, hl, hu]
  | inverse a =>
    simp only [step_inverse_value, Out.value, Op.spec, hv.obj_n, hv.obj_m, hl, hu]
  | preimages a =>
    simp only [step_preimages_value, Out.value, Op.spec, hv.obj_n, hv.obj_m, hl, hu]
  | setBounds lo hi' => rfl

/-- **C17, `GetImage x`** returns a fresh array whose contents are `Ev.getImage n m lower upper x`,
for every `n` (including the in-place case `n = 1`), with `lower, upper` the bounds in force. -/
theorem C17_functional_image (s : Setup α) (ops : List (Op α)) (x : α) (hv : s.Valid ops) :
    s.answer ops (.image x) =
      .array (Ev.getImage s.n s.m (s.boundsInForce ops).1 (s.boundsInForce ops).2 x) :=
  C17_functional s ops (.image x) hv

/-- **C17, `GetInverseImage y`** returns `Ev.getInverseImage n m lower upper (contents of y)`. -/
theorem C17_functional_inverse (s : Setup α) (ops : List (Op α)) (a : Nat) (hv : s.Valid ops) :
    s.answer ops (.inverse a) =
      .number (Ev.getInverseImage s.n s.m (s.boundsInForce ops).1 (s.boundsInForce ops).2
        ((s.run ops).heap.read a)) :=
  C17_functional s ops (.inverse a) hv

/-- **C17, `GetPreimages y`** returns `Ev.getInverseImage n m lower upper (contents of y)`. -/
theorem C17_functional_preimages (s : Setup α) (ops : List (Op α)) (a : Nat) (hv : s.Valid ops) :
    s.answer ops (.preimages a) =
      .number (Ev.getInverseImage s.n s.m (s.boundsInForce ops).1 (s.boundsInForce ops).2
        ((s.run ops).heap.read a)) :=
  C17_functional s ops (.preimages a) hv

/-- **C17, results are stable.**  The array returned by a `GetImage x` call contains
`Ev.getImage n m lower upper x` not only right after the call but at every later point of the
session, whatever calls follow. -/
theorem C17_result_stable (s : Setup α) (ops : List (Op α)) (x : α) (hv : s.Valid ops) :
    ∃ ref, (s.run (ops ++ [.image x])).outs = (s.run ops).outs ++ [.array ref] ∧
      ∀ rest, s.Valid (ops ++ .image x :: rest) →
        (s.run (ops ++ .image x :: rest)).heap.read ref =
          Ev.getImage s.n s.m (s.boundsInForce ops).1 (s.boundsInForce ops).2 x := by
  have hi := hv.inv
  obtain ⟨r, h1, h2⟩ := step_image_value (s.run ops).heap (s.run ops).obj x hi.scratch_lt
    (fun hn => hi.scratch_len (hi.n_eq ▸ hn))
  refine ⟨r, ?_, ?_⟩
  · rw [(s.answer_eq ops (.image x)).1, h1]
  · intro rest hvr
    have e : ops ++ .image x :: rest = (ops ++ [.image x]) ++ rest := by simp
    rw [e] at hvr ⊢
    have hk : s.Knows (ops ++ [.image x]) r :=
      Or.inr (by rw [Setup.returned_snoc, h1]; simp [Out.refs])
    rw [C17_frame s _ rest hvr r hk, Setup.run_snoc]
    show (step _ _ _).heap.read r = _
    have hb := hv.obj_bounds
    have hl : (s.run ops).obj.lower = (s.boundsInForce ops).1 := congrArg Prod.fst hb
    have hu : (s.run ops).obj.upper = (s.boundsInForce ops).2 := congrArg Prod.snd hb
    rw [h2, hv.obj_n, hv.obj_m, hl, hu]

/-- **C17, history independence (`GetImage`).**  Two sessions — possibly on different heaps, with
different constructor arrays and different earlier calls — with the same `n`, `m` and the same
bounds in force answer `GetImage x` identically. -/
theorem C17_history_independent (s s' : Setup α) (ops ops' : List (Op α))
    (hv : s.Valid ops) (hv' : s'.Valid ops') (hn : s.n = s'.n) (hm : s.m = s'.m)
    (hb : s.boundsInForce ops = s'.boundsInForce ops') (x : α) :
    s.answer ops (.image x) = s'.answer ops' (.image x) := by
  rw [C17_functional_image s ops x hv, C17_functional_image s' ops' x hv', hn, hm, hb]

/-- **C17, history independence (`GetInverseImage` / `GetPreimages`).**  Two sessions with the same
`n`, `m` and the same bounds in force answer an inverse query identically whenever the argument
arrays have the same contents; it does not matter which of the two methods is called. -/
theorem C17_history_independent_inverse (s s' : Setup α) (ops ops' : List (Op α))
    (hv : s.Valid ops) (hv' : s'.Valid ops') (hn : s.n = s'.n) (hm : s.m = s'.m)
    (hb : s.boundsInForce ops = s'.boundsInForce ops') (a a' : Nat)
    (ha : (s.run ops).heap.read a = (s'.run ops').heap.read a')
    (q q' : Op α) (hq : q = .inverse a ∨ q = .preimages a)
    (hq' : q' = .inverse a' ∨ q' = .preimages a') :
    s.answer ops q = s'.answer ops' q' := by
  rw [C17_functional s ops q hv, C17_functional s' ops' q' hv', hn, hm, hb]
  rcases hq with e | e <;> rcases hq' with e' | e' <;> subst e <;> subst e' <;>
    simp only [Op.spec, ha]

/-- **C17, same object, different prefixes.**  On one object, after two different call histories
that end with the same bounds in force, the same query gives the same answer (for an inverse query:
the argument array is the same caller array, which no call modifies). -/
theorem C17_history_independent_same_object (s : Setup α) (ops ops' : List (Op α))
    (hv : s.Valid ops) (hv' : s.Valid ops')
    (hb : s.boundsInForce ops = s.boundsInForce ops') (q : Op α)
    (hq : ∀ a ∈ q.args, a < s.heap.size) (hq' : ∀ lo hi, q ≠ .setBounds lo hi) :
    s.answer ops q = s.answer ops' q := by
  have hr : ∀ a ∈ q.args, (s.run ops).heap.read a = (s.run ops').heap.read a := by
    intro a ha
    have h1 := C17_frame s [] ops (by simpa using hv) a (Or.inl (hq a ha))
    have h2 := C17_frame s [] ops' (by simpa using hv') a (Or.inl (hq a ha))
    simp only [List.nil_append] at h1 h2
    rw [h1, h2]
  rw [C17_functional s ops q hv, C17_functional s ops' q hv', hb]
  cases q with
  | image x => rfl
  | inverse a => simp only [Op.spec, hr a (by simp [Op.args])]
  | preimages a => simp only [Op.spec, hr a (by simp [Op.args])]
  | setBounds lo hi => exact absurd rfl (hq' lo hi)

/-- **C17, `GetPreimages` and `GetInverseImage` are the same function**: the same call effect on
every heap and object state, hence the same sessions. -/
theorem C17_preimages_eq_inverse (h : Heap α) (o : Obj α) (a : Nat) :
    step h o (.preimages a) = step h o (.inverse a) := rfl

/-- replacing every `GetPreimages` by `GetInverseImage` changes nothing in a session -/
theorem C17_preimages_eq_inverse_run (s : Setup α) (ops : List (Op α)) :
    s.run (ops.map fun | .preimages a => .inverse a | op => op) = s.run ops := by
  induction ops using EvObj.list_snoc_induction with
  | nil => rfl
  | snoc l op ih =>
    rw [List.map_append, List.map_singleton, Setup.run_snoc, Setup.run_snoc, ih]
    cases op <;> rfl

end

/-! ## Non-vacuity: concrete sessions over `ℚ`, and the negative control

`α := Rat` (core Lean), `TruncNat` = floor.  All facts below are checked by kernel evaluation. -/

namespace Example

local instance : TruncNat Rat := ⟨fun x => x.floor.toNat⟩

deriving instance DecidableEq for Out

instance (s : Setup Rat) : Decidable s.WF := by unfold Setup.WF; infer_instance
instance (s : Setup Rat) (ops : List (Op Rat)) (op : Op Rat) : Decidable (s.ArgsOK ops op) := by
  unfold Setup.ArgsOK Setup.Knows; infer_instance

/-! ### `N = 1`: the scratch array IS reused across calls -/

/-- caller arrays: `0 ↦ [0]` (lower), `1 ↦ [10]` (upper), `2 ↦ [7]`;  `N = 1`.
`__init__` allocates the scratch array at ref `3`. -/
def s1 : Setup Rat :=
  { heap := { cells := #[[0], [10], [7]] }, n := 1, m := 10, lo := 0, hi := 1 }

/-- `a = GetImage(1/4)` (returned at ref 4), `b = GetImage(3/4)` (ref 5), `GetInverseImage(a)` -/
def ops1 : List (Op Rat) := [.image (1/4), .image (3/4), .inverse 4]

theorem valid1_pre : s1.Valid [.image (1/4), .image (3/4)] :=
  .snoc (ops := [.image (1/4)])
    (.snoc (ops := []) (.nil (by decide)) (by decide)) (by decide +kernel)

/-- the session is valid: the hypotheses of all C17 theorems are satisfiable -/
theorem valid1 : s1.Valid ops1 :=
  .snoc (ops := [.image (1/4), .image (3/4)]) valid1_pre (by decide +kernel)

/-- the outputs: two fresh arrays and the number `1/4` -/
example : (s1.run ops1).outs = [.array 4, .array 5, .number (1/4)] := by decide +kernel

/-- the scratch array (ref 3, allocated by `__init__`) is reused by both `GetImage` calls; it
holds the second result after the second call -/
example : (s1.run []).obj.scratch = 3 ∧ (s1.run [.image (1/4)]).obj.scratch = 3 ∧
    (s1.run [.image (1/4), .image (3/4)]).obj.scratch = 3 ∧
    (s1.run [.image (1/4)]).heap.read 3 = [5/2] ∧
    (s1.run [.image (1/4), .image (3/4)]).heap.read 3 = [15/2] := by decide +kernel

/-- ... and nevertheless the FIRST returned array (ref 4) is unchanged: `[5/2]` right after its
call, after the second `GetImage`, and at the end of the session -/
example : (s1.run [.image (1/4)]).heap.read 4 = [5/2] ∧
    (s1.run [.image (1/4), .image (3/4)]).heap.read 4 = [5/2] ∧
    (s1.run ops1).heap.read 4 = [5/2] := by decide +kernel

/-- the same fact obtained from `C17_frame` (its hypotheses hold here) -/
example : (s1.run ops1).heap.read 4 = (s1.run [.image (1/4)]).heap.read 4 :=
  C17_frame s1 [.image (1/4)] [.image (3/4), .inverse 4] valid1 4 (Or.inr (by decide +kernel))

/-- `C17_scratch_private`, `C17_functional_*`, `C17_result_stable` instantiated -/
example := C17_scratch_private s1 ops1 valid1
example := C17_functional_inverse s1 [.image (1/4), .image (3/4)] 4 valid1_pre
example := C17_functional_image s1 [.image (1/4), .image (3/4)] (1/2) valid1_pre
example : s1.answer [.image (1/4), .image (3/4)] (.inverse 4) = .number (1/4) := by decide +kernel
example : s1.answer [.image (1/4)] (.image (3/4)) = .array [15/2] := by decide +kernel
example := C17_result_stable s1 [] (1/4) (.nil (by decide))

/-- history independence: `GetImage(3/4)` asked first, or after `GetImage(1/4)`, `GetInverseImage`
and a `SetBounds` with the same contents, gives the same answer -/
example : s1.answer [] (.image (3/4)) =
    s1.answer [.image (1/4), .inverse 4, .setBounds 0 1] (.image (3/4)) :=
  C17_history_independent s1 s1 [] [.image (1/4), .inverse 4, .setBounds 0 1]
    (.nil (by decide))
    (.snoc (ops := [.image (1/4), .inverse 4])
      (.snoc (ops := [.image (1/4)])
        (.snoc (ops := []) (.nil (by decide)) (by decide)) (by decide +kernel)) (by decide +kernel))
    rfl rfl (by decide +kernel) (3/4)

/-- a ref the caller cannot know (the scratch ref 3) is NOT an OK argument: the validity
hypothesis is not trivially true either -/
example : ¬ s1.ArgsOK [.image (1/4)] (.inverse 3) := by decide +kernel

/-- WHY `ArgsOK` asks for `Knows` and not merely for "a valid ref to an array with `n` entries":
if the caller got hold of the scratch ref (Python: by reading the attribute `ev.yValues`) and
passed it as an argument — here as the upper bound in `SetBounds(0, 3)`; ref 3 is valid and has
one entry — then this ARGUMENT array is modified by the next `GetImage`.  The property presupposes
that the caller only uses its own arrays and the returned ones. -/
example :
    3 < (s1.run [.image (1/4)]).heap.size ∧ ((s1.run [.image (1/4)]).heap.read 3).length = s1.n ∧
    (s1.run [.image (1/4), .setBounds 0 3]).heap.read 3 = [5/2] ∧
    (s1.run [.image (1/4), .setBounds 0 3, .image (3/4)]).heap.read 3 = [15/8] := by
  decide +kernel

/-! ### `N = 2`, with `SetBounds` in the middle -/

def s2 : Setup Rat :=
  { heap := { cells := #[[0, 0], [1, 2], [1/3, 1/5], [-1, -1]] }, n := 2, m := 3, lo := 0, hi := 1 }

def ops2 : List (Op Rat) :=
  [.image (1/3), .inverse 6, .setBounds 3 1, .preimages 2, .image (5/7), .inverse 10]

theorem valid2 : s2.Valid ops2 :=
  .snoc (ops := [.image (1/3), .inverse 6, .setBounds 3 1, .preimages 2, .image (5/7)])
  (.snoc (ops := [.image (1/3), .inverse 6, .setBounds 3 1, .preimages 2])
  (.snoc (ops := [.image (1/3), .inverse 6, .setBounds 3 1])
  (.snoc (ops := [.image (1/3), .inverse 6])
  (.snoc (ops := [.image (1/3)])
  (.snoc (ops := []) (.nil (by decide)) (by decide)) (by decide +kernel)) (by decide +kernel))
    (by decide +kernel)) (by decide +kernel)) (by decide +kernel)

example : (s2.run ops2).outs =
    [.array 6, .number (21/64), .unit, .number (13/16), .array 10, .number (45/64)] := by
  decide +kernel
example : s2.boundsInForce ops2 = ([-1, -1], [1, 2]) := by decide +kernel
example : s2.boundsInForce [.image (1/3), .inverse 6] = ([0, 0], [1, 2]) := by decide +kernel
/-- the array returned by the first call still holds the first result at the end -/
example : (s2.run ops2).heap.read 6 = [1/16, 15/8] ∧
    (s2.run [.image (1/3)]).heap.read 6 = [1/16, 15/8] := by decide +kernel
example := C17_scratch_private s2 ops2 valid2
example := C17_frame_visible s2 [.image (1/3), .inverse 6] [.setBounds 3 1, .preimages 2,
  .image (5/7), .inverse 10] valid2 6 (by decide +kernel)

/-! ### Negative control: without `np.copy` the frame property FAILS

`stepNoCopy` (`IOptProofs/EvObj.lean`) is `step` with `GetImage` returning `self.yValues` itself
when `N = 1`.  Two calls `a = GetImage(1/4); b = GetImage(3/4)` on the object of `s1`: -/

/-- first call with the no-copy variant -/
def nc1 : StepResult Rat := stepNoCopy (s1.run []).heap (s1.run []).obj (.image (1/4))
/-- second call with the no-copy variant -/
def nc2 : StepResult Rat := stepNoCopy nc1.heap nc1.obj (.image (3/4))

/-- the array returned by the first call (ref 3 = the scratch array) is CHANGED by the second
call: `[5/2]` became `[15/2]`.  So the statement of `C17_frame` is false for this variant. -/
example : nc1.out.refs = [3] ∧ nc1.heap.read 3 = [5/2] ∧ nc2.heap.read 3 = [15/2] := by
  decide +kernel
example : ¬ ∀ r ∈ nc1.out.refs, nc2.heap.read r = nc1.heap.read r := by decide +kernel
example : nc2.heap.read 3 ≠ nc1.heap.read 3 := by decide +kernel
/-- the same two calls with the real `step`: the first result is kept -/
example : ∀ r ∈ (s1.run [.image (1/4)]).outs.flatMap Out.refs,
    (s1.run [.image (1/4), .image (3/4)]).heap.read r = (s1.run [.image (1/4)]).heap.read r := by
  decide +kernel

end Example
end EvObj
