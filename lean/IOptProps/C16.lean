import IOptProofs.ProcessFail
import IOptProofs.ProcessToy
/-!
# C16 — an objective that raises during `Solve` is contained

"If the objective raises on its k-th evaluation (k>=2) during Solve, Solve still returns; the result reflects
exactly the k-1 completed trials - trial count, best point and value - the search information still satisfies
its ordering and fidelity rules, and the failed point is not recorded."

`Solve still returns` is built into the model: `Proc.solve` is a total function that catches every exception of
the loop (`solveLoop`), prints, and goes on to the refinement / `OnMethodStop` part.

The theorem is named `_partial` because one clause of the task statement is false as literally written: the
`items` of the returned state are NOT in general equal to the `items` after `k-1` successful iterations, because
`CalculateIterationPoint` of the failed iteration first runs `RecalcAllCharacteristics` (when `recalc` is set),
which rewrites the characteristic `R` of every item (see the counter-example at the end of this file).
What is true, and proved here: the items are equal up to their `R` fields (`eraseR`), equal outright if `recalc`
was not set, and the returned state is exactly the state `pr.s` = "recalculated state, selected interval popped,
`min_delta` lowered" of the iteration that failed.
-/

set_option linter.unusedSectionVars false

namespace C16
open AGP AGP.Ctl Proc

section generic
variable {α : Type} [Add α] [Sub α] [Mul α] [Div α] [Neg α] [LT α] [LE α]
  [DecidableLT α] [DecidableLE α] [OfNat α 0] [OfNat α 1] [OfNat α 2] [OfNat α 4] [Fns α]

/-- **C16, failure containment.**  Let the objective `f` raise exactly at its `k`-th call (`f j pt = none ↔ j = k-1`, `k ≥ 2`),
let `g` be any oracle that agrees with `f` at every other call index (e.g. a never-failing one), and let the run of `Solve`
with `g` on a fresh solver make at least `k` trials.  Let `psk` (method state `s`) be the state of the `g`-run after `k-1`
successful iterations and `pr` the selection its `k`-th iteration makes.  Then `Solve` with `f` on a fresh solver returns a
state with method state `sf` such that:

* `items` (up to the characteristics `R`, which the recalculation of the failed iteration refreshed; literally equal if
  `recalc` was not set), `M`, `Z`, `best`, the best item's point and values, `nTrials = iters = k-1`, `nextId` and `evals`
  are those after the `k-1` successful iterations: the failed point got no item, no id and no record;
* the only differences are `minDelta` (already lowered by the interval selected for the failed iteration), `queue` (the
  selected entry is popped from the — refreshed — queue), `recalc = false`, `calls = k`;
* the event log is `BeforeMethodStart`, one `OnEndIteration` for each of the trials `2 … k`, the printed line, `OnMethodStop`. -/
theorem C16_fail_contained_partial (p : Params α) (f g : Nat → List α → Option α) (k : Nat) (hk : 2 ≤ k)
    (hf : ∀ j pt, f j pt = none ↔ j = k - 1) (hg : ∀ j pt, j ≠ k - 1 → g j pt = f j pt)
    (hK : k ≤ (solve p g (fun _ => none) {}).nTrials) :
    ∃ psk s pr sf,
      iterN p g (k - 1) {} = .ok (psk, List.range' 2 (k - 1)) ∧ psk.m = some s ∧ prepare p s = .ok pr ∧
      f (k - 1) pr.point = none ∧
      (solve p f (fun _ => none) {}).m = some sf ∧
      -- what is kept
      sf.items.map eraseR = s.items.map eraseR ∧ (s.recalc = false → sf.items = s.items) ∧
      sf.M = s.M ∧ sf.Z = s.Z ∧ sf.best = s.best ∧
      (findItem sf.items sf.best).map eraseR = (findItem s.items s.best).map eraseR ∧
      sf.nTrials = s.nTrials ∧ sf.nTrials = k - 1 ∧ sf.iters = s.iters ∧ sf.iters = k - 1 ∧ sf.nextId = s.nextId ∧
      (solve p f (fun _ => none) {}).evals = psk.evals ∧ (solve p f (fun _ => none) {}).evals.length = k - 1 ∧
      (solve p f (fun _ => none) {}).nLocal = 0 ∧
      -- what differs
      sf = pr.s ∧
      sf.minDelta = some (minOpt pr.old.delta s.minDelta) ∧
      (∃ key oid, (selState p s).queue = (key, oid) :: sf.queue) ∧
      sf.recalc = false ∧
      (solve p f (fun _ => none) {}).calls = k ∧
      (solve p f (fun _ => none) {}).log =
        [Event.beforeStart] ++ endEach (List.range' 2 (k - 1)) ++ [Event.exceptionPrinted, Event.methodStop (stopCond p sf)] := by
  obtain ⟨psk, s, pr, hrun, -, hms, hpr, hfail, -, -, hlen, hnt, -, hsolve⟩ := fail_contained hk hf hg hK
  have hs := hsolve (fun _ => none)
  obtain ⟨key, oid, q, hq, -, -, hprs, -⟩ := prepare_ok hpr
  obtain ⟨f1, f2, f3, f4, f5, f6, f7, f8, f9⟩ := prepare_ok_fields hpr
  have hnt' : s.nTrials = k - 1 := by simpa [PState.nTrials, hms] using hnt
  have hit' : s.iters = k - 1 := by
    have := (iterN_counters hrun).1
    simpa [PState.iters, hms] using this
  have hitems : pr.s.items.map eraseR = s.items.map eraseR := by rw [f8]; exact recalcAll_items_eraseR p s
  refine ⟨psk, s, pr, pr.s, hrun, hms, hpr, hfail, by rw [hs]; rfl, hitems,
    fun h => by rw [f8]; exact recalcAll_items_of_not_recalc p s h, f5, f6, f7, ?_, f2, by rw [f2, hnt'], f1, by rw [f1, hit'], f3,
    by rw [hs]; rfl, by rw [hs]; exact hlen, by rw [hs]; rfl, rfl, f4, ⟨key, oid, ?_⟩, f9, by rw [hs]; rfl, ?_⟩
  · rw [f7]; exact findItem_eraseR hitems _
  · rw [hq, hprs]
  · rw [hs]; simp [refineStep, PState.appendLog]

/-- the same with a refinement step configured: `Solve` applies it to the state described above -/
theorem C16_fail_contained_refine (p : Params α) (f g : Nat → List α → Option α) (k : Nat) (hk : 2 ≤ k)
    (hf : ∀ j pt, f j pt = none ↔ j = k - 1) (hg : ∀ j pt, j ≠ k - 1 → g j pt = f j pt)
    (hK : k ≤ (solve p g (fun _ => none) {}).nTrials) (refine : PState α → Option (LocalResult α)) :
    ∃ psk s pr, iterN p g (k - 1) {} = .ok (psk, List.range' 2 (k - 1)) ∧ psk.m = some s ∧ prepare p s = .ok pr ∧
      solve p f refine {} =
        (refineStep refine
          { m := some pr.s, log := [Event.beforeStart] ++ endEach (List.range' 2 (k - 1)) ++ [Event.exceptionPrinted],
            evals := psk.evals, nLocal := 0, calls := k }).appendLog [Event.methodStop (stopCond p pr.s)] := by
  obtain ⟨psk, s, pr, hrun, -, hms, hpr, -, -, -, -, -, -, hsolve⟩ := fail_contained hk hf hg hK
  exact ⟨psk, s, pr, hrun, hms, hpr, hsolve refine⟩

end generic

/-! ### non-vacuity, and the counter-example to literal equality of `items` -/
section examples
open ProcToy

/-- the hypotheses hold for the toy objective raising at its 4th call (`k = 4`), budget 5 -/
example : (2 ≤ 4) ∧ (∀ j pt, failAt 3 j pt = none ↔ j = 4 - 1) ∧ (∀ j pt, j ≠ 4 - 1 → F j pt = failAt 3 j pt) ∧
    4 ≤ (solve (P 5 (1/100)) F (fun _ => none) {}).nTrials :=
  ⟨by decide, fun j pt => failAt_iff 3 j pt, fun j pt h => (failAt_agree 3 j pt h).symm, by decide +kernel⟩

/-- the theorem instantiated at that run -/
example := C16_fail_contained_partial (P 5 (1/100)) (failAt 3) F 4 (by decide) (fun j pt => failAt_iff 3 j pt)
  (fun j pt h => (failAt_agree 3 j pt h).symm) (by decide +kernel)

/-- the run with the failing objective: 3 trials, 4 calls, log as stated -/
example : (solve (P 5 (1/100)) (failAt 3) (fun _ => none) {}).nTrials = 3 ∧
    (solve (P 5 (1/100)) (failAt 3) (fun _ => none) {}).calls = 4 ∧
    (solve (P 5 (1/100)) (failAt 3) (fun _ => none) {}).log =
      [Event.beforeStart, Event.endIteration [2], Event.endIteration [3], Event.endIteration [4],
       Event.exceptionPrinted, Event.methodStop false] := by
  decide +kernel

/-- **Counter-example to literal equality of `items`** (`k = 3`): after the failed third iteration the characteristic of the
right end point is `23/24`, whereas after two successful iterations it is `1`: the second trial found a new best value, so
`recalc` was set and the failed iteration recalculated all characteristics before selecting. -/
example :
    ((solve (P 5 (1/100)) (failAt 2) (fun _ => none) {}).m.map fun s => s.items.map fun it => (it.id, it.R)) =
      some [(0, none), (3, some (1/2)), (2, some (529/2304)), (1, some (23/24))] ∧
    ((doGlobalIteration (P 5 (1/100)) F 2 {} []).s.m.map fun s => s.items.map fun it => (it.id, it.R)) =
      some [(0, none), (3, some (1/2)), (2, some (529/2304)), (1, some 1)] := by
  decide +kernel

end examples

end C16
