import IOptProofs.BenchMeta1
import IOptProofs.BenchMeta2
/-!
# C18 (metadata part): every shipped problem instance declares well-formed metadata

"Every shipped problem instance declares a dimension equal to the lengths of its name and bound vectors,
bounds with lower<upper, exactly one objective, and a known optimum inside the box."

`Gen.metaRowsPacked` holds one row per shipped instance (Hill 0..999, Shekel 0..999, Shekel4 1..3,
Grishagin 1..100, GKLS 2..5 × 1..100, Rastrigin and XSquared n = 1..50, StronginC3), read from the
running Python classes.  The two open families are also covered symbolically, for every `n`.
The Hill/Shekel min/max/Lipschitz table clauses of C18 are in `C18tables`-style theorems elsewhere.
-/

namespace C18
open Gen BenchMeta

/-- the Boolean well-formedness check of one metadata row: dimension = numberOfFloatVariables =
number of names = |lower| = |upper| = |optimum point|, every `lower_i < upper_i` (exact `Dy.lt`),
every `lower_i ≤ optPoint_i ≤ upper_i` (exact `Dy.le`), one objective, one known optimum -/
abbrev metaOK : MetaRow → Bool := BenchMeta.metaOK

/-- **C18, metadata.** Every row of the metadata table passes the Boolean well-formedness check. -/
theorem C18_meta_all : ∀ i < metaRowsPacked.size, metaOK (metaDecode metaRowsPacked[i]!) = true := by
  intro i hi
  have hsz := metaRows_size_le
  show rowOK metaRowsPacked[i]! = true
  by_cases h1 : i < 500
  · exact block_sound _ 0 500 meta_block_0 i (by omega) (by omega) hi
  by_cases h2 : i < 1000
  · exact block_sound _ 500 500 meta_block_500 i (by omega) (by omega) hi
  by_cases h3 : i < 1500
  · exact block_sound _ 1000 500 meta_block_1000 i (by omega) (by omega) hi
  by_cases h4 : i < 2000
  · exact block_sound _ 1500 500 meta_block_1500 i (by omega) (by omega) hi
  by_cases h5 : i < 2500
  · exact block_sound _ 2000 500 meta_block_2000 i (by omega) (by omega) hi
  by_cases h6 : i < 2552
  · exact block_sound _ 2500 52 meta_block_2500 i (by omega) (by omega) hi
  · exact block_sound _ 2552 1000000 meta_tail_2552 i (by omega) (by omega) hi

/-- **C18, metadata, in words.** For every shipped instance: the declared dimension equals
`numberOfFloatVariables`, the number of variable names and the lengths of the lower-bound, upper-bound
and optimum-point vectors; there is exactly one objective and one known optimum; `lower_i < upper_i`
and `lower_i ≤ optimum_i ≤ upper_i` for every coordinate (as exact rationals). -/
theorem C18_meta_wf : ∀ i < metaRowsPacked.size, MetaWF (metaDecode metaRowsPacked[i]!) :=
  fun i hi => metaWF_of_metaOK (C18_meta_all i hi)

/-- non-vacuity: the table has 2604 rows, the last one (StronginC3) has 3 constraints, 1 objective -/
example : metaRowsPacked.size = 2604 ∧ (metaDecode metaRowsPacked[2603]!).nConstraints = 3 ∧
    (metaDecode metaRowsPacked[2603]!).nObjectives = 1 ∧ (metaDecode metaRowsPacked[2603]!).dimension = 2 := by
  decide +kernel

/-- **C18 for Rastrigin and XSquared in EVERY dimension** (symbolic): the metadata written by the
constructors, `rastriginMeta n` (box `[-2.2, 1.8]^n`) and `xsquaredMeta n` (box `[-1, 1]^n`), optimum
value 0 at the origin, is well-formed for every `n`. -/
theorem C18_meta_open (n : Nat) : MetaWF (rastriginMeta n) ∧ MetaWF (xsquaredMeta n) :=
  ⟨rastriginMeta_wf n, xsquaredMeta_wf n⟩

/-- Every table row of family Rastrigin (code 5) / XSquared (code 6) is exactly `rastriginMeta n` /
`xsquaredMeta n` for its own constructor argument `n ≥ 1`. -/
theorem C18_meta_open_rows : ∀ i < metaRowsPacked.size,
    let r := metaDecode metaRowsPacked[i]!
    (r.family = 5 → r = rastriginMeta r.arg0 ∧ 1 ≤ r.arg0) ∧
    (r.family = 6 → r = xsquaredMeta r.arg0 ∧ 1 ≤ r.arg0) := by
  exact open_rows

/-- The table rows for n = 1..50 are these functions: for every `n` in 1..50 the table contains the
row `rastriginMeta n` and the row `xsquaredMeta n`. -/
theorem C18_meta_open_table (n : Nat) (h1 : 1 ≤ n) (h50 : n ≤ 50) :
    (∃ i, i < metaRowsPacked.size ∧ metaDecode metaRowsPacked[i]! = rastriginMeta n) ∧
    (∃ i, i < metaRowsPacked.size ∧ metaDecode metaRowsPacked[i]! = xsquaredMeta n) := by
  have hmem : n ∈ List.range' 1 50 := by simp [List.mem_range'_1]; omega
  exact ⟨table_has_row _ 5 n _ rastriginMeta (meta_rastrigin_args ▸ hmem)
      (fun i hi hf => ((C18_meta_open_rows i hi).1 hf).1),
    table_has_row _ 6 n _ xsquaredMeta (meta_xsquared_args ▸ hmem)
      (fun i hi hf => ((C18_meta_open_rows i hi).2 hf).1)⟩

/-- non-vacuity of `C18_meta_open_rows`: row 2503 is `Rastrigin(1)`, row 2504 is `XSquared(1)` -/
example : (metaDecode metaRowsPacked[2503]!).family = 5 ∧ (metaDecode metaRowsPacked[2504]!).family = 6 ∧
    (metaDecode metaRowsPacked[2503]!).arg0 = 1 := by decide +kernel

end C18
