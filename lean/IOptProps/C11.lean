import IOptProofs.ProcessBatch
import IOptProofs.ProcessToy
/-!
# C11 — batching of global iterations, `Solve` after batches, `Solve` twice

"…carrying out the iterations through any mixture of DoGlobalIteration(k) calls followed by Solve yields
the same sequence, Solve merely ending at the first moment the stop criterion holds. Calling Solve again
on a finished solver performs no further global trials."

Determinism: the model is a *function* (`doGlobalIteration`, `solve` are Lean functions of the parameters,
the objective oracle and the state), so two runs with the same inputs are literally equal; no theorem is needed.

The *canonical sequence* from a state `ps` is `iterN p f k ps`, `k = 0, 1, 2, …` (`k` passes of the loop body of
`DoGlobalIteration`, i.e. `k` global iterations one after another, no notifications in between).  "Same state up
to the event log" is `PState.core` (`m`, `evals`, `nLocal`, `calls`, `refined`).
-/

set_option linter.unusedSectionVars false

namespace C11
open AGP AGP.Ctl Proc

section generic
variable {α : Type} [Add α] [Sub α] [Mul α] [Div α] [Neg α] [LT α] [LE α]
  [DecidableLT α] [DecidableLE α] [OfNat α 0] [OfNat α 1] [OfNat α 2] [OfNat α 4] [Fns α]

/-- **C11, one batch = two batches.**  If `DoGlobalIteration(a)` does not raise, then
`DoGlobalIteration(a); DoGlobalIteration(b)` and `DoGlobalIteration(a+b)` end with the same method state `m`,
the same records `evals`, the same `calls`, `nLocal`, `refined`, and the same exception (if any).  If neither raises, only
the event log differs: two `OnEndIteration` notifications with id lists `ids1` (`a` ids), `ids2` (`b` ids)
against one with `ids1 ++ ids2` (`pre1`, `pre2` are the possible `BeforeMethodStart` of the very first pass). -/
theorem C11_batch_split (p : Params α) (f : Nat → List α → Option α) (a b : Nat) (ps : PState α)
    (h1 : (doGlobalIteration p f a ps []).raised = none) :
    let r1 := doGlobalIteration p f a ps []
    let r2 := doGlobalIteration p f b r1.s []
    let r := doGlobalIteration p f (a + b) ps []
    r.s.m = r2.s.m ∧ r.s.evals = r2.s.evals ∧ r.s.calls = r2.s.calls ∧ r.s.nLocal = r2.s.nLocal ∧
    r.s.refined = r2.s.refined ∧ r.raised = r2.raised ∧
    (r2.raised = none →
      ∃ ids1 ids2 pre1 pre2, ids1.length = a ∧ ids2.length = b ∧
        (pre1 = [] ∨ pre1 = [Event.beforeStart]) ∧ (pre2 = [] ∨ pre2 = [Event.beforeStart]) ∧
        r1.s.log = ps.log ++ pre1 ++ [Event.endIteration ids1] ∧
        r2.s.log = ps.log ++ pre1 ++ [Event.endIteration ids1] ++ pre2 ++ [Event.endIteration ids2] ∧
        r.s.log = ps.log ++ pre1 ++ pre2 ++ [Event.endIteration (ids1 ++ ids2)]) := by
  intro r1 r2 r
  obtain ⟨hc, hr, hl⟩ := batch_split (p := p) (f := f) (a := a) (b := b) (ps := ps) h1
  obtain ⟨c1, c2, c3, c4, c5⟩ := PState.core_eq_iff.1 hc
  exact ⟨c1, c2, c4, c3, c5, hr, hl⟩

/-- **C11, any list of batch sizes.**  If the canonical sequence from `ps` makes `Σ k_j` passes without raising,
then the calls `DoGlobalIteration(k_1); …; DoGlobalIteration(k_n)` end in the state reached by those `Σ k_j` passes
(same `m`, `evals`, `calls`, `nLocal`, `refined`): the state depends on the batch sizes only through their sum. -/
theorem C11_batches_sum (p : Params α) (f : Nat → List α → Option α) (refine : PState α → Option (LocalResult α))
    (ks : List Nat) (ps ps' : PState α) (ids : List Nat) (h : iterN p f ks.sum ps = .ok (ps', ids)) :
    (runOps p f refine (ks.map Op.iter) ps).m = ps'.m ∧ (runOps p f refine (ks.map Op.iter) ps).evals = ps'.evals ∧
    (runOps p f refine (ks.map Op.iter) ps).calls = ps'.calls ∧ (runOps p f refine (ks.map Op.iter) ps).nLocal = ps'.nLocal ∧
    (runOps p f refine (ks.map Op.iter) ps).refined = ps'.refined := by
  obtain ⟨c1, c2, c3, c4, c5⟩ := PState.core_eq_iff.1 (batches_sum (refine := refine) ks h)
  exact ⟨c1, c2, c4, c3, c5⟩

/-- two lists of batch sizes with the same sum end in the same state up to the event log -/
theorem C11_batches_same_sum (p : Params α) (f : Nat → List α → Option α) (refine : PState α → Option (LocalResult α))
    (ks ks' : List Nat) (hsum : ks.sum = ks'.sum) (ps ps' : PState α) (ids : List Nat)
    (h : iterN p f ks.sum ps = .ok (ps', ids)) :
    (runOps p f refine (ks.map Op.iter) ps).core = (runOps p f refine (ks'.map Op.iter) ps).core := by
  rw [batches_sum (refine := refine) ks h, batches_sum (refine := refine) ks' (hsum ▸ h)]

/-- **C11, the evaluation sequence is prefix-closed in the number of iterations** (any objective): the
records after `a` passes are an initial segment of the records after `a + b` passes, which make `b` more. -/
theorem C11_evals_prefix (p : Params α) (f : Nat → List α → Option α) (a b : Nat) (ps ps2 : PState α) (ids : List Nat)
    (h : iterN p f (a + b) ps = .ok (ps2, ids)) :
    ∃ ps1 ids1, iterN p f a ps = .ok (ps1, ids1) ∧ ps1.evals <+: ps2.evals ∧ ids1 <+: ids ∧
      ps2.evals.length = ps1.evals.length + b := by
  rw [iterN_add] at h
  split at h
  · cases h
  · next ps1 ids1 h1 =>
    split at h
    · cases h
    · next ps2' ids2 h2 =>
      cases h
      exact ⟨ps1, ids1, h1, iterN_evals_prefix h2, ⟨ids2, rfl⟩, (iterN_counters h2).2.2.2.1⟩

/-- **C11, pure objectives.**  If the objective ignores the call index, the trials made by `k` passes do not
depend on how many calls were made before (e.g. on earlier failed calls): same method state, ids and records. -/
theorem C11_pure (p : Params α) (f : Nat → List α → Option α) (hf : PureObjective f) (k c : Nat) (ps ps' : PState α)
    (ids : List Nat) (h : iterN p f k ps = .ok (ps', ids)) :
    ∃ ps'', iterN p f k { ps with calls := c } = .ok (ps'', ids) ∧ ps''.m = ps'.m ∧ ps''.evals = ps'.evals :=
  ⟨_, iterN_pure hf c h, rfl, rfl⟩

/-- **C11, `Solve` after batches continues the canonical sequence.**  Let the canonical sequence from `ps` make
`Σ k_j` passes without raising.  After `DoGlobalIteration(k_1); …; DoGlobalIteration(k_n)`, `Solve` brings the solver to
(the refinement of) a state `X` that is, up to the log, the state `n + j` of the same canonical sequence, where
`n + j` is the first index `≥ n = Σ k_j` at which the stop criterion holds (normal end), or at which the next
pass raises (then `X` is the state left by the raising pass); `j = 0`, i.e. no iteration at all, if the
criterion already holds. -/
theorem C11_solve_after_batches (p : Params α) (f : Nat → List α → Option α) (refine : PState α → Option (LocalResult α))
    (ks : List Nat) (ps ps0 : PState α) (ids0 : List Nat) (h0 : iterN p f ks.sum ps = .ok (ps0, ids0)) :
    ∃ j psj ids X, iterN p f (ks.sum + j) ps = .ok (psj, ids0 ++ ids) ∧
      (∀ i, i < j → ∃ psi idsi, iterN p f (ks.sum + i) ps = .ok (psi, idsi) ∧ stopNow p psi = false) ∧
      runOps p f refine (ks.map Op.iter ++ [Op.solve]) ps =
        (refineStep refine X).appendLog [Event.methodStop (stopNow p X)] ∧
      ((stopNow p psj = true ∧ X.core = psj.core) ∨
       (stopNow p psj = false ∧ ∃ pe e, oneIteration p f psj = .error (pe, e) ∧ X.core = pe.core)) := by
  have hc := batches_sum (refine := refine) ks h0
  obtain ⟨j, psj, ids, hrun, hpre, hcase⟩ := solveLoop_after (ps1 := runOps p f refine (ks.map Op.iter) ps) h0 hc
  have hsolve : ∀ X b, solveLoop p f (p.itersLimit + 1) (runOps p f refine (ks.map Op.iter) ps) = (X, b) →
      runOps p f refine (ks.map Op.iter ++ [Op.solve]) ps =
        (refineStep refine X).appendLog [Event.methodStop (stopNow p X)] := by
    intro X b hX
    rw [runOps_append]
    simp only [runOps, runOp]
    rw [solve_eq, hX]
    simp only []
    rw [(refineStep_fields (p := p) refine X).2.2.2.2.2.2.2.1]
  rcases hcase with ⟨hst, X, hcX, hsl⟩ | ⟨hst, pe, e, X, herr, hcX, hsl⟩
  · exact ⟨j, psj, ids, X, hrun, hpre, hsolve X _ hsl, .inl ⟨hst, hcX⟩⟩
  · exact ⟨j, psj, ids, X, hrun, hpre, hsolve X _ hsl, .inr ⟨hst, pe, e, herr, hcX⟩⟩

/-- `Solve` on a solver in which the criterion already holds makes no iteration -/
theorem C11_solve_nothing_to_do (p : Params α) (f : Nat → List α → Option α) (ps : PState α)
    (h : stopNow p ps = true) :
    solve p f (fun _ => none) ps = ps.appendLog [Event.methodStop true] := by
  rw [solve_eq, solveLoop_of_stop _ h]
  simp [refineStep, h]

/-- **C11, `Solve` is idempotent.**  If the first `Solve` was not ended by an exception, a second `Solve`
(without refinement) changes nothing but the event log, to which it adds one `OnMethodStop(status = True)`:
no new evaluation, same method state (`iterationsCount` and `min_delta` unchanged, so the criterion still holds).
With a refinement, the second `Solve` is exactly that refinement step plus the notification. -/
theorem C11_solve_idempotent (p : Params α) (f : Nat → List α → Option α) (refine refine2 : PState α → Option (LocalResult α))
    (ps : PState α) (hnr : (solveLoop p f (p.itersLimit + 1) ps).2 = false) :
    solve p f (fun _ => none) (solve p f refine ps) = (solve p f refine ps).appendLog [Event.methodStop true] ∧
    solve p f refine2 (solve p f refine ps) =
      (refineStep refine2 (solve p f refine ps)).appendLog [Event.methodStop true] ∧
    (solve p f refine2 (solve p f refine ps)).evals = (solve p f refine ps).evals ∧
    (solve p f refine2 (solve p f refine ps)).calls = (solve p f refine ps).calls ∧
    (solve p f refine2 (solve p f refine ps)).nTrials = (solve p f refine ps).nTrials := by
  have h2 := solve_solve (refine := refine) (refine2 := refine2) hnr
  have h1 := solve_solve (refine := refine) (refine2 := fun _ => none) hnr
  obtain ⟨-, r2, r3, -, r5, -⟩ := refineStep_fields (p := p) refine2 (solve p f refine ps)
  refine ⟨by rw [h1]; rfl, h2, ?_, ?_, ?_⟩
  · rw [h2]; exact r2
  · rw [h2]; exact r3
  · rw [h2]; exact r5

end generic

/-! ### non-vacuity on the toy instance -/
section examples
open ProcToy

/-- batches `1; 2` and `3` on a fresh solver: nothing raises -/
example : (doGlobalIteration (P 10 (1/100)) F 1 {} []).raised = none ∧
    (doGlobalIteration (P 10 (1/100)) F 2 (doGlobalIteration (P 10 (1/100)) F 1 {} []).s []).raised = none ∧
    (doGlobalIteration (P 10 (1/100)) F 3 {} []).s.log = [Event.beforeStart, Event.endIteration [2, 3, 4]] := by
  decide +kernel

/-- the canonical sequence makes `1 + 2` passes; then `Solve` goes on to the budget (10) -/
example : (∃ ps0 ids0, iterN (P 10 (1/100)) F ([1, 2].sum) {} = .ok (ps0, ids0)) ∧
    (runOps (P 10 (1/100)) F noRefine ([1, 2].map Op.iter ++ [Op.solve]) {}).nTrials = 10 := by
  refine ⟨?_, by decide +kernel⟩
  obtain ⟨x, hx⟩ := ok_of_isOk (r := iterN (P 10 (1/100)) F ([1, 2].sum) {}) (by decide +kernel)
  exact ⟨x.1, x.2, hx⟩

/-- a first `Solve` that ends normally -/
example : (solveLoop (P 5 (1/100)) F 6 {}).2 = false := by decide +kernel

/-- the headline theorems instantiated (hypotheses discharged by kernel evaluation) -/
example := C11_batch_split (P 10 (1/100)) F 1 2 {} (by decide +kernel)
example := C11_solve_idempotent (P 5 (1/100)) F noRefine noRefine {} (by decide +kernel)

end examples

end C11
