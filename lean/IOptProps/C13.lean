import IOptProofs.ProcessEvents
import IOptProofs.ProcessToy
/-!
# C13 (event part) — what the listeners are told

"(listeners are) told once before the first trial, once after each DoGlobalIteration call with exactly the new
trials of that call in order, and once when Solve ends"

The model records every notification in `PState.log` (`Event.beforeStart`, `Event.endIteration ids`,
`Event.methodStop status`, plus the printed line `Event.exceptionPrinted`).  In the model the listeners have no write
access to the solver state at all (events are only appended to a list); the *non-interference* clause of C13 is
therefore not a theorem here but is carried by the correspondence check of the model against the real code, which runs
the implementation with listeners attached.

Sequences of user operations are `List Op` (`Op.iter k` = `DoGlobalIteration(k)`, `Op.solve` = `Solve()`), run by `runOps`
from a fresh solver `{}`; an exception of `DoGlobalIteration` propagates to the caller, who may go on.
`idsOf log` is the concatenation of the id lists of all `OnEndIteration` notifications of the log.
-/

set_option linter.unusedSectionVars false

namespace C13
open AGP AGP.Ctl Proc

section generic
variable {α : Type} [Add α] [Sub α] [Mul α] [Div α] [Neg α] [LT α] [LE α]
  [DecidableLT α] [DecidableLE α] [OfNat α 0] [OfNat α 1] [OfNat α 2] [OfNat α 4] [Fns α]

/-- **C13, one `OnEndIteration` per `DoGlobalIteration` call.**  A call `DoGlobalIteration(k)` that does not raise appends to
the log: `BeforeMethodStart` if (and only if) it makes the first iteration ever (`firstMark`), and then exactly one
`OnEndIteration ids`, as the last event, where `ids` has length `k` and lists the ids of the `k` new trials in the
order of their evaluation (`nextId, nextId+1, …`).  A call that raises appends no `OnEndIteration`. -/
theorem C13_end_iteration (p : Params α) (f : Nat → List α → Option α) (k : Nat) (ps : PState α) :
    ((doGlobalIteration p f k ps []).raised = none →
      (doGlobalIteration p f k ps []).s.log =
        ps.log ++ firstMark ps k ++ [Event.endIteration (List.range' ps.nextId k)] ∧
      (List.range' ps.nextId k).length = k ∧
      (firstMark ps k = [] ∨ firstMark ps k = [Event.beforeStart]) ∧
      (doGlobalIteration p f k ps []).s.nextId = ps.nextId + k) ∧
    (∀ e, (doGlobalIteration p f k ps []).raised = some e →
      (doGlobalIteration p f k ps []).s.log = ps.log ++ firstMark ps 1) := by
  refine ⟨fun h => ?_, fun e h => dgi_events_raise h⟩
  obtain ⟨ps', hi, hs, hl⟩ := dgi_events_ok h
  refine ⟨hl, by simp, firstMark_cases _ _, ?_⟩
  rw [hs]; exact (iterN_ids_evals hi).2.1

/-- **C13, one `OnMethodStop` per `Solve`, as its last event.**  `Solve` appends to the log: `BeforeMethodStart` if it makes
(or attempts) the first iteration ever, one `OnEndIteration [id]` for each of the `j` iterations it completes (ids
`nextId, nextId+1, …` in order), the printed line if the loop was ended by an exception, and then exactly one
`OnMethodStop(status)`, which is the last event; `status` is the value of the stop criterion at that moment. -/
theorem C13_method_stop (p : Params α) (f : Nat → List α → Option α) (refine : PState α → Option (LocalResult α)) (ps : PState α) :
    ∃ (j a : Nat) (exc : List Event) (st : Bool),
      (solve p f refine ps).log =
        ps.log ++ (firstMark ps a ++ endEach (List.range' ps.nextId j) ++ exc) ++ [Event.methodStop st] ∧
      (∀ st', Event.methodStop st' ∉ firstMark ps a ++ endEach (List.range' ps.nextId j) ++ exc) ∧
      (exc = [] ∨ exc = [Event.exceptionPrinted]) ∧
      st = stopNow p (solve p f refine ps) ∧
      (solve p f refine ps).nTrials = ps.nTrials + j := by
  obtain ⟨j, X, exc, a, hs, hl, hcase⟩ := solve_events p f refine ps
  have hexc : exc = [] ∨ exc = [Event.exceptionPrinted] := by
    rcases hcase with ⟨h, -⟩ | ⟨h, -⟩
    · exact .inl h
    · exact .inr h
  refine ⟨j, a, exc, stopNow p X, by rw [hl]; simp, ?_, hexc, ?_, ?_⟩
  · intro st' hmem
    simp only [List.mem_append] at hmem
    rcases hmem with (hmem | hmem) | hmem
    · rcases firstMark_cases ps a with h | h <;> rw [h] at hmem <;> simp at hmem
    · simp [endEach] at hmem
    · rcases hexc with h | h <;> rw [h] at hmem <;> simp at hmem
  · rw [hs]
    show stopNow p X = stopNow p (refineStep refine X)
    exact ((refineStep_fields (p := p) refine X).2.2.2.2.2.2.2.1).symm
  · have hnt : (solve p f refine ps).nTrials = X.nTrials := by
      rw [hs]; exact (refineStep_fields (p := p) refine X).2.2.2.2.1
    rcases hcase with ⟨-, -, -, -, psj, hj, hc⟩ | ⟨-, -, -, psj, pe, e, hj, herr, hc⟩
    · rw [hnt]
      have : X.nTrials = psj.nTrials := by simp [PState.nTrials, (PState.core_eq_iff.1 hc).1]
      rw [this, (iterN_counters hj).2.1]
    · rw [hnt]
      have : X.nTrials = pe.nTrials := by simp [PState.nTrials, (PState.core_eq_iff.1 hc).1]
      rw [this, (oneIteration_error_counters herr).2.1, (iterN_counters hj).2.1]

/-- **C13, the log of any sequence of operations is well formed (general form, objective may raise).**  After any sequence of
`DoGlobalIteration(k_j)` (`k_j ≥ 1`) and `Solve` calls on a fresh solver:

1. `BeforeMethodStart` has been notified iff at least one iteration was started (i.e. the objective was called at least once);
2. it has been notified exactly once in that case, provided no call of the objective has raised so far
   (in general at most `1 +` the number of failed calls: Python repeats the first iteration, and its notification,
   after a failed first evaluation — see the example at the end of the file; this is why the theorem is `_partial`);
3. every `OnEndIteration` comes after a `BeforeMethodStart`;
4. the concatenation of the id lists of all `OnEndIteration` notifications is a subsequence of the ids `2, 3, 4, …` of the
   evaluated trials in evaluation order, and is the whole sequence `2, …, numberOfGlobalTrials + 1` if no
   `DoGlobalIteration` call of the sequence raised (a raising call loses its `savedNewPoints`). -/
theorem C13_events_wellformed_partial (p : Params α) (f : Nat → List α → Option α) (refine : PState α → Option (LocalResult α))
    (ops : List Op) (hops : ∀ k, Op.iter k ∈ ops → 1 ≤ k) :
    let ps := runOps p f refine ops {}
    (Event.beforeStart ∈ ps.log ↔ 1 ≤ ps.calls) ∧
    (ps.calls = ps.evals.length → ps.log.count Event.beforeStart = if ps.calls = 0 then 0 else 1) ∧
    ps.log.count Event.beforeStart ≤ 1 + (ps.calls - ps.evals.length) ∧
    Ordered ps.log ∧
    (idsOf ps.log).Sublist (List.range' 2 ps.nTrials) ∧
    (NoIterRaise p f refine ops {} → idsOf ps.log = List.range' 2 ps.nTrials) := by
  intro ps
  have h : EvInv ps := (EvInv.fresh (α := α)).runOps_pres ops hops
  have hcount := h.count
  have hle : (if ps.m.isNone = true then 0 else 1) ≤ 1 := by split <;> omega
  have h1 : Event.beforeStart ∈ ps.log ↔ 1 ≤ ps.calls := by
    constructor
    · intro hmem
      have hpos : 0 < ps.log.count Event.beforeStart := List.count_pos_iff.2 hmem
      rcases Nat.eq_zero_or_pos ps.calls with h0 | h0
      · exfalso
        have hev : ps.evals.length = 0 := by have := h.cons.calls; omega
        cases hm : ps.m with
        | none => rw [hm] at hcount; simp at hcount; omega
        | some s =>
          have := h.pos (by simp [hm])
          have := h.cons.trials
          omega
      · exact h0
    · intro hc
      rcases h.called with h0 | hmem
      · omega
      · exact hmem
  refine ⟨h1, ?_, by omega, h.ordered, h.ids, fun hnr => ?_⟩
  · intro heq
    split
    · next h0 =>
      apply List.count_eq_zero_of_not_mem
      intro hmem; have := h1.1 hmem; omega
    · next h0 =>
      have hmem := h1.2 (by omega)
      have hpos : 0 < ps.log.count Event.beforeStart := List.count_pos_iff.2 hmem
      omega
  · exact ids_full_runOps (EvInv.fresh (α := α)) rfl ops hops hnr

/-- **C13, the log of any sequence of operations is well formed (objective that never raises).**  After any sequence of
`DoGlobalIteration(k_j)` (`k_j ≥ 1`) and `Solve` calls on a fresh solver, with an objective that never raises:
`BeforeMethodStart` occurs in the log exactly once if at least one iteration was started (the objective was called) and not at
all otherwise; every `OnEndIteration` comes after it; the concatenation of the id lists of all `OnEndIteration`
notifications is a subsequence of the ids `2, 3, 4, …` of the evaluated trials, in evaluation order, and is exactly
`2, …, numberOfGlobalTrials + 1` if no `DoGlobalIteration` call raised (over an ordered field nothing else can raise:
`CalculateIterationPoint` never raises on reachable states, see C02). -/
theorem C13_events_wellformed (p : Params α) (f : Nat → List α → Option α) (refine : PState α → Option (LocalResult α))
    (hf : ∀ j pt, f j pt ≠ none) (ops : List Op) (hops : ∀ k, Op.iter k ∈ ops → 1 ≤ k) :
    let ps := runOps p f refine ops {}
    (ps.log.count Event.beforeStart = if ps.calls = 0 then 0 else 1) ∧
    Ordered ps.log ∧
    (idsOf ps.log).Sublist (List.range' 2 ps.nTrials) ∧
    (NoIterRaise p f refine ops {} → idsOf ps.log = List.range' 2 ps.nTrials) := by
  intro ps
  obtain ⟨-, h2, -, h4, h5, h6⟩ := C13_events_wellformed_partial p f refine ops hops
  obtain ⟨hc, hcalls⟩ := (Consistent.fresh (α := α)).runOps_pres (p := p) (f := f) (refine := refine) ops
  have h0 : ({} : PState α).calls = 0 := rfl
  have h1 : ({} : PState α).evals.length = 0 := rfl
  have hfc := failedCalls_total (p := p) (refine := refine) hf (Consistent.fresh (α := α)) ops
  exact ⟨h2 (by show (runOps p f refine ops {}).calls = _; omega), h4, h5, h6⟩

end generic

/-! ### non-vacuity on the toy instance -/
section examples
open ProcToy

/-- a mixed sequence in which nothing raises: the log is as described -/
example : (runOps (P 6 (1/100)) F noRefine [Op.iter 2, Op.iter 1, Op.solve, Op.solve] {}).log =
    [Event.beforeStart, Event.endIteration [2, 3], Event.endIteration [4], Event.endIteration [5],
     Event.endIteration [6], Event.endIteration [7], Event.methodStop true, Event.methodStop true] := by
  decide +kernel

example : (∀ k, Op.iter k ∈ [Op.iter 2, Op.iter 1, Op.solve, Op.solve] → 1 ≤ k) := by
  intro k hk; simp at hk; omega

example : NoIterRaise (P 6 (1/100)) F noRefine [Op.iter 2, Op.iter 1, Op.solve, Op.solve] {} := by
  refine ⟨?_, ?_, ?_, ?_, trivial⟩
  · rintro ⟨k, hk, hr⟩; cases hk; revert hr; decide +kernel
  · rintro ⟨k, hk, hr⟩; cases hk; revert hr; decide +kernel
  · rintro ⟨k, hk, -⟩; cases hk
  · rintro ⟨k, hk, -⟩; cases hk

/-- the theorem instantiated at that sequence -/
example := C13_events_wellformed (P 6 (1/100)) F noRefine F_total [Op.iter 2, Op.iter 1, Op.solve, Op.solve]
  (by intro k hk; simp at hk; omega)

/-- a `DoGlobalIteration(3)` whose third evaluation raises loses the two trials it made: ids 2, 3 are never reported -/
example : (runOps (P 6 (1/100)) (failAt 2) noRefine [Op.iter 3, Op.solve] {}).log =
    [Event.beforeStart, Event.endIteration [4], Event.endIteration [5], Event.endIteration [6], Event.endIteration [7],
     Event.methodStop true] := by
  decide +kernel

/-- **Why "exactly once" needs the proviso**: if the very first evaluation raises and the user calls again, the first iteration is
repeated and `BeforeMethodStart` is notified a second time. -/
example : (runOps (P 6 (1/100)) (failAt 0) noRefine [Op.iter 1, Op.iter 1] {}).log =
    [Event.beforeStart, Event.beforeStart, Event.endIteration [2]] := by
  decide +kernel

end examples

end C13
