import IOptProofs.RefineSim
import IOptProofs.MethodFacts
import IOptProps.C19
/-!
# C06 (links clause) — the list-level search model refines the pointer-level container model

Property C06 speaks about "the accumulated search information … with mutually consistent neighbour
links".  The method model `IOptModel/Method.lean` keeps the search information as a plain list
(`State.items`, traversal order) plus a queue (`State.queue`); the code keeps it in `SearchData`
(doubly linked items, `_allTrials`, a DEPQ), modelled at pointer level in `IOptModel/SearchData.lean`.
`IOptProps/C06.lean` (`C06_hint_correct`) and `IOptProps/C19.lean` (`C19_insert_ok`, …) connect the
two only informally.  This file composes them.

* **The concrete run** (`IOptProofs/RefineDefs.lean`): `AGP.cRun p zs` executes the AGP iteration for the
  objective values `zs`, holding the search information in an `SD.State α (Option α)` and issuing
  exactly the container calls the method makes: `InsertFirstDataItem(left, right)`,
  `InsertDataItem(middle, right)`; `ClearQueue()`, `globalR` of every item of the iteration rewritten
  (the left neighbour being read through the `left` POINTER), `RefillQueue()`;
  `GetDataItemWithMaxGlobalR()`; `old.globalR` rewritten, `InsertDataItem(new, old)`.
  The attributes the container never looks at (`point`, `z`, value holder, index, `delta`) live in a
  side table indexed by the id.
* **The abstraction**: `AGP.absSD sd = (SD.traversal sd, sd.gq)` (the `abs` of the task); `AGP.absState c` is the whole list-level
  state read off a concrete state (items in traversal order, the queue, `nextId = len(_allTrials)`).
* **The refinement** (`C06_links_refine`): for every reachable list-level state `s` the concrete run on
  the same objective values succeeds and its container is well formed, has the traversal, the
  coordinates, the characteristics and the queue of `s`, and `absState c = s`.
  `C06_pop_agrees` is the inductive step: selection, neighbour lookup and renewal agree
  (`C06_lock_step`: the same without any hypothesis on `FnsLaws`, `r`, `n`).

Route for the key order: the helper lemmas of C19 were proved for `leB = decide (· ≤ ·)` of a
`LinearOrder κ`.  The three that are needed here (`insert` with a hint, `refill`, a loop of
`setGlobalR`) do not use any property of the comparison and are restated for an arbitrary Boolean
function in `IOptProofs/RefineSD.lean` (the cheaper route); everything about the links (`SD.Rep`,
`SD.Rep_insTrials`, `SD.Rep_setGlobalR`, `SD.Rep_insertFirst`, `SD.C19_WF_spec`) is used as it is.
`AGP.keyLe_eq_leB` shows in addition that `keyLe` is the Boolean `≤` of the linear order `WithBot α`
(`none` = bottom), and `C06_insert_ok` that the precondition `SD.InsertOk` of `C19_insert_ok` holds at
every insertion of the concrete run.

No hypothesis on the numeric functions, `r` or `n` is needed: the lock step only depends on the
container calls (the hypotheses `FnsLaws`, `1 < r`, `0 < n` of the other C06 theorems are used in
`C06_pop_agrees` only to identify the popped KEY with the characteristic of the selected item).
-/
set_option linter.unusedSectionVars false

namespace AGP
variable {α : Type} [Field α] [LinearOrder α] [IsStrictOrderedRing α] [Fns α]
variable {p : Params α} {s : State α}

/-- **C06_links_refine.**  For every reachable list-level state `s` (with evaluation log `log`) the
concrete run on the same objective values `log.map (·.2)` succeeds, and its pointer-level container
`c.sd`
* is well formed (`SD.WF`: `first` is the head, every id of `_allTrials` occurs exactly once, `left`/
  `right` of neighbours point to each other, the ends have no outer neighbour, coordinates are sorted —
  see `SD.C19_WF_iff`, `C06_links`);
* is traversed (following `right` from `first`) in the order of `s.items`;
* stores under the id of every item of `s` its coordinate and its characteristic (`globalR`);
* has the same queue (same entries, same order);
* has `len(_allTrials) = s.nextId`;
and the whole list-level state is recovered from the concrete one: `absState c = s`.
(The statement needs no assumption on `FnsLaws`, `r`, `n`.) -/
theorem C06_links_refine {log : List (List α × α)} (h : Reach p s log) :
    ∃ c, cRun p (log.map (·.2)) = some c ∧
      SD.WF c.sd ∧
      SD.traversal c.sd = s.items.map (·.id) ∧
      (∀ it ∈ s.items, ∃ cit, c.sd.trials[it.id]? = some cit ∧ cit.x = it.x ∧ cit.globalR = it.R) ∧
      c.sd.gq = s.queue ∧
      c.sd.trials.size = s.nextId ∧
      absSD c.sd = (s.items.map (·.id), s.queue) ∧
      absState c = s := by
  obtain ⟨c, hc, hs⟩ := reach_sim h
  refine ⟨c, hc, hs.rs.wf, hs.rs.traversal, ?_, hs.gq, hs.size, ?_, hs.abs⟩
  · intro it hit
    exact get_of_xrOf (hs.rs.xr it hit)
  · unfold absSD
    rw [hs.rs.traversal, hs.gq]

/-- the statement in the form of the task (with the standing hypotheses of the other C06 theorems) -/
example (_hL : FnsLaws α) (_hr : 1 < p.r) (_hn : 0 < p.n) {log : List (List α × α)}
    (h : Reach p s log) :
    ∃ c, cRun p (log.map (·.2)) = some c ∧ SD.WF c.sd ∧ SD.traversal c.sd = s.items.map (·.id) ∧
      (∀ it ∈ s.items, ∃ cit, c.sd.trials[it.id]? = some cit ∧ cit.x = it.x ∧ cit.globalR = it.R) ∧
      c.sd.gq = s.queue ∧ c.sd.trials.size = s.nextId := by
  obtain ⟨c, h1, h2, h3, h4, h5, h6, -⟩ := C06_links_refine h
  exact ⟨c, h1, h2, h3, h4, h5, h6⟩

/-- **C06_links** (the links clause of C06 for the structure the code maintains).  In the container
of the concrete run, for every reachable state: neighbouring items `a, b` of the list are linked both
ways (`a.right = b`, `b.left = a`), the first item is `__firstDataItem` and has no left neighbour, the
last item has no right neighbour, and the number of stored items is the number of list items. -/
theorem C06_links {log : List (List α × α)} (h : Reach p s log) :
    ∃ c, cRun p (log.map (·.2)) = some c ∧
      (∀ a b, Neighbours s.items a b → ∃ ia ib, c.sd.trials[a.id]? = some ia ∧
        c.sd.trials[b.id]? = some ib ∧ ia.right = some b.id ∧ ib.left = some a.id) ∧
      (∀ f t, s.items = f :: t → c.sd.first = some f.id ∧
        ∃ i, c.sd.trials[f.id]? = some i ∧ i.left = none) ∧
      (∀ t l, s.items = t ++ [l] → ∃ i, c.sd.trials[l.id]? = some i ∧ i.right = none) ∧
      c.sd.trials.size = s.items.length := by
  obtain ⟨c, hc, hwf, htr, -, -, -, -, -⟩ := C06_links_refine h
  obtain ⟨⟨f, hf1, hf2, -⟩, -, hlen, hnb, hhead, hlast, -, -⟩ := SD.C19_WF_spec hwf
  refine ⟨c, hc, ?_, ?_, ?_, ?_⟩
  · rintro a b ⟨l₁, l₂, e⟩
    exact hnb (l₁.map (·.id)) a.id b.id (l₂.map (·.id)) (by rw [htr, e]; simp)
  · intro f' t e
    have ht : SD.traversal c.sd = f'.id :: t.map (·.id) := by rw [htr, e]; rfl
    rw [ht] at hf2
    simp only [List.head?_cons, Option.some.injEq] at hf2
    exact ⟨by rw [hf1, hf2], hhead _ _ ht⟩
  · intro t l e
    exact hlast (t.map (·.id)) l.id (by rw [htr, e]; simp)
  · rw [← hlen, htr, List.length_map]

/-- **C06_pop_agrees** (the inductive step of the refinement).  Let `s` be reachable, `c` the state
of the concrete run, and let the list-level `prepare` succeed on `s` with result `pr`.  Then
* `GetDataItemWithMaxGlobalR` (`SD.popMaxGlobal`) on the recalculated container returns the id of the
  item `prepare` selected, with its characteristic as key, and leaves the queue `pr.s.queue`;
* the `left` pointer of that item is the id of the left neighbour `prepare` found in the list;
* `cPrepare` succeeds with the same selected item, neighbour, new coordinate and point, in a state
  whose abstraction is `pr.s`;
* for every value `z` of the objective `cCommit` succeeds, its result is the next state of the
  concrete run, and its abstraction is `commit p pr z`: the two runs stay in lock step. -/
theorem C06_pop_agrees (hL : FnsLaws α) (hr : 1 < p.r) (hn : 0 < p.n) {log : List (List α × α)}
    (h : Reach p s log) {pr : Prep α} (hp : prepare p s = .ok pr) :
    ∃ c, cRun p (log.map (·.2)) = some c ∧
      ∃ sd', SD.popMaxGlobal keyLe (cRecalcAll p c).sd = .ok (sd', pr.old.id, pr.old.R) ∧
        sd'.gq = pr.s.queue ∧ sd'.trials = (cRecalcAll p c).sd.trials ∧
        sd'.trials[pr.old.id]?.bind (·.left) = some pr.left.id ∧
      ∃ cpr, cPrepare p c = .ok cpr ∧ cpr.c.sd = sd' ∧ cpr.old = pr.old.id ∧ cpr.left = pr.left.id ∧
        cpr.x = pr.x ∧ cpr.point = pr.point ∧ absState cpr.c = pr.s ∧
      ∀ z, ∃ c', cCommit p cpr z = some c' ∧ cRun p (log.map (·.2) ++ [z]) = some c' ∧
        SD.WF c'.sd ∧ absState c' = commit p pr z := by
  obtain ⟨c, hc, hs⟩ := reach_sim h
  obtain ⟨cpr, sd', k, q, hq, hpop, hgq, htr, hlp, hcp, hsd, hsim, hold, hleft, hx, hpt,
    ⟨pre, post, e⟩, h1, h2⟩ := cPrepare_sim hs hp
  -- the popped key is the characteristic of the selected item (needs the queue invariant)
  have hk : k = pr.old.R := by
    obtain ⟨I1, hrc⟩ := recalcAll_inv (h.inv hL hr hn)
    have Q := I1.queue hrc
    have hperm : (prepState p s).queue.Perm ((prepState p s).items.map qkey) := by
      unfold prepState
      split
      · exact refillQueue_perm _
      · exact Q.perm
    have hmem : (k, pr.old.id) ∈ (prepState p s).items.map qkey := hperm.mem_iff.1 (by rw [hq]; simp)
    obtain ⟨b, hb, hbk⟩ := List.mem_map.1 hmem
    obtain ⟨_, _, _, -, -, -, hs', -⟩ := prepare_ok_inv hp
    have hitems : pr.s.items = (prepState p s).items := by rw [hs']
    rw [← hitems] at hb
    have hbo : b = pr.old :=
      hsim.rs.inj hb (by rw [e]; simp) (congrArg Prod.snd hbk)
    rw [← hbo]
    exact (congrArg Prod.fst hbk).symm
  subst hk
  refine ⟨c, hc, sd', hpop, hgq, htr, hlp, cpr, hcp, hsd, hold, hleft, hx, hpt, hsim.abs, ?_⟩
  intro z
  obtain ⟨c', hc', hs'⟩ := cCommit_sim (p := p) hsim hold hleft hx hpt e h1 h2 z
  refine ⟨c', hc', ?_, hs'.rs.wf, hs'.abs⟩
  rw [cRun_snoc p _ z hc]
  unfold cIterate
  rw [hcp]
  exact hc'

/-- **C06_lock_step** (`C06_pop_agrees` without any hypothesis on `FnsLaws`, `r`, `n`; the popped
key is then only known to be the key at the head of the queue).  Selection, neighbour lookup, new
coordinate and renewal of the two runs agree in every reachable state. -/
theorem C06_lock_step {log : List (List α × α)} (h : Reach p s log) {pr : Prep α}
    (hp : prepare p s = .ok pr) :
    ∃ c cpr k, cRun p (log.map (·.2)) = some c ∧
      SD.popMaxGlobal keyLe (cRecalcAll p c).sd = .ok (cpr.c.sd, pr.old.id, k) ∧
      cpr.c.sd.gq = pr.s.queue ∧
      cpr.c.sd.trials[pr.old.id]?.bind (·.left) = some pr.left.id ∧
      cPrepare p c = .ok cpr ∧ cpr.old = pr.old.id ∧ cpr.left = pr.left.id ∧
      cpr.x = pr.x ∧ cpr.point = pr.point ∧ absState cpr.c = pr.s ∧
      ∀ z, ∃ c', cCommit p cpr z = some c' ∧ cRun p (log.map (·.2) ++ [z]) = some c' ∧
        SD.WF c'.sd ∧ absState c' = commit p pr z := by
  obtain ⟨c, hc, hs⟩ := reach_sim h
  obtain ⟨cpr, sd', k, q, -, hpop, hgq, -, hlp, hcp, hsd, hsim, hold, hleft, hx, hpt,
    ⟨pre, post, e⟩, h1, h2⟩ := cPrepare_sim hs hp
  subst hsd
  refine ⟨c, cpr, k, hc, hpop, hgq, hlp, hcp, hold, hleft, hx, hpt, hsim.abs, ?_⟩
  intro z
  obtain ⟨c', hc', hs'⟩ := cCommit_sim (p := p) hsim hold hleft hx hpt e h1 h2 z
  refine ⟨c', hc', ?_, hs'.rs.wf, hs'.abs⟩
  rw [cRun_snoc p _ z hc]
  unfold cIterate
  rw [hcp]
  exact hc'

/-- **C06_insert_ok** (the composition `C19 ∘ C06` made explicit).  At the insertion of the renewal
step the precondition `SD.InsertOk` of `C19_insert_ok` holds in the concrete container: the new
coordinate is not left of the first item, some stored coordinate is larger, and the hint handed to
`InsertDataItem` — the selected item — is the FIRST item in traversal order with a larger coordinate
(what `FindDataItemByOneDimensionalPoint` would return; the list-level fact is `C06_hint_correct`). -/
theorem C06_insert_ok {log : List (List α × α)} (h : Reach p s log) {pr : Prep α}
    (hp : prepare p s = .ok pr) :
    ∃ c cpr, cRun p (log.map (·.2)) = some c ∧ cPrepare p c = .ok cpr ∧
      ∀ k, SD.InsertOk (SD.setGlobalR cpr.c.sd cpr.old k) pr.x (some cpr.old) := by
  obtain ⟨c, hc, hs⟩ := reach_sim h
  obtain ⟨cpr, sd', k, q, -, -, -, -, -, hcp, -, hsim, hold, -, -, -, ⟨pre, post, e⟩, h1, h2⟩ :=
    cPrepare_sim hs hp
  refine ⟨c, cpr, hc, hcp, ?_⟩
  intro k'
  have hrs := hsim.rs
  have hxo : ∀ it ∈ pr.s.items, SD.xOf (SD.setGlobalR cpr.c.sd cpr.old k').trials it.id = some it.x := by
    intro it hit
    exact xOf_of_xrOf (R := if it.id = cpr.old then k' else it.R) (by
      rw [xrOf_setGlobalR, hrs.xr it hit]
      split <;> rfl)
  have hpw : pr.s.items.Pairwise (fun a b => a.x ≤ b.x) := by
    have hsorted := hrs.rep.sorted
    rw [List.pairwise_map] at hsorted
    refine List.Pairwise.imp_of_mem ?_ hsorted
    intro a b ha hb hab
    exact hab a.x b.x (hrs.xOf ha) (hrs.xOf hb)
  rw [e] at hpw
  have htrav : SD.traversal (SD.setGlobalR cpr.c.sd cpr.old k') = pr.s.items.map (·.id) := by
    rw [SD.traversal_eq_walkA]
    have := (SD.Rep_setGlobalR cpr.old k' hrs.rep).walk_eq
    exact this
  have hlm : pr.left ∈ pr.s.items := by rw [e]; simp
  have hom : pr.old ∈ pr.s.items := by rw [e]; simp
  refine ⟨?_, ⟨pr.old.id, pr.old.x, hxo _ hom, h2⟩, Or.inr ⟨pr.old.id, by rw [hold], ?_⟩⟩
  · -- the first item
    cases hpre : pre with
    | nil =>
      refine ⟨pr.left.id, pr.left.x, ?_, hxo _ hlm, le_of_lt h1⟩
      show cpr.c.sd.first = _
      rw [hrs.rep.first_eq, e, hpre]; rfl
    | cons f t =>
      have hfm : f ∈ pr.s.items := by rw [e, hpre]; simp
      refine ⟨f.id, f.x, ?_, hxo _ hfm, ?_⟩
      · show cpr.c.sd.first = _
        rw [hrs.rep.first_eq, e, hpre]; rfl
      · have := (List.pairwise_append.1 hpw).2.2 f (by rw [hpre]; simp) pr.left (by simp)
        exact le_trans this (le_of_lt h1)
  · -- the hint is the first item above
    refine ⟨(pre ++ [pr.left]).map (·.id), post.map (·.id), ?_, ⟨pr.old.x, hxo _ hom, h2⟩, ?_⟩
    · rw [htrav, e]; simp
    · intro a ha xa hxa
      obtain ⟨it, hit, rfl⟩ := List.mem_map.1 ha
      have hitm : it ∈ pr.s.items := by
        rw [e]
        rcases List.mem_append.1 hit with h' | h'
        · simp [h']
        · simp only [List.mem_singleton] at h'; subst h'; simp
      rw [hxo _ hitm] at hxa
      cases hxa
      rcases List.mem_append.1 hit with h' | h'
      · have := (List.pairwise_append.1 hpw).2.2 it h' pr.left (by simp)
        exact le_trans this (le_of_lt h1)
      · simp only [List.mem_singleton] at h'; subst h'; exact le_of_lt h1

/-- **Route 1 works as well**: `keyLe` is the Boolean `≤` of the linear order `WithBot α`
(`keyLe_eq_leB`), so the queue theorems of C19 apply verbatim to the container of the concrete run.
Here `C19_pop_max` for the key order `keyLe`: on a well-formed container with a sorted queue the
request succeeds, does not touch the items, and (if the queue was not empty) pops the head, whose key
is `≥` every queued key. -/
theorem C19_pop_max_keyLe {α : Type} [LinearOrder α] (sd : SD.State α (Option α)) (h : SD.WF sd)
    (hs : QSorted sd.gq) (hm : sd.maxlen ≠ some 0) :
    ∃ s' i k, SD.popMaxGlobal keyLe sd = .ok (s', i, k) ∧ s'.trials = sd.trials ∧ s'.first = sd.first ∧
      (sd.gq ≠ [] → sd.gq = (k, i) :: s'.gq ∧ ∀ e ∈ sd.gq, keyLe e.1 k = true) := by
  obtain ⟨s', i, k, h1, h2, h3, h4⟩ :=
    SD.C19_pop_max (κ := WithBot α) (s := sd) h ((qsorted_iff sd.gq).1 hs) hm
  refine ⟨s', i, k, ?_, h2, h3, ?_⟩
  · rw [keyLe_fun_eq_leB]
    exact h1
  · intro hne
    rcases h4 with ⟨h5, -, h6⟩ | ⟨h5, -⟩
    · refine ⟨h5, ?_⟩
      intro e he
      have := keyLe_eq_leB (α := α) e.1 k
      exact this.trans (by simpa using h6 e he)
    · exact absurd h5 hne

/-! ## Non-vacuity -/

section NonVacuityRat
attribute [local instance] Fns.rat1
namespace LinksExample

/-- `N = 1`, `r = 2`, evolvent = identity, over ℚ (everything is computed by the kernel) -/
def exP : Params ℚ := { n := 1, r := 2, eps := 1 / 100, itersLimit := 100, image := fun x => [x] }

/-- the objective values: the first trial and three iterations -/
def exZs : List ℚ := [1, 3, 0, 2]

/-- **A concrete 3-iteration run where both sides are computed and agree.**  The list-level run
(`lRun`, a reachable state by `lRun_reach`) and the concrete run (`cRun`) on the values `1, 3, 0, 2`:
the hypotheses of `C06_links_refine` hold, its conclusion is instantiated, and the computed data of
the two sides are displayed: the item list `(id, x, R)` and the queue of the list-level state; the
traversal, the queue and the array `_allTrials` as `(x, left, right, globalR)` of the container. -/
theorem ex_run_agrees : ∃ (s : State ℚ) (log : List (List ℚ × ℚ)) (c : CState ℚ),
    Reach exP s log ∧ log.map (·.2) = exZs ∧
    cRun exP exZs = some c ∧ SD.WF c.sd ∧ absState c = s ∧
    -- the list-level side, computed
    s.items.map (fun it => (it.id, it.x, it.R)) =
      [(0, 0, none), (3, 1 / 4, some (-1 / 4)), (2, 1 / 2, some (-3 / 16)), (4, 3 / 4, some (9 / 64)),
       (5, 7 / 8, some (1 / 32)), (1, 1, some 0)] ∧
    s.queue = [(some (9 / 64), 4), (some (1 / 32), 5), (some 0, 1), (some (-3 / 16), 2),
               (some (-1 / 4), 3), (none, 0)] ∧
    -- the pointer-level side, computed
    SD.traversal c.sd = [0, 3, 2, 4, 5, 1] ∧
    c.sd.gq = [(some (9 / 64), 4), (some (1 / 32), 5), (some 0, 1), (some (-3 / 16), 2),
               (some (-1 / 4), 3), (none, 0)] ∧
    c.sd.first = some 0 ∧ c.sd.maxlen = none ∧
    c.sd.trials.toList.map (fun it => (it.x, it.left, it.right, it.globalR)) =
      [(0, none, some 3, none), (1, some 5, none, some 0), (1 / 2, some 3, some 4, some (-3 / 16)),
       (1 / 4, some 0, some 2, some (-1 / 4)), (3 / 4, some 2, some 5, some (9 / 64)),
       (7 / 8, some 4, some 1, some (1 / 32))] := by
  -- the list-level run
  have hl : (lRun exP exZs).map (fun r => (r.1.items.map (fun it => (it.id, it.x, it.R)), r.1.queue)) =
      some ([(0, 0, none), (3, 1 / 4, some (-1 / 4)), (2, 1 / 2, some (-3 / 16)), (4, 3 / 4, some (9 / 64)),
             (5, 7 / 8, some (1 / 32)), (1, 1, some 0)],
            [(some (9 / 64), 4), (some (1 / 32), 5), (some 0, 1), (some (-3 / 16), 2),
             (some (-1 / 4), 3), (none, 0)]) := by decide +kernel
  -- the concrete run
  have hcr : (match cRun exP exZs with
      | none => false
      | some c =>
        decide (SD.traversal c.sd = [0, 3, 2, 4, 5, 1]) &&
        decide (c.sd.gq = [(some (9 / 64), 4), (some (1 / 32), 5), (some 0, 1), (some (-3 / 16), 2),
                           (some (-1 / 4), 3), (none, 0)]) &&
        decide (c.sd.first = some 0) && decide (c.sd.maxlen = none) &&
        decide (c.sd.trials.toList.map (fun it => (it.x, it.left, it.right, it.globalR)) =
          [(0, none, some 3, none), (1, some 5, none, some 0), (1 / 2, some 3, some 4, some (-3 / 16)),
           (1 / 4, some 0, some 2, some (-1 / 4)), (3 / 4, some 2, some 5, some (9 / 64)),
           (7 / 8, some 4, some 1, some (1 / 32))])) = true := by decide +kernel
  cases hr : lRun exP exZs with
  | none => rw [hr] at hl; cases hl
  | some r =>
    obtain ⟨s, log⟩ := r
    obtain ⟨hre, hlog⟩ := lRun_reach hr
    obtain ⟨c, hc, hwf, -, -, -, -, -, habs⟩ := C06_links_refine hre
    rw [hlog] at hc
    rw [hr] at hl
    rw [hc] at hcr
    simp only [Option.map_some, Option.some.injEq, Prod.mk.injEq] at hl
    simp only [Bool.and_eq_true, decide_eq_true_eq] at hcr
    exact ⟨s, log, c, hre, hlog, hc, hwf, habs, hl.1, hl.2, hcr.1.1.1.1, hcr.1.1.1.2, hcr.1.1.2, hcr.1.2, hcr.2⟩

/-- the hypotheses of `C19_pop_max_keyLe` hold for the container of this run -/
example : ∃ c : CState ℚ, cRun exP exZs = some c ∧ SD.WF c.sd ∧ QSorted c.sd.gq ∧ c.sd.maxlen ≠ some 0 := by
  obtain ⟨s, log, c, -, -, hc, hwf, -, -, -, -, hgq, -, hm, -⟩ := ex_run_agrees
  refine ⟨c, hc, hwf, ?_, by rw [hm]; simp⟩
  rw [hgq]
  unfold QSorted
  decide +kernel

/-- the selection step on the same run, both sides computed: after the recalculation
`GetDataItemWithMaxGlobalR` pops `(49/256, 4)` and `prepare` selects the item with id 4 and
characteristic `49/256`; its `left` pointer is 2, the id of the neighbour `prepare` finds in the list;
the remaining queues are equal (the instance of `C06_pop_agrees`, whose hypothesis `FnsLaws` is not
available over ℚ, checked by computation). -/
example : (match lRun exP exZs, cRun exP exZs with
    | some (s, _), some c =>
      (match prepare exP s, SD.popMaxGlobal keyLe (cRecalcAll exP c).sd with
       | .ok pr, .ok (sd', i, k) =>
         decide (i = 4) && decide (pr.old.id = 4) && decide (k = some (49 / 256)) &&
         decide (pr.old.R = some (49 / 256)) && decide (pr.left.id = 2) &&
         decide (sd'.trials[i]?.bind (·.left) = some 2) && decide (sd'.gq = pr.s.queue) &&
         decide (sd'.gq = [(some (1 / 8), 3), (some (1 / 32), 5), (some (1 / 64), 2), (some 0, 1), (none, 0)])
       | _, _ => false)
    | _, _ => false) = true := by decide +kernel

end LinksExample
end NonVacuityRat

section NonVacuityReal
attribute [local instance] Fns.real

/-- the hypotheses of `C06_pop_agrees` / `C06_insert_ok` / `C06_links` are satisfiable: a reachable
state after five trials over ℝ (`N = 2`, `r = 3`) on which `prepare` succeeds -/
example : ∃ (p : Params ℝ) (s : State ℝ) (log : List (List ℝ × ℝ)) (pr : Prep ℝ),
    FnsLaws ℝ ∧ 1 < p.r ∧ 0 < p.n ∧ Reach p s log ∧ log.length = 5 ∧ prepare p s = .ok pr := by
  let p : Params ℝ := { n := 2, r := 3, eps := 1 / 100, itersLimit := 100, image := fun x => [x, 1 - x] }
  have hr : (1 : ℝ) < p.r := by norm_num [p]
  have hn : 0 < p.n := by norm_num [p]
  obtain ⟨s, log, hre, hlog⟩ := exists_reach (p := p) FnsLaws.real hr hn (fun k => (k : ℝ) ^ 2 - 3 * k) 4
  obtain ⟨pr, hp, _⟩ := prepare_spec FnsLaws.real hr hn (hre.inv FnsLaws.real hr hn)
  refine ⟨p, s, log, pr, FnsLaws.real, hr, hn, hre, ?_, hp⟩
  have := congrArg List.length hlog
  simpa using this

end NonVacuityReal

end AGP
