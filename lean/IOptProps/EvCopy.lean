import IOptGen.EvCopy
/-!
# Copy discipline of `Evolvent` — what the heap model `EvObj` assumes, checked against the CURRENT source text

The heap model of the evolvent object (`IOptModel/EvObj.lean`, properties C17, C09, C07, C20) says, statement by statement, which
public call allocates a fresh array, which one stores a private copy of its argument, and that no call keeps or hands out an array the
caller can reach.  `IOptGen/EvCopy.lean` is regenerated on every run from the source text of `iOpt/evolvent/evolvent.py`: every
expression stored into an attribute of `self`, every returned expression and every local bound to a parameter and then updated in
place, each classified syntactically (`fresh` / `param-alias` / `self-alias` / `method-result` / `local` / `other`).
The obligations below are decided by the kernel on that list.
-/

namespace EvCopy
open Gen

/-- kinds that cannot create sharing with the caller: a new object / scalar, the (scalar) result of another method, a plain local -/
def safeKinds : List String := ["fresh", "method-result", "local"]

/-- the sites that are not of a safe kind and are known to be harmless: integer parameters stored as they are, and the private
`__GetYonX` returning the object's own buffer to `GetImage`, which ignores that result and returns a copy -/
def exceptions : List (String × String × String) :=
  [("__init__", "store self.evolventDensity", "param-alias"),
   ("__init__", "store self.numberOfFloatVariables", "param-alias"),
   ("__GetYonX", "return", "self-alias")]

def siteOK (s : String × String × String × String) : Bool :=
  safeKinds.contains s.2.2.1 || exceptions.contains (s.1, s.2.1, s.2.2.1)

/-- **No aliasing.** Every array the evolvent stores is a private copy or a new array, every array it returns is a copy, and no local
that stands for a caller's object is updated in place (the repaired defects F8 and F12, and the seeded changes that replaced
`np.array(y, dtype=np.double)` by `np.asarray(...)`, returned `self.yValues` or bound `d = _x`, all violate this). -/
theorem no_aliasing : evCopySites.all siteOK = true := by decide

/-- the public queries are present with the expected discipline: `GetImage` returns a fresh array; the inverse maps return a scalar
computed by a method of the object -/
theorem public_sites :
    ("GetImage", "return", "fresh", "np.copy(self.yValues)") ∈ evCopySites ∧
    (evCopySites.filter (fun s => s.1 == "GetInverseImage" && s.2.1 == "return")).all (fun s => s.2.2.1 == "method-result") = true ∧
    (evCopySites.filter (fun s => s.1 == "GetPreimages" && s.2.1 == "return")).all (fun s => s.2.2.1 == "method-result") = true ∧
    (evCopySites.filter (fun s => s.2.1 == "return" && (s.1 == "GetInverseImage" || s.1 == "GetPreimages" || s.1 == "GetImage"))).length = 3 := by
  decide

/-- every store into one of the three arrays of the object, in whatever method, is a fresh array -/
theorem stores_fresh :
    (evCopySites.filter (fun s => s.2.1 == "store self.yValues" || s.2.1 == "store self.lowerBoundOfFloatVariables"
      || s.2.1 == "store self.upperBoundOfFloatVariables")).all (fun s => s.2.2.1 == "fresh") = true ∧
    6 ≤ (evCopySites.filter (fun s => s.2.1 == "store self.yValues" || s.2.1 == "store self.lowerBoundOfFloatVariables"
      || s.2.1 == "store self.upperBoundOfFloatVariables")).length := by
  decide

end EvCopy
