import IOptModel.Solver
import IOptProofs.ComposeInv
import IOptProofs.ComposeGrid
import IOptProofs.MethodFacts
import IOptProofs.ProcessField
import Mathlib.Algebra.Order.Archimedean.Real.Basic
import Mathlib.Tactic.NormNum
/-!
# C20 — the configured evolvent density reaches the evolvent: every trial lies on the `2^m` grid

"With density m every trial coordinate is lower + (j+1/2)*(upper-lower)/2^m for an integer j."

`Solver.mk c` (`IOptModel/Solver.lean`) are the parameters `Solver.__init__` hands to the method:
`image := Ev.getImage c.n c.evolventDensity c.lower c.upper`.  For `Ev.DimOK N` every point the global search
evaluates — in every reachable state of the method, and after ANY sequence of `DoGlobalIteration(k)` /
`Solve` calls on a fresh solver, whether or not the objective raises in between — has every coordinate
equal to the centre of a cell of the grid with `2^evolventDensity` cells per axis.  No assumption on
`r`, `eps`, the library functions or the ordering of the bounds is needed.  Grids of different
densities are disjoint (`C20_density_matters`), so a solver that used another density than the
configured one (defect F4: the default 10) would put EVERY trial off the configured grid.

`int(d)` is the natural floor (`Ev.Num.floorTrunc`).
-/
set_option linter.unusedSectionVars false

namespace C20
open AGP Proc
variable {α : Type} [Field α] [LinearOrder α] [IsStrictOrderedRing α] [FloorSemiring α] [Fns α]
attribute [local instance] Ev.Num.floorTrunc

/-- `pt` has `c.n` coordinates and coordinate `i` is
`lower_i + (j + 1/2)·(upper_i - lower_i)/2^m` for a cell index `j < 2^m`, `m = c.evolventDensity` -/
def OnGrid (c : Solver.Config α) (pt : List α) : Prop :=
  pt.length = c.n ∧
  ∀ i (_ : i < pt.length) (_ : i < c.lower.length) (_ : i < c.upper.length),
    ∃ j : Nat, j < 2 ^ c.evolventDensity ∧
      pt[i] = c.lower[i] + ((j : α) + 1 / 2) * (c.upper[i] - c.lower[i]) / 2 ^ c.evolventDensity

/-- the evolvent of the solver maps every argument to the configured grid -/
theorem image_onGrid (c : Solver.Config α) (hn : Ev.DimOK c.n) (hl : c.lower.length = c.n)
    (hu : c.upper.length = c.n) (x : α) : OnGrid c ((Solver.mk c).image x) :=
  Ev.getImage_onGrid hn c.evolventDensity c.lower c.upper hl hu x

/-- **C20 (method level).** For `Ev.DimOK N` and bounds of length `N`, in every state reachable by the
method with the solver's parameters, every point handed to the objective (every entry of the evaluation
log) and the stored point of every item of the search information (the two end points included) lies
on the grid of the configured density. -/
theorem C20_trial_on_grid (c : Solver.Config α) (hn : Ev.DimOK c.n) (hl : c.lower.length = c.n)
    (hu : c.upper.length = c.n) {s : State α} {log : List (List α × α)}
    (h : Reach (Solver.mk c) s log) :
    (∀ e ∈ log, OnGrid c e.1) ∧ ∀ it ∈ s.items, OnGrid c it.point := by
  obtain ⟨hpt, -, hlog⟩ := h.curve
  constructor
  · intro e he
    obtain ⟨x, -, -, hx⟩ := hlog e he
    rw [hx]; exact image_onGrid c hn hl hu x
  · intro it hit
    rw [hpt it hit]; exact image_onGrid c hn hl hu it.x

/-- **C20 (process level).** After any sequence `ops` of `DoGlobalIteration(k)` / `Solve` calls on a
freshly constructed solver, with ANY objective `f` (which may raise at any call) and any local
refinement: every point that was handed to the objective by the global search lies on the grid of the
configured density. -/
theorem C20_process_on_grid (c : Solver.Config α) (hn : Ev.DimOK c.n) (hl : c.lower.length = c.n)
    (hu : c.upper.length = c.n) (f : Nat → List α → Option α)
    (refine : PState α → Option (LocalResult α)) (ops : List Op) :
    ∀ e ∈ (runOps (Solver.mk c) f refine ops {}).evals, OnGrid c e.1 := by
  intro e he
  obtain ⟨x, -, -, hx⟩ := (curveInv_runOps (Solver.mk c) f refine ops).1 e he
  rw [hx]; exact image_onGrid c hn hl hu x

/-- **C20 for one `Solve()`** on a fresh solver. -/
theorem C20_solve_on_grid (c : Solver.Config α) (hn : Ev.DimOK c.n) (hl : c.lower.length = c.n)
    (hu : c.upper.length = c.n) (f : Nat → List α → Option α)
    (refine : PState α → Option (LocalResult α)) :
    ∀ e ∈ (solve (Solver.mk c) f refine {}).evals, OnGrid c e.1 :=
  C20_process_on_grid c hn hl hu f refine [Op.solve]

/-- **C20, the density matters.** On an axis `l < u`, the grids of two different densities have no
point in common: `l + (j+1/2)(u-l)/2^m ≠ l + (k+1/2)(u-l)/2^m'` for all `j, k` when `m ≠ m'`. -/
theorem C20_density_matters (l u : α) (hlu : l < u) {m m' : Nat} (hm : m ≠ m') (j k : Nat) :
    l + ((j : α) + 1 / 2) * (u - l) / 2 ^ m ≠ l + ((k : α) + 1 / 2) * (u - l) / 2 ^ m' := by
  -- wlog m < m'
  have key : ∀ (a d' : Nat) (j k : Nat),
      l + ((j : α) + 1 / 2) * (u - l) / 2 ^ a ≠ l + ((k : α) + 1 / 2) * (u - l) / 2 ^ (a + d' + 1) := by
    intro a d' j k he
    have hd : u - l ≠ 0 := (sub_pos.2 hlu).ne'
    have h2a : (2 : α) ^ a ≠ 0 := by positivity
    have h2b : (2 : α) ^ (a + d' + 1) ≠ 0 := by positivity
    have he' : ((j : α) + 1 / 2) * (u - l) / 2 ^ a = ((k : α) + 1 / 2) * (u - l) / 2 ^ (a + d' + 1) :=
      add_left_cancel he
    have e1 : (2 * (j : α) + 1) * 2 ^ (a + d' + 1) = (2 * (k : α) + 1) * 2 ^ a := by
      field_simp at he'
      linear_combination he'
    have e2 : (2 * j + 1) * 2 ^ (a + d' + 1) = (2 * k + 1) * 2 ^ a := by exact_mod_cast e1
    have e3 : (2 : Nat) ^ (a + d' + 1) = 2 ^ d' * 2 * 2 ^ a := by rw [pow_succ, pow_add]; ring
    rw [e3, ← Nat.mul_assoc] at e2
    have e4 := Nat.eq_of_mul_eq_mul_right (Nat.two_pow_pos a) e2
    have e5 : (2 * j + 1) * (2 ^ d' * 2) = 2 * ((2 * j + 1) * 2 ^ d') := by ring
    omega
  rcases Nat.lt_or_gt_of_ne hm with h | h
  · obtain ⟨d, rfl⟩ : ∃ d, m' = m + d + 1 := ⟨m' - m - 1, by omega⟩
    exact key m d j k
  · obtain ⟨d, rfl⟩ : ∃ d, m = m' + d + 1 := ⟨m - m' - 1, by omega⟩
    exact fun he => key m' d k j he.symm

/-- **C20, a solver using another density misses the configured grid with every trial.** If `c'` is
`c` with a different `evolventDensity` (e.g. the evolvent's default 10 instead of the configured value:
defect F4) and the first axis is non-degenerate, no evaluation of a solver built from `c'` lies on the
grid of `c`. -/
theorem C20_wrong_density_off_grid (c : Solver.Config α) (m' : Nat) (hm : m' ≠ c.evolventDensity)
    (hn : Ev.DimOK c.n) (hl : c.lower.length = c.n) (hu : c.upper.length = c.n)
    (hlt : ∀ i (h1 : i < c.lower.length) (h2 : i < c.upper.length), c.lower[i] < c.upper[i])
    (f : Nat → List α → Option α) (refine : PState α → Option (LocalResult α)) (ops : List Op) :
    ∀ e ∈ (runOps (Solver.mk { c with evolventDensity := m' }) f refine ops {}).evals, ¬ OnGrid c e.1 := by
  intro e he hon
  have h' := C20_process_on_grid { c with evolventDensity := m' } hn hl hu f refine ops e he
  obtain ⟨hlen, hg⟩ := hon
  obtain ⟨-, hg'⟩ := h'
  have hnpos : 0 < c.n := hn.pos
  have h0 : 0 < e.1.length := by omega
  have h1 : 0 < c.lower.length := by omega
  have h2 : 0 < c.upper.length := by omega
  obtain ⟨j, -, hj⟩ := hg 0 h0 h1 h2
  obtain ⟨k, -, hk⟩ := hg' 0 h0 h1 h2
  rw [hj] at hk
  exact C20_density_matters _ _ (hlt 0 h1 h2) (Ne.symm hm) j k hk

/-! ## Non-vacuity (over ℝ with the real-number library functions) -/
section NonVacuity
attribute [local instance] Fns.real

/-- a two-dimensional configuration with density 4 on the box `[-1,2] × [0,3]` -/
noncomputable def exampleConfig : Solver.Config ℝ :=
  { n := 2, lower := [-1, 0], upper := [2, 3], eps := 1 / 100, r := 3, itersLimit := 50, evolventDensity := 4 }

/-- the hypotheses of `C20_trial_on_grid` are satisfiable: there is a reachable state with 5 trials -/
example : ∃ (s : State ℝ) (log : List (List ℝ × ℝ)),
    (Ev.DimOK exampleConfig.n) ∧ exampleConfig.lower.length = exampleConfig.n ∧
    exampleConfig.upper.length = exampleConfig.n ∧ Reach (Solver.mk exampleConfig) s log ∧ log.length = 5 ∧
    (∀ e ∈ log, OnGrid exampleConfig e.1) := by
  have hr : (1 : ℝ) < (Solver.mk exampleConfig).r := by norm_num [Solver.mk, exampleConfig]
  have hn : 0 < (Solver.mk exampleConfig).n := by norm_num [Solver.mk, exampleConfig]
  obtain ⟨s, log, hre, hlen, -⟩ := exists_reach_obj (p := Solver.mk exampleConfig) FnsLaws.real hr hn
    (fun pt => pt.sum) 4
  have h2 : Ev.DimOK exampleConfig.n := by show Ev.DimOK 2; decide
  exact ⟨s, log, h2, rfl, rfl, hre, hlen, (C20_trial_on_grid exampleConfig h2 rfl rfl hre).1⟩

/-- `C20_solve_on_grid` on that configuration; the run makes at least one evaluation -/
example : (∀ e ∈ (solve (Solver.mk exampleConfig) (fun _ pt => some pt.sum) (fun _ => none) {}).evals,
      OnGrid exampleConfig e.1) ∧
    (solve (Solver.mk exampleConfig) (fun _ pt => some pt.sum) (fun _ => none) {}).evals ≠ [] := by
  refine ⟨C20_solve_on_grid exampleConfig (by show Ev.DimOK 2; decide) rfl rfl _ _, ?_⟩
  obtain ⟨K, -, hK, -, h1, -⟩ := C03.C03_stop_exact_field (Solver.mk exampleConfig) (fun _ pt => some pt.sum)
    (fun _ => none) FnsLaws.real (by norm_num [Solver.mk, exampleConfig]) (by norm_num [Solver.mk, exampleConfig])
    (by intro i pt; simp) (by norm_num [Solver.mk, exampleConfig])
  intro he
  rw [he] at hK
  simp at hK
  omega

/-- `C20_density_matters`: cell 3 of density 2 against cell 13 of density 4 on `[-1, 2]` -/
example : (-1 : ℝ) + ((3 : ℕ) + 1 / 2) * (2 - (-1)) / 2 ^ 2 ≠ -1 + ((13 : ℕ) + 1 / 2) * (2 - (-1)) / 2 ^ 4 :=
  C20_density_matters (-1) 2 (by norm_num) (by decide) 3 13

end NonVacuity
end C20
